#!/bin/sh
# Builds the whole verification framework offline from files on disk.
set -e
cd /verif/harness
export CARGO_NET_OFFLINE=true
cargo build --profile verif --workspace
if [ -f /verif/harness/.verifrel ]; then
  for spec in $(cat /verif/harness/.verifrel); do
    pkg=${spec%%:*}; bin=${spec##*:}
    cargo build --profile verifrel -p "$pkg" --bin "$bin"
  done
fi
