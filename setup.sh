#!/bin/sh
# Builds the verification framework offline from files on disk (every registered check part).
set -e
export CARGO_NET_OFFLINE=true
cd /verif
exec python3 ./check --build-all
