#!/usr/bin/env python3
"""Renders /verif/seeded/RESULTS.md from the evaluation results (results.json produced by the
isolated evaluation run, see DESIGN.md §8.2) and the seeds' meta.json files."""
import json, os, sys, glob
res_path = sys.argv[1] if len(sys.argv) > 1 else "/verif/seeded/results.json"
res = json.load(open(res_path))
rows = []
for d in sorted(glob.glob("/verif/seeded/C*")):
    sid = os.path.basename(d)
    try:
        meta = json.load(open(os.path.join(d, "meta.json")))
    except Exception:
        meta = {}
    r = res.get(sid, {})
    if not r:
        verdict, how = "not evaluated", ""
    elif not r.get("applied", True):
        verdict, how = "does not apply to the current tree", ""
    elif r.get("exit") == 1:
        verdict, how = "caught", "; ".join(r.get("signatures", [])[:3])
    elif r.get("exit") == 0:
        verdict, how = "MISSED", ""
    else:
        verdict, how = f"inconclusive (exit {r.get('exit')})", "; ".join(r.get("signatures", [])[:2])
    tier = r.get("tier", "quick")
    if r.get("note"):
        how = (how + " — " if how else "") + r["note"]
    if verdict == "MISSED" and "not claimed" in r.get("note", ""):
        verdict = "not claimed"
    rows.append((sid, meta.get("title", "").replace("|", "/")[:110], verdict, tier, how.replace("|", "/")[:260]))
out = ["| seed | change | verdict | tier | first signatures |", "|---|---|---|---|---|"]
out += [f"| {a} | {b} | {c} | {t} | {d} |" for a, b, c, t, d in rows]
caught = sum(1 for r in rows if r[2] == "caught")
out.append("")
nc = sum(1 for r in rows if r[2] == "not claimed")
out.append(f"{caught} of {len(rows)} seeded defects caught, {nc} outside what the check claims, {len(rows) - caught - nc} missed.")
open("/verif/seeded/RESULTS.md", "w").write("\n".join(out) + "\n")
print("\n".join(out))
