#!/usr/bin/env python3
"""Generates /verif/MANIFEST.json from the table below (single place to edit)."""
import json, os, subprocess
ROOT = os.path.dirname(os.path.dirname(os.path.abspath(__file__)))
props = [json.loads(l)["id"] for l in open(os.path.join(ROOT, "properties.jsonl"))]

CHECKS = {
 "C01": dict(
  technique="systematic enumeration of a family of small topologies + proptest random topologies, run through the repository's own pipeline (pocketscion control plane -> signed segments -> SDK combinator) for every ordered AS pair; oracle = an independently written MAC-verifying reference border router (scionproto processing order, each AS's own key) walking every offered path and the reversal of the path as received; completeness oracle = reference beacons joined by a brute-force reference combinator",
  text="Exploration with an exhaustively enumerated core in the thorough tier (~11 000 small topologies, rotating 1/11 slice per quick run) plus random topologies up to 3 ISDs / 16 ASes with peering and parallel links, colliding interface numbers and per-AS random keys: every path returned by SegmentRegistry::paths(src,dst) must be delivered at dst by the reference router along exactly the interfaces of its metadata; the path as received, reversed by ScionPath::try_reverse, must be delivered back at src; and whenever the topology's segments can be joined by the reference combinator at least one path must be offered.",
  note="Forwardability is judged by the reference router, not by pocketscion's simulator (C13 compares those two); hop expiry is the pipeline's fixed 255 units and the reference clock is segment timestamp + 30 s; the daemon/endhost-API transport between control plane and SDK is not in the loop.",
  design="DESIGN.md §3 C01"),
 "C02": dict(
  technique="enumeration of the size-determining header fields x truncation points + proptest shaped/random/mutated buffers, each view placed exactly against inaccessible guard pages (before and after) in a debug-assertion build and in a release build; differential on acceptance and reported size against an independent decoder; invariant: safe accessors/mutators never change the layout or write outside the view",
  text="Exploration with exhaustively enumerated cores: path type x all 256 address type/length nibble pairs x segment-length triples ({0,1,2,3,31,62,63}^3 quick, all 2^18 thorough) x HdrLen variants x truncation at every field boundary; every constructor (slice, mut slice, boxed) of every view type; the crate's exec_every_view_function plus generated sequences of safe accessors/mutators run on the exact view bytes bounded by PROT_NONE pages, so any out-of-view access faults (reported by a SIGSEGV handler with the replay case). Run twice: with debug assertions/overflow checks and as plain release build.",
  note="Page-granular exact placement detects out-of-bounds reads/writes at the view's end and start, not provenance/aliasing UB (Miri is another technique); unsafe setters excluded; a libFuzzer target exists as a thorough-tier extension only.",
  design="DESIGN.md §3 C02"),
 "C03": dict(
  technique="proptest over packet models built by construction (boundary-directed sizes, representable and unrepresentable models, even/odd buffer alignment); differential against an independent wire decoder/encoder and RFC 1071 checksum; round trip; reference-encoded canonical byte strings",
  text="Exploration: each generated model is encoded by the SUT and read back by an independently written decoder (fields, truthful HdrLen/PayloadLen/UDP length, zero reserved bits, checksum over pseudo-header||message), decoded again by the SUT (equal model, no rest); encoding into a dirty buffer must equal encoding into a fresh Vec; canonical byte strings produced by the reference encoder must decode and re-encode identically; models that cannot be represented must be rejected (any accepted model has to pass all of the above).",
  note="Reference decoder written from the SCION header/SCMP diagrams; IPv4/IPv6 host semantics not interpreted; SCMP error models truncate their quote by design (checked as maximal prefix + re-encode stability); extension headers (HBH/E2E) are outside the SDK's model and not generated.",
  design="DESIGN.md §3 C03"),
 "C04": dict(
  technique="systematic enumeration of a family of small topologies (all ordered AS pairs) + proptest random topologies; reference control plane (beacons with an independent MAC chain) and a brute-force reference combinator over the combination rules; set equality of interface sequences (soundness+completeness), metadata vs dataplane decoded independently, MTU/expiry minima, metamorphic permutation/duplication of the inputs, every returned path walked by a reference MAC-verifying router",
  text="Exploration with an exhaustively enumerated core: ~11 000 small topologies (1-2 ISDs x 1-2 cores x <=3 non-core ASes with every parent set x optional peering link at every pair x single/double links), every ordered AS pair; random topologies up to 3 ISDs / 14 ASes / 4 peering links with colliding interface numbers. combine() must return exactly the reference set of interface sequences, each once, loop-free, by non-decreasing link count, with truthful interface list, MTU and expiry, invariant under permutation/duplication of the segment lists; each returned path is delivered by the reference router along its interface list.",
  note="Segments are those a control service returns for the request (non-core segments whose leaf is src or dst, all core segments); segments up to 6 ASes; tie order among equally long paths not asserted.",
  design="DESIGN.md §3 C04"),
 "C08": dict(
  technique="differential against a reference decision procedure (independent header decoder + property text); exhaustive grids over address-type and path-type bytes and all truncation points; field-directed mutation; random datagrams",
  text="For (datagram, tunnel peer, local address): the gateway's ingress outcome (policy check + SCMP reply construction exactly as in the receive loop, via the verif-hooks entry ingress_outcome) must equal the verdict of refmodel::wire::decode_header + the three documented policies (parses; source host type IPv4/IPv6 and equal to the peer; path type 0 or 1). Rejected datagrams yield at most one reply, which must be an SCMP ParameterProblem <= 1232 B <= send buffer, addressed to the peer, quoting the maximal prefix of the datagram, with a verifying RFC 1071 checksum. No panic.",
  note="Either verdict is accepted (and counted) for v4 vs v4-mapped-v6 source/peer pairs, payload shorter than PayloadLen, trailing bytes and semantically inconsistent standard paths. Only the Forwarded arm of the receive loop is covered (WireGuard decapsulation and the dispatcher are outside).",
  design="DESIGN.md §3 C08"),
 "C09": dict(
  technique="model-based stateful testing of the real SnapTunServer + real IdentityRegistry driven in-process by real ana_gotatun (WireGuard) clients under a virtual clock; exhaustive enumeration of short operation histories + proptest random histories (40% built around handshake / traffic / loss of authorisation / traffic / re-registration / traffic, with packet loss); end-to-end observation (what the server forwards, what it accepts for encryption, what a client can decrypt) judged by a plain authorisation model; exhaustive small-domain check of the strict expiry boundary on IdentityRegistry alone with synthetic Instants",
  text="Exploration with exhaustively enumerated cores. Histories over 2 token keys x 3 x25519 identities x 2 client socket addresses of {register(key,id,lifetime), clock advance, purge expired, handshake(id,addr), data in, data out, timer tick, duplicate delivery, data through the other address, packet loss after the handshake response / of the server's immediate output}: all histories of length <=3 and (thorough) =4 over a 29-symbol alphabet, all of length 5 over an 18-symbol reduced alphabet (thorough; arithmetic slices in quick), random histories up to length 40. After every operation: Forwarded => the client that encrypted exactly these bytes is, per the model, registered and unexpired now, the session data returned is the one registered for that identity and that identity completed a handshake over that address; handle_outgoing Some => same for the identity of the returned session; any client decrypting a non-empty payload => authorised now, payload was handed to the server for that address and not reported dropped; has_authorization == model for all identities (both directions), never more authorised identities than keys. Registry alone: all histories of <=3 (quick) / <=4 (thorough) operations over register(dt,key,id,lifetime 0..2)/purge(dt) in units of 1 s and 1 ns, probed at now..now+4 for every identity (exact strict boundary expiry > now).",
  note="Single-threaded: concurrency of registry updates vs. the packet path is not explored. SnapTunServer and ana_gotatun read the real clock: composed comparisons closer than 2 s to an expiry are skipped and counted (guard-band-skip), cases slower than 1 s real time are excluded and counted (0 observed); WireGuard timers (rekey, keepalive, 540 s tunnel expiry) therefore never fire, update_timers is exercised but inert; cookie/rate-limit path disabled. Liveness (authorised traffic flows) is measured by labels and generator-health floors, not demanded. IdentityRegistry's own SessionData is (), so attribution is checked through per-identity session tags supplied by the ClockedAuthz wrapper.",
  design="DESIGN.md §3 C09"),
 "C10": dict(
  technique="systematic single-mutation enumeration around harness-built valid v0/v1 JWTs (own base64 + ed25519-dalek signing; incl. all 512 signature bit flips, every header/payload bit, segment splicing, alg=none and HS256-with-public-key confusion, kid x key matrix, base64 spellings) + proptest random multi-mutations and random strings; differential against a reference acceptance predicate over the token string written from the statement; observed at SnapTokenVerifier::verify, at the AuthMiddleware of build_router via tower oneshot (401 vs not) and at a recording identity registry (granted lifetime <= exp - time before the request); static-key and static+JWKS (store fed from an in-process loopback endpoint) configurations",
  text="Exploration with an exhaustively enumerated core: 8 765 systematic mutations around 7 valid tokens are all judged; 100 000 (quick) / 3 000 000 (thorough) random mutation combinations and 20 000 / 500 000 random strings extend beyond it. verify Ok <=> reference accepts; 401 <=> reference refuses; registrations only for accepted tokens with lifetime bounded by the remaining token lifetime.",
  note="The verifier reads the wall clock itself: generated times stay >= 2 s away from now-60/now+60 and a token whose verdict differs between the clock readings before/after the call is not judged (never happened). Ed25519 is assumed (bit flips are enumerated for 4 tokens, sampled otherwise). Not judged: other base64 spellings of acceptable tokens, non-string optional header parameters, ill-typed registered claims outside the version's documented structure, v1 aud as array, non-hyphenated UUID forms. JWKS refresh/rotation/fetch failures, the scion-sdk-token-validator Validator<C> path and the lower bound of the granted lifetime are out of scope.",
  design="DESIGN.md §3 C10"),
 "C11": dict(
  technique="exhaustive enumeration of small segment shapes/directions + proptest random authentic paths from an independent AES-CMAC beacon chain with per-AS keys (forward walk, reversal, walk back, SegID == reference beta at every hop); single-bit tampering must be detected by the owning AS; stateful exploration of ingress/egress step sequences on arbitrary parseable paths with atomicity/monotonicity invariants",
  text="Exploration with exhaustive cores: all combinations of 1-3 segments x 2-3 hops x travel directions (and the peering variant) with fresh keys, every class of authenticated-bit flip on them; random paths up to 21 hops per segment with arbitrary cuts (shortcut/on-path shapes); random step sequences (ingress internal/external, egress; no validator / MAC validator / always-failing validator) over all small segment-length shapes and pointer values: AdvanceError => bytes identical, success => pointers monotone and inside the path, egress strictly advances, the ingress+egress router loop terminates within #hop-fields AS steps.",
  note="AES/CMAC primitives trusted; known finding (open): paths crossing a peering link never verify because advance_* has no peering support; SCMP router-alert handling is not asserted.",
  design="DESIGN.md §3 C11"),
 "C12": dict(
  technique="exhaustive enumeration of small path shapes x all pointer positions + proptest random paths; differential view vs model vs an independent reference (reversal, expiry, interfaces); metamorphic (reverse twice = identity); atomicity oracle (Err => operand byte-identical) on all view-accepted byte strings",
  text="Exploration with exhaustive cores: every well-formed standard path with <=3 segments x <=3 hops at every hop/info position (random up to 64 hops) is taken through every operation offered on both representations and compared three ways (view, model, reference); every parseable standard-path byte string with segment lengths <=3 and every pointer value (random beyond) is taken through all fallible operations: an error must leave bytes, model and ScionPath (endpoints, metadata, fingerprints) untouched and nothing may panic; one-hop view/model operations are compared likewise.",
  note="Agreement is asserted on well-formed paths only; known finding (open): path-level reversal of a one-hop path differs between ScionDpPathView (in place, stays one-hop) and DpPath (becomes a standard path).",
  design="DESIGN.md §3 C12"),
 "C15": dict(
  technique="exhaustive enumeration of short strings and single-character edits + proptest random strings/values, differential against an independent reference grammar, display/parse round trip",
  text="Exploration: every (type,string) pair generated is compared (acceptance and value) with an independently written grammar; parse(display(v))==v and the serde string form are checked on generated values of all 15 address/identifier types; the DNS TXT payload parser is compared with the module's ABNF. Sub-domains enumerated completely: all strings of length<=3 over a 24-character alphabet, all single-character edits of the valid spellings of 8 base values.",
  note="IPv4/IPv6 literal syntax is std::net's on both sides; numeric tokens follow Rust integer syntax (leading '+', leading zeros); not a proof: strings outside the enumerated sub-domains are sampled.",
  design="DESIGN.md §3 C15"),
 "C16": dict(
  technique="exhaustive enumeration of small ACLs / hop-pattern ASTs x all short hop sequences + proptest random instances, differential against first-match ACL semantics and a Brzozowski-derivative regular-language matcher; metamorphic (redundant parentheses/whitespace); round trip of predicates",
  text="Exploration with exhaustively enumerated cores: all ACLs with <=3 entries over 6 predicates and all hop-pattern ASTs of depth<=2 (depth 3 in thorough) over 3 predicates plus all top-level sequences of <=3 depth-1 items are evaluated on ALL hop sequences up to length 4/5 over 4 concrete hops and compared with the denotational semantics; random deeper instances and parser soup extend beyond the bound.",
  note="Hops carry no wildcard ISD/AS (0); empty hop sequences are not generated; patterns are built through parse() (private AST); stacked repetition operators are limited to 12 in parser soup because SUT matching cost grows exponentially with stacked '*' (DESIGN, C16 limits) - a hang would be reported as inconclusive, not as a violation.",
  design="DESIGN.md §3 C16"),
 "C17": dict(
  technique="exhaustive enumeration of all delivery orders of <=2 packets x <=3 frames with one optional drop/duplicate, and of all frame sequences of length <=4 (5) over a 13-frame hostile alphabet + proptest schedules (step machine: interleaving, permutation, duplication also after completion, loss) over frames cut by the real Fragmenter and hostile frame sequences (generated structures, byte-code decoded from raw bytes); oracles: byte-identity/at-most-once/must-emit against a slot-occupancy model and the documented eviction policy, shadow-map coverage of every emitted byte, counting global allocator",
  text="Exploration with exhaustive cores. Honest sender: boundary-directed sizes 1..65535 x MTUs {272,273,1400,9000} x Q in {1,2,3,5,8}, up to Q+2 packets in flight; every emitted packet must be byte-identical to the sent packet with that stream offset, only after all its frames were delivered and at most once; it must be emitted by the call that delivers its last missing frame whenever never more than Q packets occupied slots (policy-free) and whenever the documented slot policy did not reclaim its slot. Arbitrary frames: every byte of an emitted packet must have been received at that position in a frame of the same stream offset and the length must be announced by a received LAST frame of it; no panic; net allocated bytes constant over ~10^4-10^5 hostile frames per case.",
  note="Fragmenter frames are checked against the documented wire format; the completeness claim after evictions relies on the slot policy described in the module docs; stream-offset wrap-around and queue count 0 are not generated; at-most-once is asserted for honest senders only; memory is measured as net heap bytes of the calling thread (one-time prometheus label children tolerated).",
  design="DESIGN.md §3 C17"),
 "C18": dict(
  technique="proptest over signed path segments (1-5 AS entries with peers, 2-3 ECDSA P-256 keys, key ids; built through the SDK's signing API and by an independent reference signer) presented after a tampering operator, judged by an explicit byte-level model of the signature chain; exhaustive enumeration of every single-bit flip of small segments incl. a real control-service segment; independent SHA-2/p256 verification of what the API signed; round trip + structural differential for the RPC conversions of segments, segment pages and daemon paths; byte-mutated encodings for totality",
  text="Exploration with an exhaustive core: every single-bit flip in segment info / header_and_body / signature of every entry of a fixed set of small segments (the real segment of the repository's test plus seed-drawn segments of 1-3 entries, 1-5 in thorough), through the RPC form and the serde form, and 8 sampled operators per random segment (bit flips, multi-flips, swap, drop-first/middle, truncate, inserted/appended copy, foreign entry, key substitution / missing key, associated-data length lie, forged entry, (r,n-s), alternative DER / info encodings): the entry at position p must validate IFF an authentic record has exactly its bytes, was signed over exactly info || entries 0..p as presented and the verifier resolves the signer's key. SignedMessage sign/validate/decode_validated are checked alone with chunked associated data and three digests. RPC: from_rpc(to_rpc(x)) == x for segments, pages and paths with canonical rich metadata; structural arbitrary PathSegment / SegmentsResponse / daemon Path messages (beyond-16-bit values, missing sub-messages, inconsistent vector lengths, negative times, junk) and byte-mutated encodings give Ok or Err without panic, accepted messages are represented without silent truncation, messages of the documented shape are accepted with every datum where daemon.proto puts it, and the accepted value survives to_rpc -> from_rpc.",
  note="ECDSA/SHA-2 primitives assumed; (r,n-s) is accepted by the verifier (p256 does not enforce low-S) and non-canonical segment-info encodings of the same value validate (info is re-encoded on conversion) - both observed and counted, not claimed; known findings (open): a byte-identical copy of an earlier entry validates at a later position; ScionPath::to_rpc loses latency/bandwidth/link type/internal hops; extensions, unsigned extensions, pagination token and EPIC authenticators are documented as unsupported and not generated; entries of a segment carry distinct ASes.",
  design="DESIGN.md §3 C18"),
 "C19": dict(
  technique="proptest structural mutation of valid segment sets (20 mutation operators) and random segment soup; validity predicates on every returned path (parses, re-encodes, independent decoder, metadata consistent, expiry) and a metamorphic relation (junk segments never remove a path of the valid set); panics are violations",
  text="Exploration: valid segment sets from generated topologies with 1-5 structural mutations (deleted/duplicated/reordered entries, zeroed or aliased interface ids, repeated ASes, cross-wired peer entries, empty/single-entry/64-80 entry segments, out-of-range MTUs, core<->non-core confusion, foreign ISD-AS) and up to 40 soup segments; combine() must return without panicking, every returned path must be self-consistent, and paths obtainable from the valid segments must survive the addition of the junk.",
  note="The polynomial-time clause is only checked as completion under the watchdog (no wall-clock verdicts); PathFetcherImpl over a mock SegmentFetcher is not driven here.",
  design="DESIGN.md §3 C19"),
}
NOT_YET = "check not built yet (work in progress)"

def main():
    hooks_commits = []
    try:
        out = subprocess.run(["git", "-C", "/repo", "log", "--format=%h %s"], capture_output=True, text=True).stdout
        hooks_commits = [l.split()[0] for l in out.splitlines() if l.split(" ", 1)[1].startswith("verif-hooks:")]
    except Exception:
        pass
    m = {
     "version": 1,
     "setup_cmd": "sh /verif/setup.sh",
     "hooks": {
      "guard": "cargo feature `verif-hooks` (crates scion-stack, snap-dataplane); off by default",
      "enable": "the harness crates under /verif/harness depend on /repo/crates/... by path with features=[\"verif-hooks\"]; ./check rebuilds them from /repo's working tree on every invocation",
      "baseline_off_cmd": "cd /repo && cargo nextest run --workspace --no-fail-fast --test-threads 8 --offline",
      "source_commits": hooks_commits,
      "add_only": True,
     },
     "engines": [
      {"name": "vcore", "path": "harness/vcore", "serves_properties": sorted(CHECKS), "kind_free_text": "proptest TestRunner (fixed seeds from VERIF_SEED, sharded), exhaustive enumerators, counters/evidence/replay/known-findings, guard-page buffers"},
      {"name": "refmodel", "path": "harness/refmodel", "serves_properties": sorted(CHECKS), "kind_free_text": "independent reference models used as oracles (text grammar, wire codec, checksum, MAC chain, router, combinator)"},
     ],
     "checks": [],
     "not_applicable": [],
     "notes": "All checks: ./check <id> [--tier quick|thorough] [--replay FILE]. Exit 0 held / 1 VIOLATION / 2 inconclusive. Known findings: /verif/known_findings.json.",
    }
    for p in props:
        if p in CHECKS:
            c = CHECKS[p]
            m["checks"].append({
             "property_id": p,
             "quick_cmd": f"./check {p} --tier quick",
             "thorough_cmd": f"./check {p} --tier thorough",
             "evidence_file": f"/verif/evidence/{p}.json",
             "replay_cmd_template": f"./check {p} --replay {{path}}",
             "engine": "vcore",
             "level_claimed": {"category": "exploration", "text": c["text"], "design_ref": c["design"]},
             "level_note": c["note"],
             "technique": c["technique"],
            })
        else:
            m["not_applicable"].append({"property_id": p, "reason": NOT_YET})
    json.dump(m, open(os.path.join(ROOT, "MANIFEST.json"), "w"), indent=1)

if __name__ == "__main__":
    main()
