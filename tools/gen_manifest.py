#!/usr/bin/env python3
"""Generates /verif/MANIFEST.json from the table below (single place to edit)."""
import json, os, subprocess
ROOT = os.path.dirname(os.path.dirname(os.path.abspath(__file__)))
props = [json.loads(l)["id"] for l in open(os.path.join(ROOT, "properties.jsonl"))]

CHECKS = {
 "C02": dict(
  technique="enumeration of the size-determining header fields x truncation points + proptest shaped/random/mutated buffers, each view placed exactly against inaccessible guard pages (before and after) in a debug-assertion build and in a release build; differential on acceptance and reported size against an independent decoder; invariant: safe accessors/mutators never change the layout or write outside the view",
  text="Exploration with exhaustively enumerated cores: path type x all 256 address type/length nibble pairs x segment-length triples ({0,1,2,3,31,62,63}^3 quick, all 2^18 thorough) x HdrLen variants x truncation at every field boundary; every constructor (slice, mut slice, boxed) of every view type; the crate's exec_every_view_function plus generated sequences of safe accessors/mutators run on the exact view bytes bounded by PROT_NONE pages, so any out-of-view access faults (reported by a SIGSEGV handler with the replay case). Run twice: with debug assertions/overflow checks and as plain release build.",
  note="Page-granular exact placement detects out-of-bounds reads/writes at the view's end and start, not provenance/aliasing UB (Miri is another technique); unsafe setters excluded; a libFuzzer target exists as a thorough-tier extension only.",
  design="DESIGN.md §3 C02"),
 "C03": dict(
  technique="proptest over packet models built by construction (boundary-directed sizes, representable and unrepresentable models, even/odd buffer alignment); differential against an independent wire decoder/encoder and RFC 1071 checksum; round trip; reference-encoded canonical byte strings",
  text="Exploration: each generated model is encoded by the SUT and read back by an independently written decoder (fields, truthful HdrLen/PayloadLen/UDP length, zero reserved bits, checksum over pseudo-header||message), decoded again by the SUT (equal model, no rest); encoding into a dirty buffer must equal encoding into a fresh Vec; canonical byte strings produced by the reference encoder must decode and re-encode identically; models that cannot be represented must be rejected (any accepted model has to pass all of the above).",
  note="Reference decoder written from the SCION header/SCMP diagrams; IPv4/IPv6 host semantics not interpreted; SCMP error models truncate their quote by design (checked as maximal prefix + re-encode stability); extension headers (HBH/E2E) are outside the SDK's model and not generated.",
  design="DESIGN.md §3 C03"),
 "C11": dict(
  technique="exhaustive enumeration of small segment shapes/directions + proptest random authentic paths from an independent AES-CMAC beacon chain with per-AS keys (forward walk, reversal, walk back, SegID == reference beta at every hop); single-bit tampering must be detected by the owning AS; stateful exploration of ingress/egress step sequences on arbitrary parseable paths with atomicity/monotonicity invariants",
  text="Exploration with exhaustive cores: all combinations of 1-3 segments x 2-3 hops x travel directions (and the peering variant) with fresh keys, every class of authenticated-bit flip on them; random paths up to 21 hops per segment with arbitrary cuts (shortcut/on-path shapes); random step sequences (ingress internal/external, egress; no validator / MAC validator / always-failing validator) over all small segment-length shapes and pointer values: AdvanceError => bytes identical, success => pointers monotone and inside the path, egress strictly advances, the ingress+egress router loop terminates within #hop-fields AS steps.",
  note="AES/CMAC primitives trusted; known finding (open): paths crossing a peering link never verify because advance_* has no peering support; SCMP router-alert handling is not asserted.",
  design="DESIGN.md §3 C11"),
 "C12": dict(
  technique="exhaustive enumeration of small path shapes x all pointer positions + proptest random paths; differential view vs model vs an independent reference (reversal, expiry, interfaces); metamorphic (reverse twice = identity); atomicity oracle (Err => operand byte-identical) on all view-accepted byte strings",
  text="Exploration with exhaustive cores: every well-formed standard path with <=3 segments x <=3 hops at every hop/info position (random up to 64 hops) is taken through every operation offered on both representations and compared three ways (view, model, reference); every parseable standard-path byte string with segment lengths <=3 and every pointer value (random beyond) is taken through all fallible operations: an error must leave bytes, model and ScionPath (endpoints, metadata, fingerprints) untouched and nothing may panic; one-hop view/model operations are compared likewise.",
  note="Agreement is asserted on well-formed paths only; known finding (open): path-level reversal of a one-hop path differs between ScionDpPathView (in place, stays one-hop) and DpPath (becomes a standard path).",
  design="DESIGN.md §3 C12"),
 "C15": dict(
  technique="exhaustive enumeration of short strings and single-character edits + proptest random strings/values, differential against an independent reference grammar, display/parse round trip",
  text="Exploration: every (type,string) pair generated is compared (acceptance and value) with an independently written grammar; parse(display(v))==v and the serde string form are checked on generated values of all 15 address/identifier types; the DNS TXT payload parser is compared with the module's ABNF. Sub-domains enumerated completely: all strings of length<=3 over a 24-character alphabet, all single-character edits of the valid spellings of 8 base values.",
  note="IPv4/IPv6 literal syntax is std::net's on both sides; numeric tokens follow Rust integer syntax (leading '+', leading zeros); not a proof: strings outside the enumerated sub-domains are sampled.",
  design="DESIGN.md §3 C15"),
 "C16": dict(
  technique="exhaustive enumeration of small ACLs / hop-pattern ASTs x all short hop sequences + proptest random instances, differential against first-match ACL semantics and a Brzozowski-derivative regular-language matcher; metamorphic (redundant parentheses/whitespace); round trip of predicates",
  text="Exploration with exhaustively enumerated cores: all ACLs with <=3 entries over 6 predicates and all hop-pattern ASTs of depth<=2 (depth 3 in thorough) over 3 predicates plus all top-level sequences of <=3 depth-1 items are evaluated on ALL hop sequences up to length 4/5 over 4 concrete hops and compared with the denotational semantics; random deeper instances and parser soup extend beyond the bound.",
  note="Hops carry no wildcard ISD/AS (0); empty hop sequences are not generated; patterns are built through parse() (private AST); stacked repetition operators are limited to 12 in parser soup because SUT matching cost grows exponentially with stacked '*' (DESIGN, C16 limits) - a hang would be reported as inconclusive, not as a violation.",
  design="DESIGN.md §3 C16"),
}
NOT_YET = "check not built yet (work in progress)"

def main():
    hooks_commits = []
    try:
        out = subprocess.run(["git", "-C", "/repo", "log", "--format=%h %s"], capture_output=True, text=True).stdout
        hooks_commits = [l.split()[0] for l in out.splitlines() if l.split(" ", 1)[1].startswith("verif-hooks:")]
    except Exception:
        pass
    m = {
     "version": 1,
     "setup_cmd": "sh /verif/setup.sh",
     "hooks": {
      "guard": "cargo feature `verif-hooks` (crates scion-stack, snap-dataplane); off by default",
      "enable": "the harness crates under /verif/harness depend on /repo/crates/... by path with features=[\"verif-hooks\"]; ./check rebuilds them from /repo's working tree on every invocation",
      "baseline_off_cmd": "cd /repo && cargo nextest run --workspace --no-fail-fast --test-threads 8 --offline",
      "source_commits": hooks_commits,
      "add_only": True,
     },
     "engines": [
      {"name": "vcore", "path": "harness/vcore", "serves_properties": sorted(CHECKS), "kind_free_text": "proptest TestRunner (fixed seeds from VERIF_SEED, sharded), exhaustive enumerators, counters/evidence/replay/known-findings, guard-page buffers"},
      {"name": "refmodel", "path": "harness/refmodel", "serves_properties": sorted(CHECKS), "kind_free_text": "independent reference models used as oracles (text grammar, wire codec, checksum, MAC chain, router, combinator)"},
     ],
     "checks": [],
     "not_applicable": [],
     "notes": "All checks: ./check <id> [--tier quick|thorough] [--replay FILE]. Exit 0 held / 1 VIOLATION / 2 inconclusive. Known findings: /verif/known_findings.json.",
    }
    for p in props:
        if p in CHECKS:
            c = CHECKS[p]
            m["checks"].append({
             "property_id": p,
             "quick_cmd": f"./check {p} --tier quick",
             "thorough_cmd": f"./check {p} --tier thorough",
             "evidence_file": f"/verif/evidence/{p}.json",
             "replay_cmd_template": f"./check {p} --replay {{path}}",
             "engine": "vcore",
             "level_claimed": {"category": "exploration", "text": c["text"], "design_ref": c["design"]},
             "level_note": c["note"],
             "technique": c["technique"],
            })
        else:
            m["not_applicable"].append({"property_id": p, "reason": NOT_YET})
    json.dump(m, open(os.path.join(ROOT, "MANIFEST.json"), "w"), indent=1)

if __name__ == "__main__":
    main()
