//! C10 — a SNAP token is accepted exactly when authentic, for SNAP, and within lifetime.
//!
//! Tokens are built here from scratch (JSON -> base64url -> Ed25519 with ed25519-dalek; the
//! jsonwebtoken crate is never used to sign), mutated, and shown to
//!   * `SnapTokenVerifier::verify`                      (Ok / Err),
//!   * the production router of `snap_control::server::build_router` through
//!     `tower::ServiceExt::oneshot` (AuthMiddleware: 401 or not; then
//!     `register_snaptun_identity_handler` with a recording identity registry),
//! and to the reference predicate `p_snapctl::reftok::verdict` (written from the statement).

use std::{
    cell::RefCell,
    collections::BTreeMap,
    net::SocketAddr,
    sync::{Arc, Mutex, OnceLock},
    time::{Duration, Instant, SystemTime, UNIX_EPOCH},
};

use axum::{Json, Router, body::Body, extract::ConnectInfo, routing::get};
use ed25519_dalek::{Signer, SigningKey};
use endhost_api_models::{SegmentsDiscovery, SegmentsError};
use http::{HeaderValue, Request, StatusCode};
use jsonwebtoken::DecodingKey;
use p_snapctl::reftok::{self, RefConfig, Verdict, b64url_decode, b64url_encode};
use proptest::{prelude::*, sample::select};
use scion_sdk_observability::metrics::registry::MetricsRegistry;
use sciparse::{identifier::isd_asn::IsdAsn, segment::SegmentsPage};
use serde::{Deserialize, Serialize};
use serde_json::{Value, json};
use snap_control::{
    api::crpc::model::{SnapDataPlane, SnapDataPlaneResolver, SnapTunIdentityRegistry},
    model::{SnapUnderlay, UdpUnderlay, UnderlayDiscovery},
    server::{
        SnapTokenVerifier, build_router, identity_registry::IdentityRegistry, jwks_key_store::JwksKeyStore,
        metrics::Metrics,
    },
};
use snap_tokens::AnyClaims;
use tower::ServiceExt;
use vcore::{CheckResult, Ctx, Fail, Obs, Sub, ensure, no_panic};

// ------------------------------------------------------------------------------------ keys

/// seeds of the test Ed25519 keys
const K_STATIC: u8 = 0x11; // the statically configured key
const K_A: u8 = 0x22; // served by the JWKS endpoint as KID_A
const K_B: u8 = 0x33; // served by the JWKS endpoint as KID_B
const K_ROGUE: u8 = 0x44; // trusted by nobody
const KID_A: &str = "ssr-key-a";
const KID_B: &str = "ssr-key-b";

/// The leeway the verifier configures: `build_validation` = `Validation::new(EdDSA)` and never
/// touches `leeway`, whose documented default is 60 s.
const LEEWAY: u64 = 60;
/// generated times stay at least this far from `now ± LEEWAY`
const GUARD: u64 = 2;

fn sk(seed: u8) -> SigningKey {
    SigningKey::from_bytes(&[seed; 32])
}
fn pk(seed: u8) -> [u8; 32] {
    sk(seed).verifying_key().to_bytes()
}

fn hmac_sha256(key: &[u8], msg: &[u8]) -> [u8; 32] {
    use sha2::{Digest, Sha256};
    let mut k = [0u8; 64];
    if key.len() > 64 {
        k[..32].copy_from_slice(&Sha256::digest(key));
    } else {
        k[..key.len()].copy_from_slice(key);
    }
    let mut i = Sha256::new();
    i.update(k.map(|b| b ^ 0x36));
    i.update(msg);
    let ih = i.finalize();
    let mut o = Sha256::new();
    o.update(k.map(|b| b ^ 0x5c));
    o.update(ih);
    o.finalize().into()
}

// ------------------------------------------------------------------------------------ cases

/// a claim value: literal JSON or a time relative to the moment the case is executed
#[derive(Debug, Clone, Serialize, Deserialize, PartialEq)]
enum CV {
    J(Value),
    /// now + offset seconds
    T(i64),
}

#[derive(Debug, Clone, Serialize, Deserialize, PartialEq)]
enum SignBy {
    /// Ed25519 with the key of this seed
    Ed(u8),
    /// HMAC-SHA256 keyed with the raw *public* key bytes of this seed (algorithm confusion)
    HmacPub(u8),
    /// no signature at all (empty third segment)
    Empty,
}

#[derive(Debug, Clone, Serialize, Deserialize, PartialEq)]
struct TokenSpec {
    header: Vec<(String, Value)>,
    claims: Vec<(String, CV)>,
    signer: SignBy,
    /// pretty-printed JSON (insignificant whitespace)
    pretty: bool,
    /// payload text used instead of the claims object
    payload_raw: Option<String>,
}

#[derive(Debug, Clone, Copy, Serialize, Deserialize, PartialEq)]
enum BitSel {
    /// exact bit index (no-op when beyond the segment)
    At(u32),
    /// position as a fraction of the segment (random sub-check; monotone mapping)
    Frac(u16),
}

#[derive(Debug, Clone, Copy, Serialize, Deserialize, PartialEq)]
enum B64Kind {
    Pad,
    PadTwo,
    StdAlphabet,
    TrailingBits,
    LeadingSpace,
    TrailingSpace,
    InnerNewline,
    TrailingNewline,
}
const B64_KINDS: [B64Kind; 8] = [
    B64Kind::Pad,
    B64Kind::PadTwo,
    B64Kind::StdAlphabet,
    B64Kind::TrailingBits,
    B64Kind::LeadingSpace,
    B64Kind::TrailingSpace,
    B64Kind::InnerNewline,
    B64Kind::TrailingNewline,
];

#[derive(Debug, Clone, Copy, Serialize, Deserialize, PartialEq)]
enum Shape {
    DropSig,
    EmptySig,
    ExtraSegment,
    TrailingDot,
    LeadingDot,
    DoubleDot,
    SigTruncByte,
    SigExtraByte,
    OnlyPayload,
}
const SHAPES: [Shape; 9] = [
    Shape::DropSig,
    Shape::EmptySig,
    Shape::ExtraSegment,
    Shape::TrailingDot,
    Shape::LeadingDot,
    Shape::DoubleDot,
    Shape::SigTruncByte,
    Shape::SigExtraByte,
    Shape::OnlyPayload,
];

/// transformation of the finished (signed) token
#[derive(Debug, Clone, Serialize, Deserialize, PartialEq)]
enum Post {
    /// flip one bit of the decoded bytes of segment 0/1/2
    Flip { seg: u8, bit: BitSel },
    /// take the marked segments from another (valid) token
    Splice { other: Box<TokenSpec>, take: [bool; 3] },
    B64 { seg: u8, kind: B64Kind },
    Shape(Shape),
}

#[derive(Debug, Clone, Serialize, Deserialize, PartialEq)]
enum Mut {
    /// set (Some) or remove (None) a header parameter
    Header(String, Option<Value>),
    /// set (Some) or remove (None) a claim
    Claim(String, Option<CV>),
    Sign(SignBy),
    Pretty,
    Payload(String),
    Post(Post),
}

impl Mut {
    fn kind(&self) -> String {
        match self {
            Mut::Header(k, _) if ["alg", "typ", "kid"].contains(&k.as_str()) => format!("header-{k}"),
            Mut::Header(..) => "header-extra".into(),
            Mut::Claim(k, None) => format!("claim-remove-{k}"),
            Mut::Claim(k, Some(CV::T(_))) => format!("claim-retime-{k}"),
            Mut::Claim(k, Some(CV::J(_))) => format!("claim-set-{k}"),
            Mut::Sign(SignBy::Ed(_)) => "signer-key".into(),
            Mut::Sign(_) => "signer-alg-confusion".into(),
            Mut::Pretty => "json-whitespace".into(),
            Mut::Payload(_) => "payload-raw".into(),
            Mut::Post(Post::Flip { seg: 0, .. }) => "flip-header".into(),
            Mut::Post(Post::Flip { seg: 1, .. }) => "flip-payload".into(),
            Mut::Post(Post::Flip { .. }) => "flip-signature".into(),
            Mut::Post(Post::Splice { .. }) => "splice".into(),
            Mut::Post(Post::B64 { .. }) => "base64-variant".into(),
            Mut::Post(Post::Shape(_)) => "shape".into(),
        }
    }
}

#[derive(Debug, Clone, Serialize, Deserialize)]
struct Case {
    /// verifier configuration: false = static key only, true = static key + JWKS store
    jwks: bool,
    /// which base token (evidence only)
    base_name: String,
    base: TokenSpec,
    muts: Vec<Mut>,
    /// a raw string instead of a built token
    raw: Option<String>,
}

// ------------------------------------------------------------------------------------ rendering

fn set_kv<T: Clone>(v: &mut Vec<(String, T)>, k: &str, val: &Option<T>) {
    match val {
        Some(x) => match v.iter_mut().find(|e| e.0 == k) {
            Some(e) => e.1 = x.clone(),
            None => v.push((k.to_string(), x.clone())),
        },
        None => v.retain(|e| e.0 != k),
    }
}

fn sign(spec: &TokenSpec, now: u64) -> Vec<String> {
    let mut h = serde_json::Map::new();
    for (k, v) in &spec.header {
        h.insert(k.clone(), v.clone());
    }
    let mut c = serde_json::Map::new();
    for (k, v) in &spec.claims {
        let j = match v {
            CV::J(j) => j.clone(),
            CV::T(off) => json!((now as i64).saturating_add(*off).max(0) as u64),
        };
        c.insert(k.clone(), j);
    }
    let ser = |v: &Value| if spec.pretty { serde_json::to_string_pretty(v).unwrap() } else { serde_json::to_string(v).unwrap() };
    let hs = ser(&Value::Object(h));
    let ps = spec.payload_raw.clone().unwrap_or_else(|| ser(&Value::Object(c)));
    let h64 = b64url_encode(hs.as_bytes());
    let p64 = b64url_encode(ps.as_bytes());
    let msg = format!("{h64}.{p64}");
    let sig: Vec<u8> = match &spec.signer {
        SignBy::Ed(seed) => sk(*seed).sign(msg.as_bytes()).to_bytes().to_vec(),
        SignBy::HmacPub(seed) => hmac_sha256(&pk(*seed), msg.as_bytes()).to_vec(),
        SignBy::Empty => vec![],
    };
    vec![h64, p64, b64url_encode(&sig)]
}

fn apply_post(mut segs: Vec<String>, p: &Post, now: u64) -> Vec<String> {
    match p {
        Post::Flip { seg, bit } => {
            let i = *seg as usize;
            if let Some(s) = segs.get(i)
                && let Some(mut b) = b64url_decode(s.as_bytes(), false)
            {
                let nbits = b.len() * 8;
                let at = match bit {
                    BitSel::At(x) => *x as usize,
                    BitSel::Frac(f) => vcore::idx(*f, nbits),
                };
                if at < nbits {
                    b[at / 8] ^= 0x80 >> (at % 8);
                    segs[i] = b64url_encode(&b);
                }
            }
            segs
        }
        Post::Splice { other, take } => {
            let o = sign(other, now);
            for i in 0..3 {
                if take[i] && i < segs.len() {
                    segs[i] = o[i].clone();
                }
            }
            segs
        }
        Post::B64 { seg, kind } => {
            let i = *seg as usize;
            let Some(s) = segs.get(i).cloned() else { return segs };
            segs[i] = match kind {
                B64Kind::Pad => format!("{s}="),
                B64Kind::PadTwo => format!("{s}=="),
                B64Kind::StdAlphabet => s.replace('-', "+").replace('_', "/"),
                B64Kind::TrailingBits => {
                    // set the lowest unused bit of the last character
                    const A: &[u8; 64] = b"ABCDEFGHIJKLMNOPQRSTUVWXYZabcdefghijklmnopqrstuvwxyz0123456789-_";
                    let mut b = s.clone().into_bytes();
                    if s.len() % 4 >= 2
                        && let Some(last) = b.last_mut()
                        && let Some(v) = A.iter().position(|c| *c == *last)
                    {
                        *last = A[v | 1];
                    }
                    String::from_utf8(b).unwrap()
                }
                B64Kind::LeadingSpace => format!(" {s}"),
                B64Kind::TrailingSpace => format!("{s} "),
                B64Kind::InnerNewline => {
                    let mid = s.len() / 2;
                    format!("{}\n{}", &s[..mid], &s[mid..])
                }
                B64Kind::TrailingNewline => format!("{s}\n"),
            };
            segs
        }
        Post::Shape(sh) => {
            match sh {
                Shape::DropSig => {
                    segs.truncate(2);
                }
                Shape::EmptySig => {
                    if segs.len() == 3 {
                        segs[2].clear();
                    }
                }
                Shape::ExtraSegment => segs.push("AAAA".into()),
                Shape::TrailingDot => segs.push(String::new()),
                Shape::LeadingDot => segs.insert(0, String::new()),
                Shape::DoubleDot => segs.insert(1, String::new()),
                Shape::SigTruncByte | Shape::SigExtraByte => {
                    if let Some(s) = segs.get(2)
                        && let Some(mut b) = b64url_decode(s.as_bytes(), false)
                    {
                        if *sh == Shape::SigTruncByte {
                            b.pop();
                        } else {
                            b.push(0);
                        }
                        segs[2] = b64url_encode(&b);
                    }
                }
                Shape::OnlyPayload => {
                    if let Some(p) = segs.get(1).cloned() {
                        segs = vec![p];
                    }
                }
            }
            segs
        }
    }
}

fn render_spec(base: &TokenSpec, muts: &[Mut], now: u64) -> String {
    let mut spec = base.clone();
    let mut posts = vec![];
    for m in muts {
        match m {
            Mut::Header(k, v) => set_kv(&mut spec.header, k, v),
            Mut::Claim(k, v) => set_kv(&mut spec.claims, k, v),
            Mut::Sign(s) => spec.signer = s.clone(),
            Mut::Pretty => spec.pretty = true,
            Mut::Payload(p) => spec.payload_raw = Some(p.clone()),
            Mut::Post(p) => posts.push(p),
        }
    }
    let mut segs = sign(&spec, now);
    for p in posts {
        segs = apply_post(segs, p, now);
    }
    segs.join(".")
}

fn render(case: &Case, now: u64) -> String {
    match &case.raw {
        Some(r) => r.clone(),
        None => render_spec(&case.base, &case.muts, now),
    }
}

// ------------------------------------------------------------------------------------ bases

fn v0_pssid(id: &[u8; 16]) -> String {
    let h = vcore::hexs(id);
    format!("{}-{}-{}-{}-{}", &h[0..8], &h[8..12], &h[12..16], &h[16..20], &h[20..32])
}
fn v1_pssid(id: &[u8; 16]) -> String {
    let mut b = vec![0u8];
    b.extend_from_slice(id);
    b64url_encode(&b)
}

fn header(kid: Option<&str>) -> Vec<(String, Value)> {
    let mut h = vec![("typ".to_string(), json!("JWT")), ("alg".to_string(), json!("EdDSA"))];
    if let Some(k) = kid {
        h.push(("kid".into(), json!(k)));
    }
    h
}

fn base_v0(kid: Option<&str>, key: u8, jti: &str, id: &[u8; 16], exp: i64) -> TokenSpec {
    TokenSpec {
        header: header(kid),
        claims: vec![
            ("pssid".into(), CV::J(json!(v0_pssid(id)))),
            ("exp".into(), CV::T(exp)),
            ("jti".into(), CV::J(json!(jti))),
        ],
        signer: SignBy::Ed(key),
        pretty: false,
        payload_raw: None,
    }
}

fn base_v1(kid: Option<&str>, key: u8, jti: &str, id: &[u8; 16], exp: i64, nbf: i64, iat: i64) -> TokenSpec {
    TokenSpec {
        header: header(kid),
        claims: vec![
            ("ver".into(), CV::J(json!(1))),
            ("iss".into(), CV::J(json!("ssr"))),
            ("aud".into(), CV::J(json!("snap"))),
            ("exp".into(), CV::T(exp)),
            ("nbf".into(), CV::T(nbf)),
            ("iat".into(), CV::T(iat)),
            ("jti".into(), CV::J(json!(jti))),
            ("pssid".into(), CV::J(json!(v1_pssid(id)))),
        ],
        signer: SignBy::Ed(key),
        pretty: false,
        payload_raw: None,
    }
}

const ID_A: [u8; 16] = [0xef, 0x16, 0x64, 0x0f, 0x0f, 0xa9, 0x43, 0x60, 0xbe, 0x74, 0xdb, 0xee, 0xc7, 0xab, 0x4f, 0x9a];
const ID_B: [u8; 16] = [0x12, 0x3e, 0x45, 0x67, 0xe8, 0x9b, 0x12, 0xd3, 0xa4, 0x56, 0x42, 0x66, 0x14, 0x17, 0x40, 0x00];

/// the valid tokens all systematic mutations start from: (jwks config?, name, spec)
fn bases() -> Vec<(bool, &'static str, TokenSpec)> {
    vec![
        (false, "static/v0", base_v0(None, K_STATIC, "jti-v0", &ID_A, 3600)),
        (false, "static/v1", base_v1(None, K_STATIC, "jti-v1", &ID_A, 3600, -30, -30)),
        (false, "static/v1+kid", base_v1(Some("some-kid"), K_STATIC, "jti-v1k", &ID_A, 3600, -30, -30)),
        (true, "jwks/v0-nokid", base_v0(None, K_STATIC, "jti-v0", &ID_A, 3600)),
        (true, "jwks/v1-kidA", base_v1(Some(KID_A), K_A, "jti-v1a", &ID_A, 3600, -30, -30)),
        (true, "jwks/v1-kidB", base_v1(Some(KID_B), K_B, "jti-v1b", &ID_A, 3600, -30, -30)),
        (true, "jwks/v0-kidA", base_v0(Some(KID_A), K_A, "jti-v0a", &ID_A, 3600)),
    ]
}

/// the offsets of the design: now + {..}; -58 and +58 lie inside the leeway band
const TIME_OFFSETS: [i64; 10] = [-3600, -120, -62, -58, -1, 0, 58, 62, 120, 3600];

fn retype_values() -> Vec<Value> {
    vec![
        Value::Null,
        json!(true),
        json!("text"),
        json!(12345),
        json!("12345"),
        json!(["snap"]),
        json!({"a": 1}),
        json!(1.5),
        json!(-1),
        json!(""),
    ]
}

fn systematic_cases() -> Vec<Case> {
    let mut out: Vec<Case> = vec![];
    let all = bases();
    const LEN_NOW: u64 = 1_800_000_000; // only used to size the bit-flip enumerations (10-digit times)
    for (bi, (jwks, name, base)) in all.iter().enumerate() {
        let mut add = |muts: Vec<Mut>| {
            out.push(Case { jwks: *jwks, base_name: name.to_string(), base: base.clone(), muts, raw: None })
        };
        let is_v1 = base.claims.iter().any(|c| c.0 == "ver");
        add(vec![]); // the valid token itself
        // ---- header alg
        for a in ["EdDSA", "none", "None", "HS256", "HS384", "ES256", "RS256", "PS256", "eddsa", "Ed25519", ""] {
            add(vec![Mut::Header("alg".into(), Some(json!(a)))]);
        }
        add(vec![Mut::Header("alg".into(), None)]);
        add(vec![Mut::Header("alg".into(), Some(Value::Null))]);
        add(vec![Mut::Header("alg".into(), Some(json!(5)))]);
        add(vec![Mut::Header("alg".into(), Some(json!(["EdDSA"])))]);
        // classic attacks (two coordinated changes)
        add(vec![Mut::Header("alg".into(), Some(json!("none"))), Mut::Sign(SignBy::Empty)]);
        add(vec![Mut::Sign(SignBy::Empty)]);
        for k in [K_STATIC, K_A] {
            add(vec![Mut::Header("alg".into(), Some(json!("HS256"))), Mut::Sign(SignBy::HmacPub(k))]);
            add(vec![Mut::Sign(SignBy::HmacPub(k))]);
        }
        // ---- header typ
        for t in [json!("JWT"), json!("jwt"), json!("at+jwt"), json!(""), json!("JWS"), json!(7), Value::Null] {
            add(vec![Mut::Header("typ".into(), Some(t))]);
        }
        add(vec![Mut::Header("typ".into(), None)]);
        // ---- kid x signing key matrix
        for kid in [None, Some(KID_A), Some(KID_B), Some("nope"), Some("")] {
            for key in [K_STATIC, K_A, K_B, K_ROGUE] {
                add(vec![Mut::Header("kid".into(), kid.map(|k| json!(k))), Mut::Sign(SignBy::Ed(key))]);
            }
        }
        add(vec![Mut::Header("kid".into(), Some(Value::Null))]);
        add(vec![Mut::Header("kid".into(), Some(json!(1)))]);
        // ---- unknown header parameters
        add(vec![Mut::Header("x-ext".into(), Some(json!("v")))]);
        add(vec![Mut::Header("cty".into(), Some(json!("JWT")))]);
        add(vec![Mut::Header("x-ext".into(), Some(json!(1)))]);
        // ---- every claim removed / retyped
        let names: Vec<String> = base.claims.iter().map(|c| c.0.clone()).collect();
        for n in &names {
            add(vec![Mut::Claim(n.clone(), None)]);
            for v in retype_values() {
                add(vec![Mut::Claim(n.clone(), Some(CV::J(v)))]);
            }
        }
        // ---- claims of the other version / registered claims added
        for n in ["ver", "iss", "aud", "nbf", "iat", "sub", "foo"] {
            if names.iter().any(|x| x == n) {
                continue;
            }
            for v in retype_values() {
                add(vec![Mut::Claim(n.into(), Some(CV::J(v)))]);
            }
        }
        // ---- times
        for n in ["exp", "nbf", "iat"] {
            for off in TIME_OFFSETS {
                add(vec![Mut::Claim(n.into(), Some(CV::T(off)))]);
            }
            for abs in [0u64, 1, (1 << 53) + 1, i64::MAX as u64, (i64::MAX as u64) + 1, u64::MAX] {
                add(vec![Mut::Claim(n.into(), Some(CV::J(json!(abs))))]);
            }
            add(vec![Mut::Claim(n.into(), Some(CV::J(json!(4.0e9))))]);
        }
        // exp and nbf retimed together (window entirely in the past / future / inverted)
        for (e, n) in [(-3600, -7200), (7200, 3600), (-62, -120), (3600, 62), (62, 3600)] {
            add(vec![Mut::Claim("exp".into(), Some(CV::T(e))), Mut::Claim("nbf".into(), Some(CV::T(n)))]);
        }
        // ---- audience
        for a in [
            json!("snap"),
            json!("other"),
            json!(["snap", "x"]),
            json!(["x", "snap"]),
            json!(["x"]),
            json!(["snap"]),
            json!([]),
            json!("SNAP"),
            json!("snap "),
            json!(""),
            json!(["x", 1]),
        ] {
            add(vec![Mut::Claim("aud".into(), Some(CV::J(a)))]);
        }
        add(vec![Mut::Claim("aud".into(), None)]);
        // ---- version
        for v in [json!(0), json!(1), json!(2), json!("1"), json!(1.0), json!(true), Value::Null, json!(-1), json!(u64::MAX), json!([1])] {
            add(vec![Mut::Claim("ver".into(), Some(CV::J(v)))]);
        }
        add(vec![Mut::Claim("ver".into(), None)]);
        // ---- pssid
        let mut ps = vec![
            json!(v0_pssid(&ID_B)),
            json!(v0_pssid(&ID_B).to_uppercase()),
            json!(vcore::hexs(&ID_B)),
            json!(format!("{{{}}}", v0_pssid(&ID_B))),
            json!(format!("urn:uuid:{}", v0_pssid(&ID_B))),
            json!(v1_pssid(&ID_B)),
            json!(&v0_pssid(&ID_B)[1..]),
            json!(format!("{}0", v0_pssid(&ID_B))),
            json!(v0_pssid(&ID_B).replace('-', "_")),
            json!(v0_pssid(&ID_B).replacen('1', "g", 1)),
        ];
        // v1 shapes: wrong version byte, 16 / 18 bytes, non-canonical trailing bits, padded
        let mut b17 = vec![1u8];
        b17.extend_from_slice(&ID_B);
        ps.push(json!(b64url_encode(&b17)));
        ps.push(json!(b64url_encode(&ID_B)));
        let mut b18 = vec![0u8];
        b18.extend_from_slice(&ID_B);
        b18.push(0);
        ps.push(json!(b64url_encode(&b18)));
        let p = v1_pssid(&ID_B);
        ps.push(json!(format!("{}B", &p[..p.len() - 1]))); // 'A' -> 'B': trailing bit set
        ps.push(json!(format!("{p}=")));
        ps.push(json!(p.replace('-', "+").replace('_', "/")));
        for v in ps {
            add(vec![Mut::Claim("pssid".into(), Some(CV::J(v)))]);
        }
        // ---- jti / private claims / JSON spelling
        for v in [json!(""), json!("x".repeat(300)), json!("jt\u{ed}-\u{2713}"), json!("a\"b\\c")] {
            add(vec![Mut::Claim("jti".into(), Some(CV::J(v)))]);
        }
        add(vec![Mut::Claim("aa_acc_subject_id".into(), Some(CV::J(json!("subj"))))]);
        add(vec![Mut::Claim("aa_acc_allowed_dst".into(), Some(CV::J(json!({"a": [1, 2, {"b": null}]}))))]);
        add(vec![Mut::Pretty]);
        for p in ["", "null", "[]", "\"x\"", "{}", "{", "not json", "{\"exp\":1}x"] {
            add(vec![Mut::Payload(p.into())]);
        }
        // ---- base64 variants and shapes
        for seg in 0..3u8 {
            for kind in B64_KINDS {
                add(vec![Mut::Post(Post::B64 { seg, kind })]);
            }
        }
        for sh in SHAPES {
            add(vec![Mut::Post(Post::Shape(sh))]);
        }
        // ---- splicing segments between two valid tokens
        let alt_same_header = {
            let mut s = base.clone();
            set_kv(&mut s.claims, "jti", &Some(CV::J(json!("other-jti"))));
            set_kv(&mut s.claims, "exp", &Some(CV::T(7200)));
            s
        };
        let mut partners = vec![alt_same_header];
        for (oj, (j2, _, b2)) in all.iter().enumerate() {
            if oj != bi && j2 == jwks {
                partners.push(b2.clone());
            }
        }
        for p in partners {
            for m in 1..7u8 {
                let take = [m & 1 != 0, m & 2 != 0, m & 4 != 0];
                add(vec![Mut::Post(Post::Splice { other: Box::new(p.clone()), take })]);
            }
        }
        // ---- exhaustive bit flips (on one v0 and one v1 base per configuration)
        if ["static/v0", "static/v1", "jwks/v1-kidA", "jwks/v0-nokid"].contains(name) {
            let segs = sign(base, LEN_NOW);
            for seg in 0..3u8 {
                let nbits = b64url_decode(segs[seg as usize].as_bytes(), false).unwrap().len() * 8;
                for bit in 0..nbits as u32 {
                    add(vec![Mut::Post(Post::Flip { seg, bit: BitSel::At(bit) })]);
                }
            }
        }
        let _ = is_v1;
    }
    out
}

// ------------------------------------------------------------------------------------ SUT environment

struct NoUnderlays;
impl UnderlayDiscovery for NoUnderlays {
    fn list_snap_underlays(&self) -> Vec<SnapUnderlay> {
        vec![]
    }
    fn list_udp_underlays(&self) -> Vec<UdpUnderlay> {
        vec![]
    }
}
struct NoSegments;
#[async_trait::async_trait]
impl SegmentsDiscovery for NoSegments {
    async fn list_segments(&self, _s: IsdAsn, _d: IsdAsn, _n: i32, _t: String) -> Result<SegmentsPage, SegmentsError> {
        Err(SegmentsError::InternalError("not part of this check".into()))
    }
}
struct NoResolver;
impl SnapDataPlaneResolver for NoResolver {
    fn get_data_plane_address(&self, _ip: std::net::IpAddr) -> Result<SnapDataPlane, (StatusCode, anyhow::Error)> {
        Err((StatusCode::NOT_FOUND, anyhow::anyhow!("not part of this check")))
    }
}

#[derive(Clone, Debug)]
struct Registration {
    key: String,
    jti: String,
    lifetime: Duration,
}

/// records what the handler grants, then delegates to the production registry
struct RecRegistry {
    inner: IdentityRegistry,
    calls: Mutex<Vec<Registration>>,
}
impl SnapTunIdentityRegistry for RecRegistry {
    fn register(
        &self,
        now: Instant,
        key: &str,
        initiator_identity: [u8; 32],
        _psk: Option<[u8; 32]>,
        lifetime: Duration,
        claims: &AnyClaims,
    ) -> anyhow::Result<bool> {
        self.calls.lock().unwrap().push(Registration { key: key.to_string(), jti: claims.jti(), lifetime });
        Ok(self.inner.register(now, key, initiator_identity, lifetime))
    }
    fn remove_expired(&self, now: Instant) {
        self.inner.remove_expired(now)
    }
}

fn rt() -> &'static tokio::runtime::Runtime {
    static RT: OnceLock<tokio::runtime::Runtime> = OnceLock::new();
    RT.get_or_init(|| {
        tokio::runtime::Builder::new_multi_thread().worker_threads(4).enable_all().build().expect("tokio runtime")
    })
}

/// A JWKS key store fed from an in-process HTTP endpoint on the loopback interface (the store has
/// no other way in). `None` when the loopback endpoint cannot be set up / reached.
fn jwks_store() -> Option<Arc<JwksKeyStore>> {
    static STORE: OnceLock<Option<Arc<JwksKeyStore>>> = OnceLock::new();
    STORE
        .get_or_init(|| {
            if std::env::var("C10_NO_JWKS").is_ok() {
                return None;
            }
            // what the production binaries do at start-up (reqwest is built without a default provider)
            scion_sdk_utils::rustls::select_ring_crypto_provider();
            rt().block_on(async {
                let listener = tokio::net::TcpListener::bind("127.0.0.1:0").await.ok()?;
                let addr = listener.local_addr().ok()?;
                let jwk = |kid: &str, seed: u8| json!({"kid": kid, "kty": "OKP", "use": "sig", "alg": "EdDSA", "crv": "Ed25519", "x": b64url_encode(&pk(seed))});
                let doc = json!({"keys": [jwk(KID_A, K_A), jwk(KID_B, K_B)]});
                let app = Router::new().route(
                    "/.well-known/jwks.json",
                    get(move || {
                        let d = doc.clone();
                        async move { Json(d) }
                    }),
                );
                tokio::spawn(async move {
                    let _ = axum::serve(listener, app).await;
                });
                let url = format!("http://{addr}/.well-known/jwks.json").parse().ok()?;
                let store = JwksKeyStore::new(url, Duration::from_secs(86_400 * 365), tokio_util::sync::CancellationToken::new());
                let a = tokio::time::timeout(Duration::from_secs(10), store.await_key(KID_A)).await.ok().flatten();
                let b = tokio::time::timeout(Duration::from_secs(10), store.await_key(KID_B)).await.ok().flatten();
                (a.is_some() && b.is_some()).then(|| Arc::new(store))
            })
        })
        .clone()
}

struct Env {
    verifier: SnapTokenVerifier,
    router: Router,
    reg: Arc<RecRegistry>,
    cfg: RefConfig,
}

fn make_env(jwks: bool) -> Option<Env> {
    // the static key, configured the way operators do (public key bytes out of a PEM / DER file)
    let mut verifier = SnapTokenVerifier::new(DecodingKey::from_ed_der(&pk(K_STATIC)));
    let mut set = None;
    if jwks {
        verifier = verifier.with_jwks_store(jwks_store()?);
        let mut m = BTreeMap::new();
        m.insert(KID_A.to_string(), pk(K_A));
        m.insert(KID_B.to_string(), pk(K_B));
        set = Some(m);
    }
    let reg = Arc::new(RecRegistry { inner: IdentityRegistry::new(), calls: Mutex::new(vec![]) });
    let router = build_router(
        NoUnderlays,
        "http://127.0.0.1:1/".parse().unwrap(),
        NoSegments,
        NoResolver,
        reg.clone(),
        None,
        verifier.clone(),
        Metrics::new(&MetricsRegistry::new()),
    )
    .expect("build_router");
    Some(Env { verifier, router, reg, cfg: RefConfig { static_key: pk(K_STATIC), jwks: set, leeway: LEEWAY, guard: GUARD } })
}

thread_local! {
    static ENVS: RefCell<[Option<Option<Env>>; 2]> = const { RefCell::new([None, None]) };
}

fn with_env<R>(jwks: bool, f: impl FnOnce(Option<&Env>) -> R) -> R {
    ENVS.with(|e| {
        let mut e = e.borrow_mut();
        let slot = &mut e[jwks as usize];
        if slot.is_none() {
            *slot = Some(make_env(jwks));
        }
        f(slot.as_ref().unwrap().as_ref())
    })
}

fn unix_now() -> u64 {
    SystemTime::now().duration_since(UNIX_EPOCH).unwrap().as_secs()
}

const REGISTER_URI: &str = "/anapaya.snap.v1.SnapControl/RegisterSnapTunIdentity";
const INITIATOR: [u8; 32] = [7u8; 32];

/// RegisterSnapTunIdentityRequest { initiator_static_x25519 = INITIATOR, psk_share = 0^32 } in protobuf
fn register_body() -> Vec<u8> {
    let mut b = vec![0x0a, 32];
    b.extend_from_slice(&INITIATOR);
    b.extend_from_slice(&[0x12, 32]);
    b.extend_from_slice(&[0u8; 32]);
    b
}

struct RouterOutcome {
    status: StatusCode,
    regs: Vec<Registration>,
    /// wall clock right before the request was handed to the router
    t_before: SystemTime,
}

/// `None`: the string cannot be carried in an HTTP header value.
fn call_router(env: &Env, auth: Option<&str>) -> Result<Option<RouterOutcome>, Fail> {
    let mut rb = Request::builder().method("POST").uri(REGISTER_URI).header("content-type", "application/proto");
    if let Some(a) = auth {
        let Ok(hv) = HeaderValue::from_str(a) else { return Ok(None) };
        rb = rb.header("authorization", hv);
    }
    let req = rb
        .extension(ConnectInfo(SocketAddr::from(([192, 0, 2, 7], 40000))))
        .body(Body::from(register_body()))
        .expect("request");
    env.reg.calls.lock().unwrap().clear();
    let t_before = SystemTime::now();
    let resp = no_panic("router", || rt().block_on(env.router.clone().oneshot(req)))
        .map_err(|f| {
            // the one known panic keeps the plain signature; any other panic gets its own
            if f.msg.contains("overflow when adding duration to instant") {
                Fail::new("request-handling-panics", f.msg)
            } else {
                Fail::new(format!("request-handling-panics:{}", f.sig), f.msg)
            }
        })?;
    let status = match resp {
        Ok(r) => r.status(),
        Err(e) => match e {},
    };
    let regs = std::mem::take(&mut *env.reg.calls.lock().unwrap());
    Ok(Some(RouterOutcome { status, regs, t_before }))
}

// ------------------------------------------------------------------------------------ the check

fn exp_of(token: &str) -> Option<u64> {
    let p = token.split('.').nth(1)?;
    let b = b64url_decode(p.as_bytes(), false)?;
    let v: Value = serde_json::from_slice(&b).ok()?;
    v.get("exp")?.as_u64()
}

fn check(case: &Case, obs: &mut Obs) -> CheckResult {
    let r = check_inner(case, obs);
    if let Err(f) = &r
        && std::env::var("C10_DEBUG_FAILS").is_ok()
    {
        eprintln!("FAIL {} | {} {:?} | {}", f.sig, case.base_name, case.muts, f.msg.chars().take(200).collect::<String>());
    }
    r
}

fn check_inner(case: &Case, obs: &mut Obs) -> CheckResult {
    with_env(case.jwks, |env| {
        let Some(env) = env else {
            obs.label("skipped:jwks-store-unavailable");
            return Ok(());
        };
        obs.label(if case.jwks { "cfg:static+jwks" } else { "cfg:static-only" });
        let t0 = unix_now();
        let token = render(case, t0);

        // classify
        let kinds: Vec<String> = case.muts.iter().map(|m| m.kind()).collect();
        if case.raw.is_some() {
            obs.label("mut:raw-string");
        } else if kinds.is_empty() {
            obs.label("mut:none(valid token)");
        } else {
            for k in &kinds {
                obs.label(format!("mut:{k}"));
            }
        }
        let one_away = case.raw.is_none() && case.muts.len() == 1 && token != render_spec(&case.base, &[], t0);
        if one_away {
            obs.label("one-mutation-from-valid");
            obs.nontrivial(&serde_json::to_string(&(case.jwks, &case.base, &case.muts)).unwrap());
        }

        // ---- implementation: the verifier
        let sut = no_panic("SnapTokenVerifier::verify", || rt().block_on(env.verifier.verify(&token)))?;
        let sut_ok = sut.is_ok();
        // ---- implementation: middleware + registration handler
        let routed = call_router(env, Some(&format!("Bearer {token}")))?;
        let t1 = unix_now();

        // ---- reference
        let v = reftok::verdict(token.as_bytes(), &env.cfg, t0, t1);
        obs.label(v.class());
        obs.label(if sut_ok { "sut:accept" } else { "sut:reject" });
        let shown: String = token.chars().take(400).collect();
        match &v {
            Verdict::Accept => {
                ensure!(
                    sut_ok,
                    "rejects-valid-token",
                    "reference accepts, SnapTokenVerifier::verify refuses ({}) token={shown}",
                    sut.as_ref().err().map(|e| e.to_string()).unwrap_or_default()
                );
            }
            Verdict::Reject(why) => {
                ensure!(
                    !sut_ok,
                    why[0].accept_sig(),
                    "SnapTokenVerifier::verify accepts a token the statement refuses ({why:?}); muts={:?} token={shown}",
                    case.muts
                );
            }
            Verdict::Either(_) => {}
        }
        // ---- middleware agrees with the statement, registration lifetime is bounded
        match routed {
            None => obs.label("router:skipped(not a header value)"),
            Some(out) => {
                obs.evals(1);
                let unauth = out.status == StatusCode::UNAUTHORIZED;
                obs.label(format!("router:{}", out.status.as_u16()));
                ensure!(
                    unauth != sut_ok,
                    "middleware-disagrees-with-verifier",
                    "verify ok={sut_ok} but the router answered {} token={shown}",
                    out.status
                );
                match &v {
                    Verdict::Accept => ensure!(!unauth, "middleware-rejects-valid-token", "401 for a valid token {shown}"),
                    Verdict::Reject(why) => ensure!(
                        unauth,
                        format!("middleware:{}", why[0].accept_sig()),
                        "router answered {} for a token the statement refuses ({why:?}) token={shown}",
                        out.status
                    ),
                    Verdict::Either(_) => {}
                }
                ensure!(out.regs.len() <= 1, "registers-more-than-once", "{} registrations for one request", out.regs.len());
                if let Some(r) = out.regs.first() {
                    ensure!(
                        !matches!(v, Verdict::Reject(_)),
                        "registers-identity-for-refused-token",
                        "identity registered (lifetime {:?}) for a token the statement refuses: {v:?} token={shown}",
                        r.lifetime
                    );
                    ensure!(out.status == StatusCode::OK, "registration-without-ok", "registered but status {}", out.status);
                    let exp = exp_of(&token);
                    ensure!(exp.is_some(), "registers-without-exp", "registration for a token without readable exp {shown}");
                    let exp = Duration::from_secs(exp.unwrap());
                    let before = out.t_before.duration_since(UNIX_EPOCH).unwrap();
                    // remaining lifetime of the token when the request was handed over
                    let remaining = exp.checked_sub(before);
                    ensure!(
                        remaining.is_some_and(|rem| r.lifetime <= rem),
                        "lifetime-exceeds-token-remaining",
                        "granted lifetime {:?} > remaining lifetime {:?} (exp {:?}, request at {:?})",
                        r.lifetime,
                        remaining,
                        exp,
                        before
                    );
                    ensure!(r.key == r.jti, "registration-key-not-jti", "registered under {:?}, token jti {:?}", r.key, r.jti);
                    obs.label("registered");
                } else {
                    ensure!(out.status != StatusCode::OK, "ok-without-registration", "200 but the registry was not called");
                    // a valid token with remaining lifetime and a well-formed request is served
                    if v == Verdict::Accept
                        && let Some(exp) = exp_of(&token)
                        && exp > t1 + GUARD
                    {
                        return Err(Fail::new(
                            "valid-token-request-not-served",
                            format!("status {} and no registration for a valid token with exp in the future {shown}", out.status),
                        ));
                    }
                    if !unauth {
                        obs.label("accepted-but-no-remaining-lifetime");
                    }
                }
            }
        }
        Ok(())
    })
}

// ------------------------------------------------------------------------------------ middleware header shapes

#[derive(Debug, Clone, Serialize, Deserialize)]
struct HeaderCase {
    /// the Authorization header value with `{}` standing for a valid token; None = no header
    template: Option<String>,
    expect_unauthorized: Option<bool>,
}

fn header_cases() -> Vec<HeaderCase> {
    let c = |t: Option<&str>, e: Option<bool>| HeaderCase { template: t.map(|s| s.to_string()), expect_unauthorized: e };
    vec![
        c(None, Some(true)),
        c(Some("Bearer {}"), Some(false)),
        c(Some("{}"), Some(true)),
        c(Some("Basic {}"), Some(true)),
        c(Some("Bearer"), Some(true)),
        c(Some("Bearer "), Some(true)),
        c(Some(""), Some(true)),
        c(Some("Bearer {} x"), Some(true)),
        c(Some("Bearer {}, Bearer {}"), Some(true)),
        c(Some("Bearer x {}"), Some(true)),
        // RFC 7235: the scheme is case-insensitive; one or more spaces: statement silent
        c(Some("bearer {}"), None),
        c(Some("BEARER {}"), None),
        c(Some("Bearer  {}"), None),
    ]
}

fn check_header(case: &HeaderCase, obs: &mut Obs) -> CheckResult {
    with_env(false, |env| {
        let env = env.unwrap();
        let t0 = unix_now();
        let valid = render_spec(&bases()[1].2, &[], t0);
        let auth = case.template.as_ref().map(|t| t.replace("{}", &valid));
        let Some(out) = call_router(env, auth.as_deref())? else { return Ok(()) };
        let unauth = out.status == StatusCode::UNAUTHORIZED;
        obs.label(format!("authorization-header:{}", if unauth { "401" } else { "passed" }));
        if let Some(e) = case.expect_unauthorized {
            ensure!(
                unauth == e,
                if e { "middleware-passes-request-without-bearer-token" } else { "middleware-rejects-valid-token" },
                "Authorization template {:?}: status {}",
                case.template,
                out.status
            );
        }
        ensure!(unauth == out.regs.is_empty(), "registration-disagrees-with-status", "status {} regs {}", out.status, out.regs.len());
        Ok(())
    })
}

// ------------------------------------------------------------------------------------ random generators

/// offsets at least GUARD away from ±LEEWAY: bands (-inf,-62] [-58,58] [62,inf)
fn time_off() -> impl Strategy<Value = i64> {
    prop_oneof![
        3 => -1_000_000i64..=-62,
        3 => -58i64..=58,
        3 => 62i64..=1_000_000,
        1 => select(TIME_OFFSETS.to_vec()),
        1 => Just(-1_700_000_000i64),
    ]
}

fn scalar() -> impl Strategy<Value = Value> {
    prop_oneof![
        Just(Value::Null),
        any::<bool>().prop_map(Value::Bool),
        (0u64..4).prop_map(|n| json!(n)),
        any::<u64>().prop_map(|n| json!(n)),
        (-5i64..0).prop_map(|n| json!(n)),
        Just(json!(1.5)),
        Just(json!("snap")),
        Just(json!("ssr")),
        "[a-z0-9-]{0,10}".prop_map(Value::String),
        Just(json!(["snap", "x"])),
        Just(json!(["y"])),
        Just(json!({"a": 1})),
    ]
}

const CLAIM_NAMES: [&str; 11] = ["ver", "iss", "aud", "exp", "nbf", "iat", "jti", "pssid", "sub", "foo", "aa_acc_subject_id"];

fn random_base() -> impl Strategy<Value = (bool, String, TokenSpec)> {
    (
        any::<bool>(),
        any::<bool>(),
        "[A-Za-z0-9_-]{0,20}",
        any::<[u8; 16]>(),
        62i64..1_000_000,
        -1_000_000i64..=58,
        -100_000i64..100_000,
        0u8..4,
        0u8..4,
    )
        .prop_map(|(jwks, v1, jti, id, exp, nbf, iat, kidsel, extra)| {
            let (kid, key): (Option<&str>, u8) = match (jwks, kidsel) {
                (false, 0 | 1) => (None, K_STATIC),
                (false, 2) => (Some("some-kid"), K_STATIC),
                (false, _) => (Some(KID_A), K_STATIC),
                (true, 0) => (None, K_STATIC),
                (true, 1 | 2) => (Some(KID_A), K_A),
                (true, _) => (Some(KID_B), K_B),
            };
            let mut spec = if v1 { base_v1(kid, key, &jti, &id, exp, nbf, iat) } else { base_v0(kid, key, &jti, &id, exp) };
            match (v1, extra) {
                (false, 1) => spec.claims.push(("aud".into(), CV::J(json!("snap")))),
                (false, 2) => spec.claims.push(("nbf".into(), CV::T(nbf))),
                (false, 3) => {
                    spec.claims.push(("aud".into(), CV::J(json!(["snap", "y"]))));
                    spec.claims.push(("iss".into(), CV::J(json!("someone"))));
                    spec.claims.push(("iat".into(), CV::T(iat)));
                }
                (true, 1) => spec.claims.push(("aa_acc_subject_id".into(), CV::J(json!("subj")))),
                (true, 2) => {
                    spec.claims.push(("aa_acc_allowed_dst".into(), CV::J(json!(["1-ff00:0:110"]))));
                    spec.claims.push(("sub".into(), CV::J(json!("s"))));
                }
                _ => {}
            }
            let name = format!("random/{}{}", if jwks { "jwks/" } else { "static/" }, if v1 { "v1" } else { "v0" });
            (jwks, name, spec)
        })
}

fn random_mut() -> impl Strategy<Value = Mut> {
    let algs = vec![json!("none"), json!("HS256"), json!("ES256"), json!("RS256"), json!("EdDSA"), json!("ES384"), json!("PS512"), Value::Null];
    let kids = vec![None, Some(json!(KID_A)), Some(json!(KID_B)), Some(json!("nope")), Some(json!("some-kid"))];
    let signers = vec![SignBy::Ed(K_STATIC), SignBy::Ed(K_A), SignBy::Ed(K_B), SignBy::Ed(K_ROGUE), SignBy::Empty, SignBy::HmacPub(K_STATIC)];
    let auds = vec![json!("snap"), json!("other"), json!(["snap", "x"]), json!(["x"]), json!(["x", "y", "snap"])];
    let vers = vec![json!(0), json!(1), json!(2), json!("1"), json!(3)];
    prop_oneof![
        3 => select(algs).prop_map(|a| Mut::Header("alg".into(), Some(a))),
        1 => Just(Mut::Header("alg".into(), None)),
        1 => prop_oneof![Just(None), "[a-zA-Z+]{0,6}".prop_map(|s| Some(json!(s)))].prop_map(|t| Mut::Header("typ".into(), t)),
        3 => select(kids).prop_map(|k| Mut::Header("kid".into(), k)),
        3 => select(signers).prop_map(Mut::Sign),
        1 => "[a-z]{1,5}".prop_map(|v| Mut::Header("x-ext".into(), Some(json!(v)))),
        4 => (select(CLAIM_NAMES.to_vec()), proptest::option::of(scalar())).prop_map(|(n, v)| Mut::Claim(n.into(), v.map(CV::J))),
        6 => (select(vec!["exp", "nbf", "exp", "nbf", "iat"]), time_off()).prop_map(|(n, o)| Mut::Claim(n.into(), Some(CV::T(o)))),
        2 => select(auds).prop_map(|a| Mut::Claim("aud".into(), Some(CV::J(a)))),
        2 => select(vers).prop_map(|a| Mut::Claim("ver".into(), Some(CV::J(a)))),
        1 => any::<[u8; 16]>().prop_map(|id| Mut::Claim("pssid".into(), Some(CV::J(json!(v0_pssid(&id)))))),
        1 => any::<[u8; 16]>().prop_map(|id| Mut::Claim("pssid".into(), Some(CV::J(json!(v1_pssid(&id)))))),
        1 => proptest::collection::vec(any::<u8>(), 0..24).prop_map(|b| Mut::Claim("pssid".into(), Some(CV::J(json!(b64url_encode(&b)))))),
        4 => (0u8..3, any::<u16>()).prop_map(|(seg, f)| Mut::Post(Post::Flip { seg, bit: BitSel::Frac(f) })),
        2 => (0u8..3, select(B64_KINDS.to_vec())).prop_map(|(seg, kind)| Mut::Post(Post::B64 { seg, kind })),
        1 => select(SHAPES.to_vec()).prop_map(|s| Mut::Post(Post::Shape(s))),
        3 => (random_base(), 1u8..7).prop_map(|((_, _, o), m)| Mut::Post(Post::Splice { other: Box::new(o), take: [m & 1 != 0, m & 2 != 0, m & 4 != 0] })),
        1 => Just(Mut::Pretty),
        1 => "[ -~]{0,30}".prop_map(Mut::Payload),
    ]
}

fn random_case() -> impl Strategy<Value = Case> {
    (random_base(), prop_oneof![1 => Just(0usize), 6 => Just(1usize), 2 => Just(2usize), 1 => Just(3usize)])
        .prop_flat_map(|((jwks, name, base), k)| {
            proptest::collection::vec(random_mut(), k).prop_map(move |muts| Case { jwks, base_name: name.clone(), base: base.clone(), muts, raw: None })
        })
}

fn random_string_case() -> impl Strategy<Value = Case> {
    let seg = || "[A-Za-z0-9_-]{0,60}";
    let raw = prop_oneof![
        2 => "[ -~]{0,120}".prop_map(|s| s),
        2 => (seg(), seg(), seg()).prop_map(|(a, b, c)| format!("{a}.{b}.{c}")),
        2 => (proptest::collection::vec(any::<u8>(), 0..80), proptest::collection::vec(any::<u8>(), 64..=64)).prop_map(|(p, s)| {
            format!("{}.{}.{}", b64url_encode(br#"{"typ":"JWT","alg":"EdDSA"}"#), b64url_encode(&p), b64url_encode(&s))
        }),
        1 => "\\PC{0,40}".prop_map(|s| s),
        1 => proptest::collection::vec(seg(), 0..6).prop_map(|v| v.join(".")),
    ];
    (any::<bool>(), raw).prop_map(|(jwks, r)| Case {
        jwks,
        base_name: "raw".into(),
        base: base_v0(None, K_STATIC, "", &ID_A, 3600),
        muts: vec![],
        raw: Some(r),
    })
}

// ------------------------------------------------------------------------------------ driver

fn run_systematic(ctx: &Ctx) {
    let cases = systematic_cases();
    ctx.extra("systematic_cases", json!(cases.len()));
    ctx.run_enum("single-mutations", cases.len() as u64, true, |i| Some(cases[i as usize].clone()), check);
}
fn run_random(ctx: &Ctx) {
    ctx.run_prop("random-mutations", ctx.tier.pick(100_000, 3_000_000), random_case, check);
}
fn run_strings(ctx: &Ctx) {
    ctx.run_prop("random-strings", ctx.tier.pick(20_000, 500_000), random_string_case, check);
}
fn run_headers(ctx: &Ctx) {
    ctx.run_list("authorization-header", &header_cases(), |c, o| check_header(c, o));
}

fn post(ctx: &Ctx) {
    if jwks_store().is_none() {
        ctx.assume("JWKS store could not be fed over the loopback interface in this environment: the static+JWKS configuration was skipped");
    } else {
        ctx.require_label("cfg:static+jwks", 1000);
    }
    ctx.extra("leeway_s", json!(LEEWAY));
    ctx.extra("guard_s", json!(GUARD));
    for l in [
        "cfg:static-only",
        "one-mutation-from-valid",
        "ref:accept",
        "ref:reject:Signature",
        "ref:reject:Alg",
        "ref:reject:Claims",
        "ref:reject:Version",
        "ref:reject:Audience",
        "ref:reject:Expired",
        "ref:reject:Format",
        "registered",
        "mut:flip-signature",
        "mut:splice",
        "mut:base64-variant",
    ] {
        ctx.require_label(l, 50);
    }
}

fn main() {
    let subs = [
        Sub { name: "single-mutations", run: run_systematic, replay: |c, v| c.replay_case::<Case>("single-mutations", v, check) },
        Sub { name: "random-mutations", run: run_random, replay: |c, v| c.replay_case::<Case>("random-mutations", v, check) },
        Sub { name: "random-strings", run: run_strings, replay: |c, v| c.replay_case::<Case>("random-strings", v, check) },
        Sub { name: "authorization-header", run: run_headers, replay: |c, v| c.replay_case::<HeaderCase>("authorization-header", v, check_header) },
    ];
    vcore::main(
        "C10",
        "case = (verifier configuration: static key | static key + JWKS store fed from an in-process loopback endpoint; a valid v0 or v1 token built and Ed25519-signed by the harness; a list of mutations) or a raw string. single-mutations: EXHAUSTIVE list around 7 valid base tokens: header alg (11 names, missing, null, number, array, alg=none with empty signature, HS256 keyed with the public key), typ, kid x signing-key matrix (5 kids x 4 keys), unknown header parameters; every claim removed and retyped to 10 JSON values; claims of the other version added; exp/nbf/iat at now+{-3600,-120,-62,-58,-1,0,+58,+62,+120,+3600} and at 0,1,2^53+1,2^63-1,2^63,2^64-1, float; exp+nbf together; aud in {snap,other,[snap,x],[x,snap],[x],[snap],[],SNAP,'snap ','',[x,1],missing}; ver in {0,1,2,'1',1.0,true,null,-1,2^64-1,[1],missing}; 16 pssid spellings; jti/private claims/pretty JSON/non-object payloads; 8 base64 variants x 3 segments; 9 segment-shape changes; all splices of segments with 3-5 other valid tokens; every single bit of header, payload and all 512 signature bits flipped (4 bases). random-mutations: random valid token (version, kid/key, jti, pssid, times, optional claims) with 0-3 random mutations of the same families; random-strings: printable/unicode strings, random base64 triples, valid header + random bytes + random 64-byte signature. Every token is shown to SnapTokenVerifier::verify AND posted as 'Authorization: Bearer' to RegisterSnapTunIdentity on the router of build_router (oneshot). Oracle: reference predicate over the token STRING (3 strict base64url-nopad segments; header alg == EdDSA; key = static key, or the JWKS key of the kid when a store is configured and a kid is present; Ed25519 verification by ed25519-dalek over the ASCII 'h.p'; claims of the version: v0 = pssid(UUID) exp(u64) jti(string), v1 = ver==1 iss aud exp nbf iat jti pssid(base64url of 0x00||16 bytes), ver absent = v0, anything else refused; aud absent or names 'snap'; exp >= now-60; nbf <= now+60 when present): verify Ok <=> reference accepts; router 401 <=> reference refuses; an identity is registered only for a token the reference accepts, at most once, under the token's jti, with lifetime <= exp - (wall clock before the request); a valid token with exp in the future is served (200 + registration). Verdicts left open (never flagged): other base64 spellings of an acceptable token, non-string optional header parameters, ill-typed claims outside the version's documented structure, v1 aud as array containing snap, non-hyphenated UUID forms, times within 2 s of now±60. Non-trivial = exactly one mutation and the token string differs from the valid base token.",
        &[
            "the verifier and the registration handler read the wall clock themselves (jsonwebtoken::get_current_timestamp, SystemTime::now): the harness reads it before building and after judging each token and only generates times at least 2 s away from now-60 / now+60; a token whose verdict would differ between the two readings is not judged",
            "leeway = 60 s: build_validation() uses Validation::new and does not change `leeway` (documented default 60)",
            "Ed25519 is assumed: 'every bit flip is refused' is checked for all 512 single-bit flips and for random flips, not proven; reference uses ed25519-dalek verify (RFC 8032 equation, as RFC 8037 prescribes) and does not judge signatures on which verify and verify_strict differ (none occurred)",
            "the JWKS store can only be filled over HTTP: it is fed by an axum server on 127.0.0.1 inside the test process; refresh, key rotation and fetch failures are out of scope",
            "registration: the recording registry forwards to the production IdentityRegistry; one fixed initiator identity is used",
        ],
        &subs,
        post,
    );
}
