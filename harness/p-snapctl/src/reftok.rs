//! Reference predicate for C10, written from the property statement and the *documented* claims
//! structures of snap-tokens v0 / v1 (field names and field types) — it never calls the
//! deserialisers of snap-tokens nor jsonwebtoken.
//!
//! "The control plane accepts a bearer token iff it is a JWT signed with EdDSA by the configured
//! (or JWKS-resolved) key, carries every claim its claims version requires in a supported version,
//! names the SNAP audience whenever it names an audience, and is inside its validity window."
//!
//! The predicate is a function of (token string, verifier configuration, now). Where the statement
//! (and RFC 7515/7519) is silent the verdict is `Either` (never flagged):
//!   * a base64 spelling variant (padding, standard alphabet, non-zero trailing bits, whitespace)
//!     of a token that would be accepted,
//!   * malformed *optional* header parameters (non-string typ / kid / unknown parameters),
//!   * registered claims that are not part of the version's documented structure and are ill-typed
//!     (v0: aud / nbf / iss / iat of a wrong JSON type, aud = []; both: sub not a string), v1 `aud`
//!     given as an array containing "snap",
//!   * v0 pssid spelled as a non-hyphenated UUID form,
//!   * a time closer than the guard to `now ± leeway` (the verifier reads the wall clock itself),
//!   * Ed25519 signatures on which RFC 8032 cofactorless verification and dalek's strict
//!     verification disagree (needs a small-order R or A: unreachable with an honest key).

use std::collections::BTreeMap;

use ed25519_dalek::{Signature, Verifier, VerifyingKey};
use serde_json::Value;

/// The audience the SNAP control plane identifies itself with (v1 claims doc: "Audience (SNAP)",
/// `SnapTokenClaims::new` sets "snap").
pub const SNAP_AUD: &str = "snap";

/// Verifier configuration, as the reference sees it: raw Ed25519 public keys.
#[derive(Clone, Debug)]
pub struct RefConfig {
    /// the statically configured key
    pub static_key: [u8; 32],
    /// `None`: no JWKS store configured. `Some(map)`: kid -> key served by the JWKS endpoint.
    pub jwks: Option<BTreeMap<String, [u8; 32]>>,
    /// the verifier's fixed clock leeway in seconds
    pub leeway: u64,
    /// minimum distance (seconds) of a time claim to a boundary for the verdict to be definite
    pub guard: u64,
}

#[derive(Clone, Copy, Debug, PartialEq, Eq)]
pub enum Why {
    Format,
    Alg,
    UnknownKid,
    Signature,
    Version,
    Claims,
    Audience,
    Expired,
    NotYetValid,
}

impl Why {
    /// signature used when the implementation accepts a token the reference refuses for this reason
    pub fn accept_sig(self) -> &'static str {
        match self {
            Why::Format => "accepts-malformed-token",
            Why::Alg => "accepts-non-eddsa-alg",
            Why::UnknownKid => "accepts-unresolvable-kid",
            Why::Signature => "accepts-bad-signature",
            Why::Version => "accepts-unknown-version",
            Why::Claims => "accepts-missing-or-illtyped-claim",
            Why::Audience => "accepts-foreign-audience",
            Why::Expired => "accepts-expired-token",
            Why::NotYetValid => "accepts-token-before-nbf",
        }
    }
}

#[derive(Clone, Debug, PartialEq, Eq)]
pub enum Verdict {
    Accept,
    /// all reasons found (fixed order; `NotYetValid` is last so that it is only the *first* reason
    /// when it is the only one)
    Reject(Vec<Why>),
    Either(&'static str),
}

impl Verdict {
    pub fn class(&self) -> String {
        match self {
            Verdict::Accept => "ref:accept".into(),
            Verdict::Reject(w) => format!("ref:reject:{:?}", w[0]),
            Verdict::Either(w) => format!("ref:either:{w}"),
        }
    }
}

// ------------------------------------------------------------------------------------ base64url

fn b64_val(c: u8, url: bool, std: bool) -> Option<u8> {
    match c {
        b'A'..=b'Z' => Some(c - b'A'),
        b'a'..=b'z' => Some(c - b'a' + 26),
        b'0'..=b'9' => Some(c - b'0' + 52),
        b'-' if url => Some(62),
        b'_' if url => Some(63),
        b'+' if std => Some(62),
        b'/' if std => Some(63),
        _ => None,
    }
}

/// RFC 7515 §2 "base64url without padding", strict: URL alphabet only, no '=', no whitespace,
/// length mod 4 != 1, unused trailing bits zero. `lenient` additionally tolerates the standard
/// alphabet, ASCII whitespace anywhere, up to two trailing '=', and non-zero trailing bits.
pub fn b64url_decode(s: &[u8], lenient: bool) -> Option<Vec<u8>> {
    let mut body: Vec<u8> = Vec::with_capacity(s.len());
    if lenient {
        let t: Vec<u8> = s.iter().copied().filter(|c| !c.is_ascii_whitespace()).collect();
        let mut end = t.len();
        let mut pads = 0;
        while end > 0 && t[end - 1] == b'=' && pads < 2 {
            end -= 1;
            pads += 1;
        }
        body.extend_from_slice(&t[..end]);
    } else {
        body.extend_from_slice(s);
    }
    if body.len() % 4 == 1 {
        return None;
    }
    let mut out = Vec::with_capacity(body.len() * 3 / 4);
    let mut acc: u32 = 0;
    let mut bits = 0;
    for &c in &body {
        let v = b64_val(c, true, lenient)?;
        acc = (acc << 6) | v as u32;
        bits += 6;
        if bits >= 8 {
            bits -= 8;
            out.push((acc >> bits) as u8);
            acc &= (1 << bits) - 1;
        }
    }
    if !lenient && acc != 0 {
        return None; // non-zero trailing bits
    }
    Some(out)
}

pub fn b64url_encode(b: &[u8]) -> String {
    const A: &[u8; 64] = b"ABCDEFGHIJKLMNOPQRSTUVWXYZabcdefghijklmnopqrstuvwxyz0123456789-_";
    let mut out = String::with_capacity(b.len() * 4 / 3 + 3);
    for ch in b.chunks(3) {
        let n = (ch[0] as u32) << 16 | (*ch.get(1).unwrap_or(&0) as u32) << 8 | *ch.get(2).unwrap_or(&0) as u32;
        out.push(A[(n >> 18) as usize & 63] as char);
        out.push(A[(n >> 12) as usize & 63] as char);
        if ch.len() > 1 {
            out.push(A[(n >> 6) as usize & 63] as char);
        }
        if ch.len() > 2 {
            out.push(A[n as usize & 63] as char);
        }
    }
    out
}

// ------------------------------------------------------------------------------------ claim types

/// JSON value is a non-negative integer that fits u64 (documented type of exp / nbf / iat: `u64`).
fn as_u64_strict(v: &Value) -> Option<u64> {
    match v {
        Value::Number(n) if n.is_u64() => n.as_u64(),
        _ => None,
    }
}

enum UuidForm {
    Hyphenated,
    OtherForm,
    No,
}
fn all_hex(s: &str) -> bool {
    !s.is_empty() && s.bytes().all(|c| c.is_ascii_hexdigit())
}
/// v0 `Pssid(pub Uuid)`: a UUID in its textual form (canonical 8-4-4-4-12; the uuid crate also reads
/// the simple / braced / urn forms: those are `OtherForm`).
fn uuid_form(s: &str) -> UuidForm {
    let hyph = |s: &str| {
        let p: Vec<&str> = s.split('-').collect();
        p.len() == 5 && [8, 4, 4, 4, 12].iter().zip(&p).all(|(l, x)| x.len() == *l && all_hex(x))
    };
    if hyph(s) {
        return UuidForm::Hyphenated;
    }
    if s.len() == 32 && all_hex(s) {
        return UuidForm::OtherForm;
    }
    if let Some(inner) = s.strip_prefix('{').and_then(|x| x.strip_suffix('}')) {
        if hyph(inner) || (inner.len() == 32 && all_hex(inner)) {
            return UuidForm::OtherForm;
        }
    }
    if let Some(inner) = s.strip_prefix("urn:uuid:") {
        if hyph(inner) {
            return UuidForm::OtherForm;
        }
    }
    UuidForm::No
}

/// v1 Pssid: "base64url-no-pad of 0x00 || 16 uuid bytes" (17 bytes, first one the version 0).
fn v1_pssid_ok(s: &str) -> bool {
    matches!(b64url_decode(s.as_bytes(), false), Some(b) if b.len() == 17 && b[0] == 0)
}

// ------------------------------------------------------------------------------------ the predicate

/// Result of evaluating everything except the base64 spelling.
fn eval_decoded(
    header: &[u8],
    payload: &[u8],
    sig: &[u8],
    signed_msgs: &[&[u8]],
    cfg: &RefConfig,
    now_lo: u64,
    now_hi: u64,
) -> Verdict {
    let mut why: Vec<Why> = vec![];
    let mut either: Option<&'static str> = None;

    // ---- header: a JSON object with alg == "EdDSA"
    let Ok(Value::Object(h)) = serde_json::from_slice::<Value>(header) else {
        return Verdict::Reject(vec![Why::Format]);
    };
    match h.get("alg") {
        Some(Value::String(a)) if a == "EdDSA" => {}
        _ => why.push(Why::Alg),
    }
    for (k, v) in &h {
        if k != "alg" && !v.is_string() {
            // typ / kid / cty / unknown parameters that are not strings: statement silent
            either = Some("malformed-optional-header-param");
        }
    }
    // ---- key designated by the configuration
    let kid = match h.get("kid") {
        Some(Value::String(k)) => Some(k.as_str()),
        _ => None,
    };
    let key: Option<[u8; 32]> = match (&cfg.jwks, kid) {
        (Some(set), Some(kid)) => set.get(kid).copied(),
        _ => Some(cfg.static_key),
    };
    // ---- signature over the ASCII of "header.payload"
    match key {
        None => why.push(Why::UnknownKid),
        Some(k) => {
            let ok = (|| {
                let vk = VerifyingKey::from_bytes(&k).ok()?;
                let sig = Signature::from_slice(sig).ok()?;
                let mut any = false;
                for m in signed_msgs {
                    // RFC 8037 §3.1: "verification is done as defined in RFC 8032" = the
                    // (cofactorless, as implemented by dalek's `verify`) group equation.
                    let plain = vk.verify(m, &sig).is_ok();
                    let strict = vk.verify_strict(m, &sig).is_ok();
                    if plain != strict {
                        return None;
                    }
                    any |= plain;
                }
                Some(any)
            })();
            match ok {
                Some(true) => {}
                Some(false) => why.push(Why::Signature),
                None => {
                    if sig.len() == 64 && VerifyingKey::from_bytes(&k).is_ok() {
                        either = Some("ed25519-strictness");
                    } else {
                        why.push(Why::Signature)
                    }
                }
            }
        }
    }
    // ---- claims
    let Ok(Value::Object(c)) = serde_json::from_slice::<Value>(payload) else {
        why.push(Why::Claims);
        return Verdict::Reject(why);
    };
    let is_str = |k: &str| matches!(c.get(k), Some(Value::String(_)));
    let is_u64 = |k: &str| c.get(k).map(|v| as_u64_strict(v).is_some()).unwrap_or(false);
    let v1 = match c.get("ver") {
        None => false,
        Some(Value::Number(n)) if n.is_u64() && n.as_u64() == Some(1) => true,
        Some(_) => {
            why.push(Why::Version);
            false
        }
    };
    if !why.contains(&Why::Version) {
        if v1 {
            // ver, iss, aud, exp, nbf, iat, jti, pssid (+ arbitrary private claims)
            let mut ok = is_str("iss") && is_u64("exp") && is_u64("nbf") && is_u64("iat") && is_str("jti");
            ok &= matches!(c.get("pssid"), Some(Value::String(p)) if v1_pssid_ok(p));
            match c.get("aud") {
                Some(Value::String(_)) => {}
                Some(Value::Array(a)) if a.iter().all(|x| x.is_string()) && a.iter().any(|x| x == SNAP_AUD) => {
                    either = Some("v1-aud-as-array");
                }
                Some(Value::Array(a)) if a.iter().all(|x| x.is_string()) && !a.is_empty() => {}
                _ => ok = false,
            }
            if !ok {
                why.push(Why::Claims);
            }
        } else {
            // pssid (UUID), exp, jti
            let mut ok = is_u64("exp") && is_str("jti");
            match c.get("pssid") {
                Some(Value::String(p)) => match uuid_form(p) {
                    UuidForm::Hyphenated => {}
                    UuidForm::OtherForm => either = Some("v0-pssid-uuid-other-form"),
                    UuidForm::No => ok = false,
                },
                _ => ok = false,
            }
            if !ok {
                why.push(Why::Claims);
            }
        }
    }
    // ---- registered claims (RFC 7519 §4.1) that are not part of the version's structure but are
    // ill-typed: not a well-formed JWT claims set, statement silent on whether that matters
    if matches!(c.get("sub"), Some(v) if !v.is_string()) {
        either = Some("illtyped-registered-claim-outside-structure");
    }
    if !v1 {
        let str_or_strs = |v: &Value| v.is_string() || matches!(v, Value::Array(a) if a.iter().all(|x| x.is_string()));
        if matches!(c.get("iss"), Some(v) if !str_or_strs(v)) || matches!(c.get("iat"), Some(v) if !v.is_number()) {
            either = Some("illtyped-registered-claim-outside-structure");
        }
    }
    // ---- audience: "names the SNAP audience whenever it names an audience"
    match c.get("aud") {
        None => {}
        Some(Value::String(a)) => {
            if a != SNAP_AUD {
                why.push(Why::Audience)
            }
        }
        Some(Value::Array(a)) if !a.is_empty() && a.iter().all(|x| x.is_string()) => {
            if !a.iter().any(|x| x == SNAP_AUD) {
                why.push(Why::Audience)
            }
        }
        Some(_) => {
            // null / number / [] / mixed array: not a well-formed audience. v1 already refused it
            // as an ill-typed claim; for v0 the statement is silent.
            if !v1 {
                either = Some("v0-aud-illtyped");
            }
        }
    }
    // ---- validity window, up to the leeway:  exp >= now - leeway ; nbf <= now + leeway
    if let Some(exp) = c.get("exp").and_then(as_u64_strict) {
        let lo = now_lo.saturating_sub(cfg.leeway);
        let hi = now_hi.saturating_sub(cfg.leeway);
        let ok_lo = exp >= lo;
        let ok_hi = exp >= hi;
        let near = exp.abs_diff(lo) < cfg.guard || exp.abs_diff(hi) < cfg.guard;
        if near || ok_lo != ok_hi {
            either = Some("time-guard-band");
        } else if !ok_lo {
            why.push(Why::Expired);
        }
    }
    match c.get("nbf") {
        None => {}
        Some(v) => match as_u64_strict(v) {
            Some(nbf) => {
                let lo = now_lo.saturating_add(cfg.leeway);
                let hi = now_hi.saturating_add(cfg.leeway);
                let ok_lo = nbf <= lo;
                let ok_hi = nbf <= hi;
                let near = nbf.abs_diff(lo) < cfg.guard || nbf.abs_diff(hi) < cfg.guard;
                if near || ok_lo != ok_hi {
                    either = Some("time-guard-band");
                } else if !ok_lo {
                    why.push(Why::NotYetValid);
                }
            }
            None => {
                if !v1 {
                    either = Some("v0-nbf-illtyped");
                }
            }
        },
    }
    if !why.is_empty() {
        // fixed report order, NotYetValid last
        let order = [
            Why::Format,
            Why::Alg,
            Why::UnknownKid,
            Why::Signature,
            Why::Version,
            Why::Claims,
            Why::Audience,
            Why::Expired,
            Why::NotYetValid,
        ];
        let mut sorted = vec![];
        for o in order {
            if why.contains(&o) {
                sorted.push(o);
            }
        }
        return Verdict::Reject(sorted);
    }
    match either {
        Some(e) => Verdict::Either(e),
        None => Verdict::Accept,
    }
}

/// The reference verdict for `token` at a wall-clock time somewhere in `now_lo ..= now_hi`.
pub fn verdict(token: &[u8], cfg: &RefConfig, now_lo: u64, now_hi: u64) -> Verdict {
    // exactly three segments
    let segs: Vec<&[u8]> = token.split(|b| *b == b'.').collect();
    if segs.len() != 3 {
        // a lenient reader could only strip whitespace: the number of dots is what it is
        return Verdict::Reject(vec![Why::Format]);
    }
    let strict: Vec<Option<Vec<u8>>> = segs.iter().map(|s| b64url_decode(s, false)).collect();
    if strict.iter().all(|s| s.is_some()) {
        let msg_len = segs[0].len() + 1 + segs[1].len();
        let d: Vec<Vec<u8>> = strict.into_iter().map(|s| s.unwrap()).collect();
        return eval_decoded(&d[0], &d[1], &d[2], &[&token[..msg_len]], cfg, now_lo, now_hi);
    }
    // some segment is not strict base64url-nopad: refused, unless it is merely another *spelling*
    // of bytes that make an acceptable token (then: either way)
    let lenient: Vec<Option<Vec<u8>>> = segs.iter().map(|s| b64url_decode(s, true)).collect();
    if lenient.iter().any(|s| s.is_none()) {
        return Verdict::Reject(vec![Why::Format]);
    }
    let d: Vec<Vec<u8>> = lenient.into_iter().map(|s| s.unwrap()).collect();
    let msg_len = segs[0].len() + 1 + segs[1].len();
    let canonical = format!("{}.{}", b64url_encode(&d[0]), b64url_encode(&d[1]));
    match eval_decoded(&d[0], &d[1], &d[2], &[&token[..msg_len], canonical.as_bytes()], cfg, now_lo, now_hi) {
        Verdict::Reject(_) => Verdict::Reject(vec![Why::Format]),
        _ => Verdict::Either("base64-spelling"),
    }
}

#[cfg(test)]
mod tests {
    use super::*;

    #[test]
    fn b64_strict() {
        assert_eq!(b64url_decode(b"AQ", false), Some(vec![1]));
        assert_eq!(b64url_decode(b"AR", false), None); // trailing bits
        assert_eq!(b64url_decode(b"AR", true), Some(vec![1]));
        assert_eq!(b64url_decode(b"AQ==", false), None);
        assert_eq!(b64url_decode(b"AQ==", true), Some(vec![1]));
        assert_eq!(b64url_decode(b"A", false), None);
        assert_eq!(b64url_decode(b"-_8", false), Some(vec![0xfb, 0xff]));
        assert_eq!(b64url_decode(b"+/8", false), None);
        assert_eq!(b64url_decode(b"+/8", true), Some(vec![0xfb, 0xff]));
        for n in 0..40usize {
            let v: Vec<u8> = (0..n).map(|i| (i * 37 + 11) as u8).collect();
            assert_eq!(b64url_decode(b64url_encode(&v).as_bytes(), false), Some(v));
        }
    }
}
