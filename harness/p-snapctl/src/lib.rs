//! Checks of the SNAP control plane (snap-control, snap-tokens).
pub mod reftok;
