//! C16 — path policy languages mean what their specification says.

use proptest::prelude::*;
use refmodel::policy::{self as rp, Hop, Ifs, Pat, Pred};
use sciparse::{
    dataplane_path::view::ScionDpPathView,
    identifier::{asn::Asn, isd::Isd, isd_asn::IsdAsn},
    path::{
        ScionPath,
        metadata::{PathMetadata, path_interface::PathInterface},
        policy::{
            PathPolicy, Policy,
            acl::{AclEntry, AclEntryOperator, AclPolicy},
            hop_pattern::HopPatternPolicy,
            types::{HopPredicate, InterfacesPredicate, PathPolicyHop},
        },
    },
};
use serde::{Deserialize, Serialize};
use vcore::{CheckResult, Ctx, Fail, Obs, Sub, ensure};

// ------------------------------------------------------------------------------ conversions

fn sut_pred(p: &Pred) -> HopPredicate {
    let ifs = match p.ifs {
        Ifs::Any => InterfacesPredicate::Any,
        Ifs::Either(x) => InterfacesPredicate::either(x),
        Ifs::Both(i, e) => InterfacesPredicate::both(i, e),
    };
    HopPredicate::new(Isd(p.isd), p.asn.map(Asn), ifs)
}
fn sut_hops(h: &[Hop]) -> Vec<PathPolicyHop> {
    h.iter()
        .map(|h| PathPolicyHop { isd_asn: IsdAsn::new(Isd(h.isd), Asn(h.asn)), ingress: h.ing, egress: h.eg })
        .collect()
}
/// A ScionPath whose metadata lists the interfaces of `hops` (first ingress / last egress = 0).
fn sut_path(h: &[Hop]) -> Option<ScionPath> {
    if h.len() < 2 {
        return None;
    }
    let mut ifs = vec![];
    for (i, hop) in h.iter().enumerate() {
        let ia = IsdAsn::new(Isd(hop.isd), Asn(hop.asn));
        if i > 0 {
            ifs.push(PathInterface::new(ia, hop.ing));
        }
        if i + 1 < h.len() {
            ifs.push(PathInterface::new(ia, hop.eg));
        }
    }
    let src = IsdAsn::new(Isd(h[0].isd), Asn(h[0].asn));
    let dst = IsdAsn::new(Isd(h[h.len() - 1].isd), Asn(h[h.len() - 1].asn));
    Some(ScionPath::new(src, dst, ScionDpPathView::Empty, Some(PathMetadata::new_minimal(0, 0, ifs)), None))
}

// ------------------------------------------------------------------------------ alphabets

const ASES: [(u16, u64); 4] = [(1, 1), (1, 2), (2, 1), (2, 0xff00_0000_0110)];

fn pred_alphabet() -> Vec<Pred> {
    // every wildcard combination over 2 ISDs x 2 ASes x interfaces {0,1,2}
    let mut v = vec![];
    for isd in [0u16, 1, 2] {
        v.push(Pred { isd, asn: None, ifs: Ifs::Any });
        for asn in [0u64, 1, 2] {
            v.push(Pred { isd, asn: Some(asn), ifs: Ifs::Any });
            for x in [0u16, 1, 2] {
                v.push(Pred { isd, asn: Some(asn), ifs: Ifs::Either(x) });
                for y in [0u16, 1, 2] {
                    v.push(Pred { isd, asn: Some(asn), ifs: Ifs::Both(x, y) });
                }
            }
        }
    }
    v
}
/// small alphabet for exhaustive AST enumeration
fn small_preds() -> [Pred; 3] {
    [
        Pred { isd: 1, asn: None, ifs: Ifs::Any },
        Pred { isd: 0, asn: Some(1), ifs: Ifs::Either(1) },
        Pred { isd: 2, asn: Some(0), ifs: Ifs::Both(0, 2) },
    ]
}

/// the i-th hop sequence of length `len` over 4 ASes x interfaces {1,2}, ends zeroed
fn hop_seq(mut code: u64, len: usize) -> Vec<Hop> {
    let mut v = Vec::with_capacity(len);
    for i in 0..len {
        let a = ASES[(code % 4) as usize];
        code /= 4;
        let ing = 1 + (code % 2) as u16;
        code /= 2;
        let eg = 1 + (code % 2) as u16;
        code /= 2;
        v.push(Hop { isd: a.0, asn: a.1, ing: if i == 0 { 0 } else { ing }, eg: if i + 1 == len { 0 } else { eg } });
    }
    v
}
fn hop_seq_count(len: usize) -> u64 {
    16u64.pow(len as u32)
}
/// compact exhaustive hop alphabet: 4 concrete hops
const CONC: [(u16, u64, u16, u16); 4] = [(1, 1, 1, 2), (1, 2, 2, 1), (2, 1, 1, 1), (2, 0xff00_0000_0110, 2, 2)];
fn conc_seq(mut code: u64, len: usize) -> Vec<Hop> {
    let mut v = Vec::with_capacity(len);
    for i in 0..len {
        let c = CONC[(code % 4) as usize];
        code /= 4;
        v.push(Hop { isd: c.0, asn: c.1, ing: if i == 0 { 0 } else { c.2 }, eg: if i + 1 == len { 0 } else { c.3 } });
    }
    v
}
fn all_conc_seqs(maxlen: usize) -> Vec<Vec<Hop>> {
    let mut out = vec![];
    for len in 1..=maxlen {
        for code in 0..4u64.pow(len as u32) {
            out.push(conc_seq(code, len));
        }
    }
    out
}

fn asts(preds: &[Pred], depth: usize) -> Vec<Pat> {
    let mut cur: Vec<Pat> = preds.iter().map(|p| Pat::P(*p)).collect();
    for _ in 0..depth {
        let mut next: Vec<Pat> = preds.iter().map(|p| Pat::P(*p)).collect();
        for a in &cur {
            next.push(Pat::Opt(Box::new(a.clone())));
            next.push(Pat::Plus(Box::new(a.clone())));
            next.push(Pat::Star(Box::new(a.clone())));
        }
        for a in &cur {
            for b in &cur {
                next.push(Pat::Or(Box::new(a.clone()), Box::new(b.clone())));
            }
        }
        cur = next;
    }
    cur
}

// ------------------------------------------------------------------------------ hop patterns

#[derive(Clone, Debug, Serialize, Deserialize)]
struct PatCase {
    seq: Vec<Pat>,
    style: u64,
    /// explicit hop sequences; empty => all concrete sequences up to length 5
    hops: Vec<Vec<Hop>>,
}

fn check_pattern(c: &PatCase, obs: &mut Obs) -> CheckResult {
    let canon = rp::show_seq(&c.seq, &mut 0);
    let mut st = c.style;
    let styled = rp::show_seq(&c.seq, &mut st);
    let p0 = vcore::no_panic("HopPatternPolicy::parse", || HopPatternPolicy::parse(&canon))?
        .map_err(|e| Fail::new("pattern-rejected", format!("valid pattern {canon:?} rejected: {e:?}")))?;
    let p1 = vcore::no_panic("HopPatternPolicy::parse", || HopPatternPolicy::parse(&styled))?
        .map_err(|e| Fail::new("styled-pattern-rejected", format!("pattern {styled:?} (= {canon:?} with redundant parentheses/whitespace) rejected: {e:?}")))?;
    let tricky = c.seq.iter().any(|p| p.is_tricky());
    obs.label(if tricky { "pattern-tricky" } else { "pattern-plain" });
    if c.seq.len() > 1 {
        obs.label("pattern-sequence");
    }
    if c.seq.is_empty() {
        obs.label("pattern-empty");
    }
    let all;
    let hopsets: &Vec<Vec<Hop>> = if c.hops.is_empty() {
        all = all_conc_seqs(5);
        &all
    } else {
        &c.hops
    };
    let mut n = 0u64;
    let mut matched = 0u64;
    for hs in hopsets {
        let want = rp::pattern_matches(&c.seq, hs);
        ensure!(rp::pattern_matches_nfa(&c.seq, hs) == want, "harness:reference-matchers-disagree", "derivative matcher {want}, NFA matcher {} on {canon:?} {hs:?}", !want);
        let sh = sut_hops(hs);
        let got0 = vcore::no_panic("HopPatternPolicy::matches", || p0.matches(&sh))?;
        let got1 = vcore::no_panic("HopPatternPolicy::matches", || p1.matches(&sh))?;
        n += 2;
        matched += want as u64;
        ensure!(got0 == want, if want { "pattern-false-negative" } else { "pattern-false-positive" },
            "pattern {canon:?} on hops {hs:?}: SUT says {got0}, the regular language says {want}");
        ensure!(got1 == want, "pattern-style-changes-meaning",
            "pattern {styled:?} (same as {canon:?}) on hops {hs:?}: SUT says {got1}, expected {want}");
        // through the PathPolicy trait (hop extraction from metadata)
        if let Some(path) = sut_path(hs) {
            let via = vcore::no_panic("HopPatternPolicy::path_allowed", || p0.path_allowed(&path))?;
            ensure!(via == Ok(want), "pattern-path-allowed-differs", "pattern {canon:?}: path_allowed = {via:?}, expected Ok({want}) for hops {hs:?}");
            let pol = Policy::new(None, Some(p0.clone()));
            let viap = vcore::no_panic("Policy::path_allowed", || pol.path_allowed(&path))?;
            ensure!(viap == Ok(want), "policy-path-allowed-differs", "Policy{{hop_pattern {canon:?}}}: path_allowed = {viap:?}, expected Ok({want})");
            n += 2;
        }
    }
    obs.evals(n);
    if tricky || c.seq.len() > 1 {
        obs.nontrivial(&(&canon, c.hops.len(), c.hops.first()));
    }
    if matched > 0 {
        obs.label("pattern-some-match");
    }
    Ok(())
}

fn pred_strategy() -> impl Strategy<Value = Pred> {
    let alpha = pred_alphabet();
    let n = alpha.len();
    prop_oneof![
        4 => any::<u16>().prop_map(move |i| alpha[vcore::idx(i, n)]),
        1 => (0u16..4, prop::option::of(prop_oneof![Just(0u64), Just(1), Just(2), Just(0xff00_0000_0110u64)]), 0u16..3, 0u16..3, 0u8..3)
            .prop_map(|(isd, asn, x, y, k)| Pred { isd, asn, ifs: if asn.is_none() { Ifs::Any } else { match k { 0 => Ifs::Any, 1 => Ifs::Either(x), _ => Ifs::Both(x, y) } } }),
    ]
}
fn pat_strategy() -> impl Strategy<Value = Pat> {
    let leaf = pred_strategy().prop_map(Pat::P);
    leaf.prop_recursive(5, 24, 2, |inner| {
        prop_oneof![
            (inner.clone(), inner.clone()).prop_map(|(a, b)| Pat::Or(Box::new(a), Box::new(b))),
            inner.clone().prop_map(|a| Pat::Opt(Box::new(a))),
            inner.clone().prop_map(|a| Pat::Plus(Box::new(a))),
            inner.prop_map(|a| Pat::Star(Box::new(a))),
        ]
    })
}
fn hops_strategy(maxlen: usize) -> impl Strategy<Value = Vec<Hop>> {
    (1usize..=maxlen, any::<u64>()).prop_map(|(len, code)| hop_seq(code % hop_seq_count(len.min(15)), len))
}

fn run_patterns(ctx: &Ctx) {
    // (1) exhaustive: single-item patterns = all ASTs of depth <= 2 over 3 predicates,
    //     and all top-level sequences of <= 3 items of depth <= 1 (thorough) / <= 2 items (quick),
    //     each against ALL hop sequences of length 1..5 over 4 concrete hops (1364).
    let d2 = asts(&small_preds(), 2);
    let d1 = asts(&small_preds(), 1);
    let n1 = d2.len() as u64;
    ctx.run_enum("patterns-exh-depth2", n1, true, |i| Some(PatCase { seq: vec![d2[i as usize].clone()], style: i.wrapping_mul(0x9e3779b97f4a7c15) ^ ctx.seed, hops: vec![] }), check_pattern);
    let k = d1.len() as u64;
    let seqlen = 3u32;
    let total = (1..=seqlen).map(|l| k.pow(l)).sum::<u64>() + 1;
    ctx.run_enum("patterns-exh-sequences", total, true, |mut i| {
        let mut seq = vec![];
        if i > 0 {
            i -= 1;
            let mut len = 1;
            while i >= k.pow(len) { i -= k.pow(len); len += 1; }
            for _ in 0..len { seq.push(d1[(i % k) as usize].clone()); i /= k; }
        }
        Some(PatCase { seq, style: 0, hops: vec![] })
    }, check_pattern);
    if ctx.tier == vcore::Tier::Thorough {
        let d3 = asts(&small_preds(), 3);
        let n3 = d3.len() as u64;
        let hs = all_conc_seqs(4);
        ctx.run_enum("patterns-exh-depth3", n3, true, |i| Some(PatCase { seq: vec![d3[i as usize].clone()], style: i, hops: hs.clone() }), check_pattern);
    }
    // (2) random deeper patterns x random hop sequences (length up to 10)
    let n = ctx.tier.pick(300_000, 6_000_000);
    ctx.run_prop("patterns-random", n, || {
        (prop::collection::vec(pat_strategy(), 0..5), any::<u64>(), prop::collection::vec(hops_strategy(10), 1..24))
            .prop_map(|(seq, style, hops)| PatCase { seq, style, hops })
    }, check_pattern);
}

// ------------------------------------------------------------------------------ ACL

#[derive(Clone, Debug, Serialize, Deserialize)]
struct AclCase {
    entries: Vec<(bool, Pred)>,
    default_allow: bool,
    hops: Vec<Vec<Hop>>,
}

fn op(allow: bool) -> AclEntryOperator {
    if allow { AclEntryOperator::Allow } else { AclEntryOperator::Deny }
}

fn check_acl(c: &AclCase, obs: &mut Obs) -> CheckResult {
    let built = AclPolicy::new_from_entries(op(c.default_allow), c.entries.iter().map(|(a, p)| AclEntry::new(op(*a), sut_pred(p))));
    // the textual form: "{op} {pred} ... {default-op}"; a catch-all predicate is only allowed last
    // catch-all predicates judged by the reference (ISD 0, AS absent or 0, no interface named) -
    // not by the SUT's own is_wildcard()
    let ref_wild = |p: &Pred| p.isd == 0 && p.asn.unwrap_or(0) == 0 && match p.ifs { Ifs::Any => true, Ifs::Either(x) => x == 0, Ifs::Both(x, y) => x == 0 && y == 0 };
    let has_wild_inner = c.entries.iter().any(|(_, p)| ref_wild(p));
    for (_, p) in &c.entries {
        ensure!(sut_pred(p).is_wildcard() == ref_wild(p), "predicate-wildcard-classification", "HopPredicate::is_wildcard() = {} for {:?}", !ref_wild(p), p);
    }
    let parsed = if has_wild_inner {
        None
    } else {
        let mut s = String::new();
        for (a, p) in &c.entries {
            s.push_str(if *a { "+ " } else { "- " });
            s.push_str(&p.show().expect("printable"));
            s.push(' ');
        }
        s.push_str(if c.default_allow { "+" } else { "-" });
        let p = vcore::no_panic("AclPolicy::parse", || AclPolicy::parse(&s))?
            .map_err(|e| Fail::new("acl-rejected", format!("valid ACL {s:?} rejected: {e}")))?;
        ensure!(p == built, "acl-parse-differs", "ACL {s:?} parsed to {p:?}, expected {built:?}");
        // the same text without its default operator is not an ACL (no entry is a catch-all)
        if !c.entries.is_empty() {
            let cut = s[..s.len() - 1].trim_end().to_string();
            let r = vcore::no_panic("AclPolicy::parse", || AclPolicy::parse(&cut))?;
            ensure!(r.is_err(), "acl-without-default-accepted", "ACL text {cut:?} has no default operator and no catch-all entry but parsed to {r:?}");
        }
        Some(p)
    };
    let all;
    let hopsets: &Vec<Vec<Hop>> = if c.hops.is_empty() {
        all = all_conc_seqs(4);
        &all
    } else {
        &c.hops
    };
    let mut n = 0u64;
    let mut non_first = false;
    for hs in hopsets {
        let want = rp::acl_allows(&c.entries, c.default_allow, hs);
        // verdict decided by a non-first entry for some hop?
        for h in hs {
            if let Some(pos) = c.entries.iter().position(|(_, p)| p.matches(h)) {
                if pos > 0 {
                    non_first = true;
                }
            }
        }
        let sh = sut_hops(hs);
        let got = vcore::no_panic("AclPolicy::matches", || built.matches(&sh))?;
        n += 1;
        ensure!(got == want, if want { "acl-false-deny" } else { "acl-false-allow" },
            "ACL {:?} default_allow={} on hops {hs:?}: SUT says {got}, first-match semantics say {want}", c.entries, c.default_allow);
        if let Some(path) = sut_path(hs) {
            let via = vcore::no_panic("AclPolicy::path_allowed", || built.path_allowed(&path))?;
            ensure!(via == Ok(want), "acl-path-allowed-differs", "ACL {:?}: path_allowed = {via:?}, expected Ok({want}) for hops {hs:?}", c.entries);
            let pol = Policy::new(parsed.clone().or(Some(built.clone())), None);
            let viap = vcore::no_panic("Policy::path_allowed", || pol.path_allowed(&path))?;
            ensure!(viap == Ok(want), "policy-path-allowed-differs", "Policy{{acl}}: path_allowed = {viap:?}, expected Ok({want})");
            n += 2;
        }
    }
    obs.evals(n);
    obs.label(if non_first { "acl-decided-by-non-first-entry" } else { "acl-first-or-default" });
    if non_first {
        obs.nontrivial(&(&c.entries, c.default_allow, c.hops.len(), c.hops.first()));
    }
    Ok(())
}

fn run_acl(ctx: &Ctx) {
    // exhaustive: all ACLs with <= 3 entries over a 6-predicate alphabet x 2 ops + default, against
    // all hop sequences up to length 4 over 4 concrete hops
    let preds = [
        Pred { isd: 1, asn: None, ifs: Ifs::Any },
        Pred { isd: 0, asn: Some(1), ifs: Ifs::Any },
        Pred { isd: 2, asn: Some(0), ifs: Ifs::Either(2) },
        Pred { isd: 1, asn: Some(2), ifs: Ifs::Both(2, 0) },
        Pred { isd: 0, asn: Some(0), ifs: Ifs::Both(0, 2) },
        Pred { isd: 2, asn: Some(0xff00_0000_0110), ifs: Ifs::Either(0) },
    ];
    let e = (preds.len() * 2) as u64; // entry choices
    let maxe = 3u32;
    let total: u64 = (0..=maxe).map(|l| e.pow(l)).sum::<u64>() * 2;
    ctx.run_enum("acl-exhaustive", total, true, |i| {
        let default_allow = i % 2 == 0;
        let mut j = i / 2;
        let mut len = 0;
        while j >= e.pow(len) { j -= e.pow(len); len += 1; }
        let mut entries = vec![];
        for _ in 0..len {
            let c = (j % e) as usize;
            j /= e;
            entries.push((c % 2 == 0, preds[c / 2]));
        }
        Some(AclCase { entries, default_allow, hops: vec![] })
    }, check_acl);
    let n = ctx.tier.pick(300_000, 6_000_000);
    ctx.run_prop("acl-random", n, || {
        (prop::collection::vec((any::<bool>(), pred_strategy()), 0..9), any::<bool>(), prop::collection::vec(hops_strategy(8), 1..16))
            .prop_map(|(entries, default_allow, hops)| AclCase { entries, default_allow, hops })
    }, check_acl);
}

// ------------------------------------------------------------------------------ predicates

#[derive(Clone, Debug, Serialize, Deserialize)]
struct PredCase {
    pred: Pred,
    hops: Vec<Hop>,
}
fn check_pred(c: &PredCase, obs: &mut Obs) -> CheckResult {
    let sp = sut_pred(&c.pred);
    if let Some(shown_ref) = c.pred.show() {
        let shown = vcore::no_panic("HopPredicate::display", || sp.to_string())?;
        ensure!(shown == shown_ref, "pred-display-differs", "predicate {:?} displays as {shown:?}, documented form is {shown_ref:?}", c.pred);
        let back = vcore::no_panic("HopPredicate::from_str", || shown.parse::<HopPredicate>())?;
        ensure!(back.as_ref() == Ok(&sp), "pred-roundtrip", "predicate {sp:?} displays as {shown:?} which parses to {back:?}");
        obs.label("pred-printable");
        obs.nontrivial(&c.pred);
    } else {
        obs.label("pred-not-expressible");
    }
    for h in &c.hops {
        let want = c.pred.matches(h);
        let got = vcore::no_panic("HopPredicate::matches", || sp.matches(IsdAsn::new(Isd(h.isd), Asn(h.asn)), h.ing, h.eg))?;
        ensure!(got == want, "pred-match-differs", "predicate {:?} on hop {h:?}: SUT {got}, documented semantics {want}", c.pred);
    }
    obs.evals(c.hops.len() as u64);
    Ok(())
}
fn run_preds(ctx: &Ctx) {
    let alpha = pred_alphabet();
    // every alphabet predicate x every hop over 4 ASes x interfaces {0,1,2}^2
    let mut hops = vec![];
    for a in ASES {
        for i in 0..3u16 {
            for e in 0..3u16 {
                hops.push(Hop { isd: a.0, asn: a.1, ing: i, eg: e });
            }
        }
    }
    ctx.run_enum("predicates-exhaustive", alpha.len() as u64, true, |i| Some(PredCase { pred: alpha[i as usize], hops: hops.clone() }), check_pred);
    let n = ctx.tier.pick(500_000, 10_000_000);
    ctx.run_prop("predicates-random", n, || {
        // real hops never carry the wildcard ISD 0 / AS 0 (interface 0 does occur: first ingress, last egress)
        let hop = (1u16..=u16::MAX, prop_oneof![Just(1u64), Just(2), 1u64..(1 << 48)], any::<u16>(), any::<u16>()).prop_map(|(isd, asn, ing, eg)| Hop { isd, asn, ing, eg });
        let pred = (any::<u16>(), prop::option::of(prop_oneof![Just(0u64), Just(1), 0u64..(1 << 48)]), any::<u16>(), any::<u16>(), 0u8..3, any::<bool>())
            .prop_map(|(isd, asn, x, y, k, zero)| Pred { isd: if zero { 0 } else { isd }, asn, ifs: match k { 0 => Ifs::Any, 1 => Ifs::Either(x), _ => Ifs::Both(x, y) } });
        (pred, prop::collection::vec(hop, 1..6)).prop_map(|(pred, mut hops)| {
            // make at least one hop agree with the predicate's concrete fields
            let mut h = hops[0];
            if pred.isd != 0 { h.isd = pred.isd; }
            if let Some(a) = pred.asn { if a != 0 { h.asn = a; } }
            match pred.ifs { Ifs::Either(x) if x != 0 => h.eg = x, Ifs::Both(i, e) => { if i != 0 { h.ing = i; } if e != 0 { h.eg = e; } } _ => {} }
            hops.push(h);
            PredCase { pred, hops }
        })
    }, check_pred);
}

// ------------------------------------------------------------------------------ parser totality

#[derive(Clone, Debug, Serialize, Deserialize)]
struct SoupCase {
    s: String,
}
fn check_soup(c: &SoupCase, obs: &mut Obs) -> CheckResult {
    let hs = sut_hops(&conc_seq(0x1b, 3));
    let r = vcore::no_panic("HopPatternPolicy::parse", || HopPatternPolicy::parse(&c.s))?;
    match r {
        Ok(p) => {
            obs.label("soup-pattern-accepted");
            obs.nontrivial(&c.s);
            vcore::no_panic("HopPatternPolicy::matches", || p.matches(&hs))?;
            vcore::no_panic("HopPatternPolicy::matches", || p.matches(&[]))?;
        }
        Err(e) => {
            obs.label("soup-pattern-rejected");
            vcore::no_panic("ParseError::report", || e.report(&c.s))?;
        }
    }
    let r = vcore::no_panic("AclPolicy::parse", || AclPolicy::parse(&c.s))?;
    if let Ok(a) = r {
        obs.label("soup-acl-accepted");
        obs.nontrivial(&(&c.s, 1));
        vcore::no_panic("AclPolicy::matches", || a.matches(&hs))?;
    }
    let _ = vcore::no_panic("AclEntry::parse", || AclEntry::parse(&c.s))?;
    let _ = vcore::no_panic("HopPredicate::from_str", || c.s.parse::<HopPredicate>())?;
    let _ = vcore::no_panic("InterfacesPredicate::from_str", || c.s.parse::<InterfacesPredicate>())?;
    obs.evals(5);
    Ok(())
}
fn run_soup(ctx: &Ctx) {
    let n = ctx.tier.pick(1_000_000, 30_000_000);
    ctx.run_prop("parser-soup", n, || {
        let tok = prop_oneof![
            Just("(".to_string()), Just(")".to_string()), Just("|".to_string()), Just("?".to_string()), Just("+".to_string()),
            Just("*".to_string()), Just("!".to_string()), Just("&".to_string()), Just(" ".to_string()), Just("\t".to_string()),
            Just("-".to_string()), Just("#".to_string()), Just(",".to_string()), Just("0".to_string()), Just("1".to_string()),
            Just("1-2".to_string()), Just("1-ff00:0:110#1,2".to_string()), Just("2-0#0".to_string()), Just("65536".to_string()),
            Just("1-2#3,4,5".to_string()), Just("\n".to_string()), Just("é".to_string()), "\\PC{0,2}",
        ];
        prop_oneof![
            4 => prop::collection::vec(tok, 0..14).prop_map(|v| v.concat()),
            1 => "\\PC{0,40}",
            // deep nesting
            // nesting: parentheses up to 400 deep; directly stacked repetition operators up to 12
            // (matching cost grows exponentially with the number of stacked '*', see DESIGN §C16 limits)
            1 => (1usize..400, any::<bool>()).prop_map(|(n, close)| format!("{}1{}", "(".repeat(n), if close { ")".repeat(n) } else { String::new() })),
            1 => prop::collection::vec(prop_oneof![Just('+'), Just('*'), Just('?')], 0..12).prop_map(|v| format!("1{}", v.into_iter().collect::<String>())),
        ].prop_map(|s| SoupCase { s })
    }, check_soup);
}


// ---------------------------------------------------------- nested repetition: termination

/// A leaf wrapped in many repetition operators (optionally alternated with a second leaf on the
/// way): matching must finish (the property says "parsing and matching always terminate") and
/// agree with the regular language.
#[derive(Clone, Debug, Serialize, Deserialize)]
struct NestCase {
    leaf: Pred,
    other: Pred,
    /// 0 '?', 1 '+', 2 '*', 3 '| other' around the expression so far
    ops: Vec<u8>,
    hops: Vec<Hop>,
}

const NEST_BUDGET: std::time::Duration = std::time::Duration::from_secs(20);

/// set once a case did not finish: its thread keeps a core busy, the remaining cases are skipped
static NEST_GAVE_UP: std::sync::atomic::AtomicBool = std::sync::atomic::AtomicBool::new(false);

fn check_nested(c: &NestCase, obs: &mut Obs) -> CheckResult {
    if NEST_GAVE_UP.load(std::sync::atomic::Ordering::Relaxed) {
        obs.label("skipped-after-non-termination");
        return Ok(());
    }
    let mut pat = Pat::P(c.leaf);
    for o in &c.ops {
        pat = match o % 4 {
            0 => Pat::Opt(Box::new(pat)),
            1 => Pat::Plus(Box::new(pat)),
            2 => Pat::Star(Box::new(pat)),
            _ => Pat::Or(Box::new(pat), Box::new(Pat::P(c.other))),
        };
    }
    let seq = vec![pat];
    let text = rp::show_seq(&seq, &mut 0);
    let sh = sut_hops(&c.hops);
    // the SUT runs in a helper thread: a run that is still going after 30 s (the repaired matcher
    // needs milliseconds; the doubling-per-level one needs longer than any budget from ~35 levels
    // on) is reported as non-termination
    let (tx, rx) = std::sync::mpsc::channel();
    let t2 = text.clone();
    std::thread::Builder::new().stack_size(64 << 20).spawn(move || {
        let r = std::panic::catch_unwind(|| HopPatternPolicy::parse(&t2).map(|p| p.matches(&sh)).map_err(|e| format!("{e:?}")));
        let _ = tx.send(r.map_err(|_| ()));
    }).map_err(|e| Fail::new("harness:spawn", e.to_string()))?;
    let got = match rx.recv_timeout(NEST_BUDGET) {
        Ok(Ok(Ok(b))) => b,
        Ok(Ok(Err(e))) => return Err(Fail::new("nested-pattern-rejected", format!("{} nested operators: {e}", c.ops.len()))),
        Ok(Err(())) => return Err(Fail::new("panic:nested-pattern", format!("panic while parsing/matching a pattern of {} nested operators", c.ops.len()))),
        Err(_) => {
            NEST_GAVE_UP.store(true, std::sync::atomic::Ordering::Relaxed);
            return Err(Fail::new("matching-does-not-finish:nested-repetition", format!("pattern of {} nested operators ({} characters) on {} hops still running after {NEST_BUDGET:?}", c.ops.len(), text.len(), c.hops.len())));
        }
    };
    let want = rp::pattern_matches_nfa(&seq, &c.hops);
    ensure!(got == want, if want { "pattern-false-negative" } else { "pattern-false-positive" }, "{} nested operators on hops {:?}: SUT {got}, regular language {want}", c.ops.len(), c.hops);
    obs.label(format!("nested-depth-{}", (c.ops.len() / 16) * 16));
    obs.nontrivial(&(&c.ops, &c.hops, c.leaf, c.other));
    Ok(())
}

fn run_nested(ctx: &Ctx) {
    // enumerated from a counter (no shrinking: every shrink step of a non-terminating case would
    // wait for the budget again)
    let n = ctx.tier.pick(3_000u64, 100_000);
    let alpha = pred_alphabet();
    let seed = ctx.seed;
    ctx.run_enum("patterns-nested-repetition", n, false, |i| {
        let mut x = (i.wrapping_mul(0x9e3779b97f4a7c15) ^ seed.wrapping_mul(0xd1342543de82ef95)) | 1;
        let mut nx = || { x ^= x << 13; x ^= x >> 7; x ^= x << 17; x };
        let depth = 13 + (nx() % 52) as usize;
        let ops: Vec<u8> = (0..depth).map(|_| { let r = nx() % 8; if r < 6 { (r % 3) as u8 } else { 3 } }).collect();
        let hl = [0usize, 0, 1, 2, 3, 5, 8, 13, 20][(nx() % 9) as usize];
        let hops = if hl == 0 { vec![] } else { hop_seq(nx() % hop_seq_count(hl.min(15)), hl) };
        Some(NestCase { leaf: alpha[(nx() % alpha.len() as u64) as usize], other: alpha[(nx() % alpha.len() as u64) as usize], ops, hops })
    }, check_nested);
}

// ---------------------------------------------------------- extreme nesting: no stack overflow

/// A stack overflow aborts the process and cannot be caught: the probe runs in a child process
/// (this binary with `--probe-nesting`), on its main thread with the default stack.
#[derive(Clone, Debug, Serialize, Deserialize)]
struct DeepCase {
    /// 0 parentheses, 1 alternation chain, 2 stacked postfix operators, 3 long sequence,
    /// 4 parenthesised postfix tower "((1*)*)*"
    kind: u8,
    n: u32,
}

fn deep_text(kind: u8, n: usize) -> String {
    match kind % 5 {
        0 => format!("{}1{}", "(".repeat(n), ")".repeat(n)),
        1 => vec!["1"; n.max(1)].join("|"),
        2 => format!("1{}", "*+?".repeat(n / 3 + 1)),
        3 => vec!["1"; n.max(1)].join(" "),
        _ => format!("{}1{}", "(".repeat(n), "*)".repeat(n)),
    }
}

fn probe_nesting_child(kind: u8, n: usize) {
    let s = deep_text(kind, n);
    match HopPatternPolicy::parse(&s) {
        Ok(p) => {
            let q = p.clone();
            let m = p.matches(&[]) as u8 + q.matches(&sut_hops(&conc_seq(0x1b, 3))) as u8;
            drop(p);
            println!("parsed {m}");
        }
        Err(e) => println!("rejected {}", e.report(&s).len()),
    }
}

fn check_deep(c: &DeepCase, obs: &mut Obs) -> CheckResult {
    let exe = std::env::current_exe().map_err(|e| Fail::new("harness:current-exe", e.to_string()))?;
    let out = std::process::Command::new(exe)
        .args(["--probe-nesting", &c.kind.to_string(), &c.n.to_string()])
        .env_remove("VERIF_PART")
        .output()
        .map_err(|e| Fail::new("harness:spawn-child", e.to_string()))?;
    let stdout = String::from_utf8_lossy(&out.stdout);
    let stderr = String::from_utf8_lossy(&out.stderr);
    if !out.status.success() {
        let what = if stderr.contains("stack overflow") { "stack-overflow" } else if stderr.contains("panicked") { "panic" } else { "abnormal-exit" };
        return Err(Fail::new(format!("{what}:extremely-nested-pattern:kind-{}", c.kind % 5), format!("pattern kind {} with n={} ({} characters): child ended with {:?}; stderr: {}", c.kind % 5, c.n, deep_text(c.kind, c.n as usize).len(), out.status, stderr.lines().last().unwrap_or(""))));
    }
    obs.label(if stdout.starts_with("parsed") { "deep-pattern-parsed" } else { "deep-pattern-rejected" });
    obs.nontrivial(&(c.kind % 5, c.n));
    Ok(())
}

fn run_deep(ctx: &Ctx) {
    let sizes: Vec<u32> = ctx.tier.pick(vec![100, 255, 256, 257, 1_000, 10_000, 100_000, 1_000_000], vec![100, 200, 255, 256, 257, 300, 1_000, 3_000, 10_000, 30_000, 100_000, 300_000, 1_000_000, 3_000_000]);
    let cases: Vec<DeepCase> = (0..5u8).flat_map(|k| sizes.iter().map(move |n| DeepCase { kind: k, n: *n })).collect();
    ctx.run_list("patterns-extreme-nesting", &cases, check_deep);
}

fn post(ctx: &Ctx) {
    ctx.require_label("pattern-tricky", 100);
    ctx.require_label("acl-decided-by-non-first-entry", 100);
    ctx.require_label("soup-pattern-accepted", 100);
}

fn main() {
    let args: Vec<String> = std::env::args().collect();
    if args.get(1).map(|a| a == "--probe-nesting").unwrap_or(false) {
        probe_nesting_child(args[2].parse().unwrap_or(0), args[3].parse().unwrap_or(0));
        return;
    }
    let subs = [
        Sub { name: "predicates-exhaustive", run: run_preds, replay: |c, v| c.replay_case::<PredCase>("predicates", v, check_pred) },
        Sub { name: "predicates-random", run: |_| {}, replay: |c, v| c.replay_case::<PredCase>("predicates", v, check_pred) },
        Sub { name: "acl-exhaustive", run: run_acl, replay: |c, v| c.replay_case::<AclCase>("acl", v, check_acl) },
        Sub { name: "acl-random", run: |_| {}, replay: |c, v| c.replay_case::<AclCase>("acl", v, check_acl) },
        Sub { name: "patterns-exh-depth2", run: run_patterns, replay: |c, v| c.replay_case::<PatCase>("patterns", v, check_pattern) },
        Sub { name: "patterns-exh-sequences", run: |_| {}, replay: |c, v| c.replay_case::<PatCase>("patterns", v, check_pattern) },
        Sub { name: "patterns-exh-depth3", run: |_| {}, replay: |c, v| c.replay_case::<PatCase>("patterns", v, check_pattern) },
        Sub { name: "patterns-random", run: |_| {}, replay: |c, v| c.replay_case::<PatCase>("patterns", v, check_pattern) },
        Sub { name: "patterns-nested-repetition", run: run_nested, replay: |c, v| c.replay_case::<NestCase>("nested", v, check_nested) },
        Sub { name: "patterns-extreme-nesting", run: run_deep, replay: |c, v| c.replay_case::<DeepCase>("deep", v, check_deep) },
        Sub { name: "parser-soup", run: run_soup, replay: |c, v| c.replay_case::<SoupCase>("parser-soup", v, check_soup) },
    ];
    vcore::main(
        "C16",
        "cases = (policy, set of hop sequences). ACLs: all with <=3 entries over 6 predicates x {allow,deny} + default, each against all hop sequences of length 1..4 over 4 concrete hops (exhaustive), plus random ACLs up to 8 entries; built through the struct API and through parse(). Hop patterns: all ASTs of depth<=2 over 3 predicates and all top-level sequences of <=3 depth-1 items, each against all 1364 hop sequences of length 1..5 (exhaustive; depth 3 in thorough), random deeper ASTs x random sequences up to 10 hops; every pattern is printed canonically and with random redundant parentheses/whitespace. Oracles: first-match ACL semantics executed literally; regular-language membership by Brzozowski derivatives; HopPredicate display/parse round trip and documented matching semantics; PathPolicy::path_allowed agrees with matches() on a ScionPath carrying the same hops. Non-trivial = pattern with nested repetition or nullable body under +/* or a top-level sequence; ACL whose verdict for some hop is decided by a non-first entry; accepted parser soup.",
        &["empty hop sequences are not generated (unreachable from real paths)", "patterns are built through parse() because the AST type is private"],
        &subs,
        post,
    );
}
