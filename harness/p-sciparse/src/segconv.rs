//! Conversion of reference segments (`refmodel::topo::Seg`) into sciparse path segments, and of
//! sciparse `ScionPath`s back into plain hop sequences.

use refmodel::topo::{Seg, Topo};
use sciparse::{
    dataplane_path::standard::types::HopFieldMac,
    identifier::isd_asn::IsdAsn,
    path::ScionPath,
    segment::{AsEntry, HopEntry, PeerEntry, SegmentHopField, UnsignedPathSegment},
};

pub fn sut_segment(t: &Topo, s: &Seg) -> UnsignedPathSegment {
    let n = s.chain.hops.len();
    let entries = s
        .chain
        .hops
        .iter()
        .enumerate()
        .map(|(i, h)| AsEntry {
            local: IsdAsn(t.ases[h.asn].ia),
            next: if i + 1 < n { IsdAsn(t.ases[s.chain.hops[i + 1].asn].ia) } else { IsdAsn(0) },
            mtu: s.as_mtu[i] as u32,
            hop_entry: HopEntry { ingress_mtu: s.ingress_mtu[i], hop_field: SegmentHopField { expiration_units: h.exp, cons_ingress: h.ing, cons_egress: h.eg, mac: HopFieldMac(h.mac) } },
            peer_entries: h
                .peers
                .iter()
                .enumerate()
                .map(|(pi, p)| PeerEntry { peer: IsdAsn(t.ases[p.peer_asn].ia), peer_interface: p.remote_if, peer_mtu: s.peer_mtu[i][pi], hop_field: SegmentHopField { expiration_units: p.exp, cons_ingress: p.ing, cons_egress: h.eg, mac: HopFieldMac(p.mac) } })
                .collect(),
            extensions: vec![],
            unsigned_extensions: vec![],
        })
        .collect();
    UnsignedPathSegment::new(s.chain.ts, s.chain.seg_id, entries)
}

/// (ia, ingress, egress) per AS from the path metadata's interface list; None if the list is not
/// of the form  eg0, (in,eg)*, in_last  with both interfaces of a pair in the same AS
pub fn hops_of(p: &ScionPath) -> Option<Vec<(u64, u16, u16)>> {
    let ifs = p.metadata()?.interfaces.as_ref()?;
    if ifs.len() < 2 || ifs.len() % 2 != 0 {
        return None;
    }
    let mut out = vec![(ifs[0].interface.isd_asn.0, 0u16, ifs[0].interface.id)];
    for pair in ifs[1..ifs.len() - 1].chunks(2) {
        if pair[0].interface.isd_asn != pair[1].interface.isd_asn {
            return None;
        }
        out.push((pair[0].interface.isd_asn.0, pair[0].interface.id, pair[1].interface.id));
    }
    let l = &ifs[ifs.len() - 1];
    out.push((l.interface.isd_asn.0, l.interface.id, 0));
    Some(out)
}
