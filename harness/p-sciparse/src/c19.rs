//! C19 — path combination tolerates arbitrary segment sets from the control plane.

use std::collections::BTreeSet;

use p_sciparse::{segconv, spec as sp, topogen::{self, TopoSpec}};
use proptest::prelude::*;
use refmodel::{topo::{self, BeaconParams}, wire as rw};
use sciparse::{
    core::{convert::ToModel, encode::WireEncode, view::View},
    dataplane_path::{standard::{types::HopFieldMac, view::StandardPathView}, view::ScionDpPathView},
    identifier::isd_asn::IsdAsn,
    path::{ScionPath, combinator::combine},
    segment::{AsEntry, HopEntry, PeerEntry, SegmentHopField, UnsignedPathSegment},
};
use serde::{Deserialize, Serialize};
use vcore::{CheckResult, Ctx, Fail, Obs, Sub, ensure};

/// one structural mutation of the segment lists
#[derive(Clone, Debug, Serialize, Deserialize)]
enum Mut {
    DeleteEntry { seg: u16, at: u16 },
    DuplicateEntry { seg: u16, at: u16 },
    SwapEntries { seg: u16, a: u16, b: u16 },
    ReverseEntries { seg: u16 },
    ZeroInterfaces { seg: u16, at: u16, which: u8 },
    ZeroAllInterfaces { seg: u16 },
    AliasInterfaces { seg: u16, value: u16 },
    RepeatAs { seg: u16, from: u16, to: u16 },
    FirstEqualsLast { seg: u16 },
    CrossWirePeer { seg: u16, at: u16, peer_ia: u64, peer_if: u16, local_if: u16 },
    DropPeers { seg: u16 },
    Truncate { seg: u16, len: u16 },
    EmptySegment,
    SingleEntry { seg: u16, at: u16 },
    Mtu { seg: u16, at: u16, value: u32, ingress: u16 },
    Oversize { seg: u16, total: u16 },
    MoveToOtherList { seg: u16 },
    DuplicateSegment { seg: u16 },
    WrongLocalIa { seg: u16, at: u16, ia: u64 },
    ZeroTimestamp { seg: u16 },
}

#[derive(Clone, Debug, Serialize, Deserialize)]
struct Case {
    topo: TopoSpec,
    bseed: u64,
    pair: (u16, u16),
    muts: Vec<Mut>,
    /// additionally: random soup segments (count, seed)
    soup: (u8, u64),
}

fn soup_segment(seed: u64, ias: &[u64]) -> UnsignedPathSegment {
    let r = sp::fill(64, seed);
    let n = (r[0] % 6) as usize; // 0..5 entries
    let mut entries = vec![];
    for i in 0..n {
        let b = &r[1 + i * 9..];
        let pick = |x: u8| ias[(x as usize) % ias.len()];
        let small = |x: u8| [0u16, 1, 2, 3, 65535][(x % 5) as usize];
        entries.push(AsEntry {
            local: IsdAsn(if b[0] % 7 == 0 { 0 } else { pick(b[0]) }),
            next: IsdAsn(pick(b[1])),
            mtu: [0u32, 1280, 1472, 65535, 65536, u32::MAX][(b[2] % 6) as usize],
            hop_entry: HopEntry { ingress_mtu: small(b[3]), hop_field: SegmentHopField { expiration_units: b[4], cons_ingress: small(b[5]), cons_egress: small(b[6]), mac: HopFieldMac([b[7]; 6]) } },
            peer_entries: if b[8] % 3 == 0 { vec![PeerEntry { peer: IsdAsn(pick(b[8] / 3)), peer_interface: small(b[7]), peer_mtu: small(b[6]), hop_field: SegmentHopField { expiration_units: b[4], cons_ingress: small(b[3]), cons_egress: small(b[6]), mac: HopFieldMac([b[2]; 6]) } }] } else { vec![] },
            extensions: vec![],
            unsigned_extensions: vec![],
        });
    }
    UnsignedPathSegment::new(u32::from_be_bytes([r[60], r[61], r[62], r[63]]), u16::from_be_bytes([r[58], r[59]]), entries)
}

fn apply(m: &Mut, cores: &mut Vec<UnsignedPathSegment>, ncs: &mut Vec<UnsignedPathSegment>) {
    let total = cores.len() + ncs.len();
    let pick = |i: u16, total: usize| vcore::idx(i, total.max(1));
    macro_rules! seg {
        ($i:expr) => {{
            let k = pick($i, total);
            if total == 0 { return; }
            if k < cores.len() { &mut cores[k] } else { &mut ncs[k - cores.len()] }
        }};
    }
    match m {
        Mut::DeleteEntry { seg, at } => { let s = seg!(*seg); if !s.as_entries.is_empty() { let i = pick(*at, s.as_entries.len()); s.as_entries.remove(i); } }
        Mut::DuplicateEntry { seg, at } => { let s = seg!(*seg); if !s.as_entries.is_empty() { let i = pick(*at, s.as_entries.len()); let e = s.as_entries[i].clone(); s.as_entries.insert(i, e); } }
        Mut::SwapEntries { seg, a, b } => { let s = seg!(*seg); let n = s.as_entries.len(); if n >= 2 { s.as_entries.swap(pick(*a, n), pick(*b, n)); } }
        Mut::ReverseEntries { seg } => { seg!(*seg).as_entries.reverse(); }
        Mut::ZeroInterfaces { seg, at, which } => { let s = seg!(*seg); if !s.as_entries.is_empty() { let i = pick(*at, s.as_entries.len()); let h = &mut s.as_entries[i].hop_entry.hop_field; if which & 1 == 1 { h.cons_ingress = 0; } if which & 2 == 2 { h.cons_egress = 0; } } }
        Mut::ZeroAllInterfaces { seg } => { for e in seg!(*seg).as_entries.iter_mut() { e.hop_entry.hop_field.cons_ingress = 0; e.hop_entry.hop_field.cons_egress = 0; for p in e.peer_entries.iter_mut() { p.hop_field.cons_ingress = 0; p.peer_interface = 0; } } }
        Mut::AliasInterfaces { seg, value } => { for e in seg!(*seg).as_entries.iter_mut() { if e.hop_entry.hop_field.cons_ingress != 0 { e.hop_entry.hop_field.cons_ingress = *value; } if e.hop_entry.hop_field.cons_egress != 0 { e.hop_entry.hop_field.cons_egress = *value; } } }
        Mut::RepeatAs { seg, from, to } => { let s = seg!(*seg); let n = s.as_entries.len(); if n >= 2 { let ia = s.as_entries[pick(*from, n)].local; s.as_entries[pick(*to, n)].local = ia; } }
        Mut::FirstEqualsLast { seg } => { let s = seg!(*seg); if s.as_entries.len() >= 2 { let ia = s.as_entries[0].local; s.as_entries.last_mut().unwrap().local = ia; } }
        Mut::CrossWirePeer { seg, at, peer_ia, peer_if, local_if } => { let s = seg!(*seg); if !s.as_entries.is_empty() { let i = pick(*at, s.as_entries.len()); let eg = s.as_entries[i].hop_entry.hop_field.cons_egress; s.as_entries[i].peer_entries.push(PeerEntry { peer: IsdAsn(*peer_ia), peer_interface: *peer_if, peer_mtu: 1400, hop_field: SegmentHopField { expiration_units: 63, cons_ingress: *local_if, cons_egress: eg, mac: HopFieldMac([9; 6]) } }); } }
        Mut::DropPeers { seg } => { for e in seg!(*seg).as_entries.iter_mut() { e.peer_entries.clear(); } }
        Mut::Truncate { seg, len } => { let s = seg!(*seg); let n = s.as_entries.len(); s.as_entries.truncate(pick(*len, n + 1)); }
        Mut::EmptySegment => { ncs.push(UnsignedPathSegment::new(1, 2, vec![])); cores.push(UnsignedPathSegment::new(3, 4, vec![])); }
        Mut::SingleEntry { seg, at } => { let s = seg!(*seg); if !s.as_entries.is_empty() { let i = pick(*at, s.as_entries.len()); let e = s.as_entries[i].clone(); s.as_entries = vec![e]; } }
        Mut::Mtu { seg, at, value, ingress } => { let s = seg!(*seg); if !s.as_entries.is_empty() { let i = pick(*at, s.as_entries.len()); s.as_entries[i].mtu = *value; s.as_entries[i].hop_entry.ingress_mtu = *ingress; } }
        Mut::Oversize { seg, total: want } => { let s = seg!(*seg); let n = s.as_entries.len(); if n >= 2 { let mid = s.as_entries[n / 2].clone(); let want = 64 + (*want as usize % 17); while s.as_entries.len() < want { let mut e = mid.clone(); e.local = IsdAsn(e.local.0 ^ ((s.as_entries.len() as u64) << 8)); s.as_entries.insert(n / 2, e); } } }
        Mut::MoveToOtherList { seg } => { let k = pick(*seg, total); if total == 0 { return; } if k < cores.len() { let s = cores.remove(k); ncs.push(s); } else { let s = ncs.remove(k - cores.len()); cores.push(s); } }
        Mut::DuplicateSegment { seg } => { let k = pick(*seg, total); if total == 0 { return; } if k < cores.len() { let s = cores[k].clone(); cores.push(s); } else { let s = ncs[k - cores.len()].clone(); ncs.insert(0, s); } }
        Mut::WrongLocalIa { seg, at, ia } => { let s = seg!(*seg); if !s.as_entries.is_empty() { let i = pick(*at, s.as_entries.len()); s.as_entries[i].local = IsdAsn(*ia); } }
        Mut::ZeroTimestamp { seg } => { let s = seg!(*seg); *s = UnsignedPathSegment::new(0, s.info().segment_id, s.as_entries.clone()); }
    }
}

fn iface_seq(p: &ScionPath) -> Option<Vec<(u64, u16)>> {
    Some(p.metadata()?.interfaces.as_ref()?.iter().map(|i| (i.interface.isd_asn.0, i.interface.id)).collect())
}

/// every returned path must be self-consistent
fn check_path(pi: usize, p: &ScionPath) -> CheckResult {
    let dp = p.dp_path();
    let ScionDpPathView::Standard(view) = dp else {
        return Err(Fail::new("returned-path-not-standard", format!("path {pi} has a non-standard dataplane path")));
    };
    let bytes = view.as_slice();
    let (v2, rest) = StandardPathView::try_from_slice(bytes).map_err(|e| Fail::new("returned-path-does-not-parse", format!("path {pi}: {e}")))?;
    ensure!(rest.is_empty(), "returned-path-does-not-parse", "path {pi}: {} bytes rest", rest.len());
    let model = v2.to_model();
    let enc = model.try_encode_to_vec().map_err(|e| Fail::new("returned-path-does-not-reencode", format!("path {pi}: {e}")))?;
    ensure!(enc == bytes, "returned-path-does-not-reencode", "path {pi}: re-encoding differs");
    let r = rw::decode_std_path(bytes).map_err(|e| Fail::new("returned-path-rejected-by-reference-decoder", format!("path {pi}: {e:?}")))?.0;
    ensure!(r.curr_hf == 0 && r.curr_inf == 0, "returned-path-pointers-not-at-start", "path {pi}: CurrINF/CurrHF = {}/{}", r.curr_inf, r.curr_hf);
    let nz = r.seg_len.iter().take_while(|l| **l > 0).count();
    ensure!(nz >= 1 && r.seg_len.iter().skip(nz).all(|l| *l == 0), "returned-path-segment-lengths", "path {pi}: segment lengths {:?}", r.seg_len);
    // metadata
    let ifs = iface_seq(p).ok_or_else(|| Fail::new("returned-path-without-interfaces", format!("path {pi} has no interface metadata")))?;
    ensure!(!ifs.is_empty(), "returned-path-without-interfaces", "path {pi}: empty interface list");
    ensure!(p.src_ia().0 == ifs[0].0 && p.dst_ia().0 == ifs[ifs.len() - 1].0, "endpoints-differ-from-interface-list", "path {pi}: {} -> {} but interfaces start at {:x} and end at {:x}", p.src_ia(), p.dst_ia(), ifs[0].0, ifs[ifs.len() - 1].0);
    // expiry = earliest hop expiry
    let mut best = u32::MAX;
    let mut k = 0;
    for (si, info) in r.infos.iter().enumerate() {
        let l = r.seg_len[si] as usize;
        for h in &r.hops[k..k + l] { best = best.min(info.ts.saturating_add(((h.exp as u64 + 1) * 675 / 2) as u32)); }
        k += l;
    }
    ensure!(p.expiration() == Some(best) && p.metadata().map(|m| m.expiration) == Some(best as u64), "expiry-not-earliest-hop-expiry", "path {pi}: expiration {:?}, earliest hop expiry {best}", p.expiration());
    // interface ids of the metadata list are those of the hop fields: every non-zero interface
    // named by the metadata must occur in a hop field, in order
    let mut hop_ifs: Vec<u16> = vec![];
    let mut k = 0;
    for (si, info) in r.infos.iter().enumerate() {
        let l = r.seg_len[si] as usize;
        for h in &r.hops[k..k + l] { let (a, b) = if info.cons_dir() { (h.ing, h.eg) } else { (h.eg, h.ing) }; hop_ifs.push(a); hop_ifs.push(b); }
        k += l;
    }
    let mut it = hop_ifs.iter();
    for (ia, id) in &ifs {
        ensure!(it.any(|x| x == id), "metadata-interfaces-not-a-subsequence-of-hop-fields", "path {pi}: interface {ia:x}#{id} of the metadata is not found (in order) among the hop field interfaces {hop_ifs:?}; metadata {ifs:?}");
    }
    Ok(())
}

fn check(c: &Case, obs: &mut Obs) -> CheckResult {
    let t = c.topo.build();
    let (cs, ns) = topo::beacons(&t, &BeaconParams { ts: 1_700_000_000, seed: c.bseed, exp: None }, 5);
    let n = t.ases.len();
    let (src, dst) = (vcore::idx(c.pair.0, n), vcore::idx(c.pair.1, n));
    let (sia, dia) = (IsdAsn(t.ases[src].ia), IsdAsn(t.ases[dst].ia));
    let v_cores: Vec<UnsignedPathSegment> = cs.iter().map(|s| segconv::sut_segment(&t, s)).collect();
    let v_ncs: Vec<UnsignedPathSegment> = ns.iter().filter(|s| s.last_as() == src || s.last_as() == dst).map(|s| segconv::sut_segment(&t, s)).collect();
    // baseline on the valid set
    let base = vcore::no_panic("combine(valid)", || combine(sia, dia, v_cores.clone(), v_ncs.clone()))?;
    let base_set: BTreeSet<Vec<(u64, u16)>> = base.iter().filter_map(iface_seq).collect();
    // mutated copy + soup appended (junk J)
    let (mut mc, mut mn) = (v_cores.clone(), v_ncs.clone());
    for m in &c.muts { apply(m, &mut mc, &mut mn); }
    let ias: Vec<u64> = t.ases.iter().map(|a| a.ia).collect();
    for i in 0..c.soup.0 { let s = soup_segment(c.soup.1 ^ (i as u64) << 20, &ias); if i % 2 == 0 { mn.push(s) } else { mc.push(s) } }
    let mutated = vcore::no_panic("combine(mutated)", || combine(sia, dia, mc.clone(), mn.clone()))?;
    for (pi, p) in mutated.iter().enumerate() { check_path(pi, p)?; }
    obs.evals(1 + mutated.len() as u64);
    obs.label(if mutated.is_empty() { "mutated-no-path" } else { "mutated-some-path" });
    for m in &c.muts { obs.label(format!("mut-{}", format!("{m:?}").split([' ', '{']).next().unwrap_or("?"))); }
    if !mutated.is_empty() && (!c.muts.is_empty() || c.soup.0 > 0) { obs.nontrivial(&(&c.topo, c.pair, vcore::hash64(&format!("{:?}", c.muts)), c.soup)); }
    // metamorphic: junk next to the valid set does not remove paths: paths(V) subset-of paths(V u J)
    let (mut uc, mut un) = (v_cores.clone(), v_ncs.clone());
    uc.extend(mc.iter().cloned());
    un.extend(mn.iter().cloned());
    let union = vcore::no_panic("combine(valid+junk)", || combine(sia, dia, uc, un))?;
    for (pi, p) in union.iter().enumerate() { check_path(pi, p)?; }
    let union_set: BTreeSet<Vec<(u64, u16)>> = union.iter().filter_map(iface_seq).collect();
    for s in &base_set {
        ensure!(union_set.contains(s), "junk-segments-remove-a-valid-path", "{sia}->{dia}: path {s:?} is returned for the valid set but not when junk segments are added ({} vs {} paths)", base_set.len(), union_set.len());
    }
    if !base_set.is_empty() { obs.label("baseline-has-paths"); }
    Ok(())
}

fn mut_strategy() -> impl Strategy<Value = Mut> {
    let s = any::<u16>;
    prop_oneof![
        (s(), s()).prop_map(|(seg, at)| Mut::DeleteEntry { seg, at }),
        (s(), s()).prop_map(|(seg, at)| Mut::DuplicateEntry { seg, at }),
        (s(), s(), s()).prop_map(|(seg, a, b)| Mut::SwapEntries { seg, a, b }),
        s().prop_map(|seg| Mut::ReverseEntries { seg }),
        (s(), s(), 1u8..4).prop_map(|(seg, at, which)| Mut::ZeroInterfaces { seg, at, which }),
        s().prop_map(|seg| Mut::ZeroAllInterfaces { seg }),
        (s(), prop_oneof![Just(1u16), Just(2), Just(65535)]).prop_map(|(seg, value)| Mut::AliasInterfaces { seg, value }),
        (s(), s(), s()).prop_map(|(seg, from, to)| Mut::RepeatAs { seg, from, to }),
        s().prop_map(|seg| Mut::FirstEqualsLast { seg }),
        (s(), s(), any::<u64>(), 0u16..4, 0u16..4).prop_map(|(seg, at, peer_ia, peer_if, local_if)| Mut::CrossWirePeer { seg, at, peer_ia: (1u64 << 48) | 0xff00_0000_0200 | (peer_ia % 4), peer_if, local_if }),
        s().prop_map(|seg| Mut::DropPeers { seg }),
        (s(), s()).prop_map(|(seg, len)| Mut::Truncate { seg, len }),
        Just(Mut::EmptySegment),
        (s(), s()).prop_map(|(seg, at)| Mut::SingleEntry { seg, at }),
        (s(), s(), prop_oneof![Just(0u32), Just(65535), Just(65536), Just(u32::MAX), Just(1279)], prop_oneof![Just(0u16), Just(1), Just(65535)]).prop_map(|(seg, at, value, ingress)| Mut::Mtu { seg, at, value, ingress }),
        (s(), s()).prop_map(|(seg, total)| Mut::Oversize { seg, total }),
        s().prop_map(|seg| Mut::MoveToOtherList { seg }),
        s().prop_map(|seg| Mut::DuplicateSegment { seg }),
        (s(), s(), any::<u64>()).prop_map(|(seg, at, ia)| Mut::WrongLocalIa { seg, at, ia: if ia % 3 == 0 { 0 } else { (1u64 << 48) | 0xff00_0000_0100 | (ia % 3) } }),
        s().prop_map(|seg| Mut::ZeroTimestamp { seg }),
    ]
}

fn run(ctx: &Ctx) {
    let n = ctx.tier.pick(60_000, 3_000_000);
    ctx.run_prop("mutated-segment-sets", n, || {
        (topogen::topo_strategy(2, 4), any::<u64>(), any::<(u16, u16)>(), prop::collection::vec(mut_strategy(), 1..6), (0u8..4, any::<u64>()))
            .prop_map(|(topo, bseed, pair, muts, soup)| Case { topo, bseed, pair, muts, soup })
    }, check);
    // every mutation operator alone on the small family (systematic)
    let fam = topogen::small_family();
    let step = ctx.tier.pick(11u64, 1);
    let off = ctx.seed % step;
    ctx.run_prop("single-mutation-on-small-topologies", ctx.tier.pick(20_000, 600_000), || {
        let fam = fam.clone();
        (any::<u16>(), mut_strategy(), any::<(u16, u16)>(), any::<u64>()).prop_map(move |(i, m, pair, bseed)| { let k = (vcore::idx(i, fam.len()) as u64 / step * step + off).min(fam.len() as u64 - 1); Case { topo: fam[k as usize].clone(), bseed, pair, muts: vec![m], soup: (0, 0) } })
    }, check);
    let n = ctx.tier.pick(30_000, 1_000_000);
    ctx.run_prop("segment-soup", n, || {
        (topogen::topo_strategy(2, 2), any::<u64>(), any::<(u16, u16)>(), (4u8..40, any::<u64>())).prop_map(|(topo, bseed, pair, soup)| Case { topo, bseed, pair, muts: vec![], soup })
    }, check);
}

fn post(ctx: &Ctx) {
    ctx.require_label("mutated-some-path", 2000);
    ctx.require_label("baseline-has-paths", 2000);
    ctx.require_label("mut-ZeroAllInterfaces", 300);
    ctx.require_label("mut-Oversize", 300);
}

fn main() {
    let subs = [
        Sub { name: "mutated-segment-sets", run, replay: |c, v| c.replay_case::<Case>("c19", v, check) },
        Sub { name: "single-mutation-on-small-topologies", run: |_| {}, replay: |c, v| c.replay_case::<Case>("c19", v, check) },
        Sub { name: "segment-soup", run: |_| {}, replay: |c, v| c.replay_case::<Case>("c19", v, check) },
    ];
    vcore::main(
        "C19",
        "cases = valid segment sets (reference beacons of generated topologies, restricted to the request) with 1-5 structural mutations (delete/duplicate/swap/reverse entries, zero or alias interface ids, repeated AS, first = last, cross-wired peer entries, truncation, empty and single-entry segments, MTUs 0/65535/65536/2^32-1, 64-80 entry segments, core given as non-core and vice versa, duplicated segments, foreign/zero ISD-AS, zero timestamp) and up to 40 random 'soup' segments. Oracle: no panic; returns (a hang is reported as inconclusive by the watchdog); every returned path parses without rest, re-encodes identically, is accepted by an independent decoder, starts at hop 0, endpoints = first/last metadata interface AS, expiry = earliest hop expiry, metadata interfaces are an in-order subsequence of the hop-field interfaces; metamorphic: every path of the valid set is still returned when the junk segments are added. Non-trivial = mutated/soup set that still yields a path; distinct by (topology, pair, mutations).",
        &["the polynomial-time clause is only checked as completion under the watchdog for sets of up to ~100 segments with up to 80 entries (no wall-clock verdicts)", "PathFetcherImpl is exercised by the scion-stack checks, not here"],
        &subs,
        post,
    );
}
