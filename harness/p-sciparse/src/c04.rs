//! C04 — path combination is sound, complete, loop-free, duplicate-free and ordered;
//! metadata tells the truth.

use std::collections::{BTreeMap, BTreeSet};

use p_sciparse::{segconv, topogen::{self, TopoSpec}};
use proptest::prelude::*;
use refmodel::{
    router,
    topo::{self, BeaconParams, RefPath, Seg, Topo},
    wire as rw,
};
use sciparse::{
    dataplane_path::view::ScionDpPathViewExt,
    identifier::isd_asn::IsdAsn,
    path::{ScionPath, combinator::combine},
    segment::UnsignedPathSegment,
};
use serde::{Deserialize, Serialize};
use vcore::{CheckResult, Ctx, Fail, Obs, Sub, ensure};

#[derive(Clone, Debug, Serialize, Deserialize)]
struct Case {
    topo: TopoSpec,
    ts: u32,
    bseed: u64,
    exp: Option<u8>,
    /// which (src,dst) pairs: None = all ordered pairs
    pair: Option<(u16, u16)>,
    /// metamorphic variant: 0 none, 1 permute, 2 duplicate the input lists, 3 add foreign non-core segments
    variant: u8,
}

type HopSeq = Vec<(u64, u16, u16)>;

fn ref_hops(t: &Topo, p: &RefPath) -> HopSeq {
    p.hops.iter().map(|(a, i, e)| (t.ases[*a].ia, *i, *e)).collect()
}

/// interface sequence encoded in the dataplane path, in travel order, crossover hops merged
fn dp_hops(bytes: &[u8]) -> Result<Vec<(u16, u16)>, String> {
    let (p, size) = rw::decode_std_path(bytes).map_err(|e| format!("{e:?}"))?;
    if size != bytes.len() {
        return Err("trailing bytes".into());
    }
    let mut out: Vec<(u16, u16)> = vec![];
    let mut k = 0usize;
    let nseg = p.infos.len();
    for (si, info) in p.infos.iter().enumerate() {
        let l = p.seg_len[si] as usize;
        for (j, h) in p.hops[k..k + l].iter().enumerate() {
            let (i, e) = if info.cons_dir() { (h.ing, h.eg) } else { (h.eg, h.ing) };
            let first_of_later_seg = j == 0 && si > 0;
            if first_of_later_seg && !info.peering() {
                // crossover: same AS as the previous hop field; its egress counts
                out.last_mut().unwrap().1 = e;
            } else {
                out.push((i, e));
            }
        }
        k += l;
        let _ = nseg;
    }
    Ok(out)
}

fn ref_expiry(bytes: &[u8]) -> u32 {
    let p = rw::decode_std_path(bytes).unwrap().0;
    let mut best = u32::MAX;
    let mut k = 0;
    for (si, info) in p.infos.iter().enumerate() {
        let l = p.seg_len[si] as usize;
        for h in &p.hops[k..k + l] {
            best = best.min(info.ts.saturating_add(((h.exp as u64 + 1) * 675 / 2) as u32));
        }
        k += l;
    }
    best
}

fn check(c: &Case, obs: &mut Obs) -> CheckResult {
    let t = c.topo.build();
    let bp = BeaconParams { ts: c.ts, seed: c.bseed, exp: c.exp };
    let (cores, non_cores) = topo::beacons(&t, &bp, 6);
    let mut all: Vec<Seg> = cores.clone();
    all.extend(non_cores.clone());
    let n = t.ases.len();
    let pairs: Vec<(usize, usize)> = match c.pair {
        Some((a, b)) => { let s = vcore::idx(a, n); let d = vcore::idx(b, n); vec![(s, d)] }
        None => (0..n).flat_map(|a| (0..n).map(move |b| (a, b))).collect(),
    };
    for (src, dst) in pairs {
        if src == dst { continue; }
        // what a control service returns for this request: up segments of src, down segments of
        // dst, core segments among the cores involved; 
        // (non-core segments whose leaf is neither endpoint are not up/down segments of this request:
        // combine() treats non-core segments symmetrically and documents no defence against them)
        let relevant = |s: &Seg| -> bool {
            if s.core {
                true
            } else {
                s.last_as() == src || s.last_as() == dst
            }
        };
        let given: Vec<Seg> = all.iter().filter(|s| relevant(s)).cloned().collect();
        let refs = topo::combine(&given, src, dst);
        let mut rset: BTreeMap<HopSeq, Vec<&RefPath>> = BTreeMap::new();
        for r in &refs { rset.entry(ref_hops(&t, r)).or_default().push(r); }
        let mut sc: Vec<UnsignedPathSegment> = given.iter().filter(|s| s.core).map(|s| segconv::sut_segment(&t, s)).collect();
        let mut sn: Vec<UnsignedPathSegment> = given.iter().filter(|s| !s.core).map(|s| segconv::sut_segment(&t, s)).collect();
        match c.variant {
            1 => { sc.reverse(); sn.reverse(); let k = sn.len() / 2; sn.rotate_left(k); }
            2 => { let d: Vec<_> = sn.iter().step_by(2).cloned().collect(); sn.extend(d); let d: Vec<_> = sc.iter().step_by(2).cloned().collect(); sc.extend(d); }
            // foreign non-core segments: they contain neither endpoint, so they can be neither the
            // first nor the last segment of a path, and only a core segment may stand in the middle:
            // the result must not change
            3 => {
                let foreign: Vec<UnsignedPathSegment> = all.iter().filter(|s| !s.core && s.chain.hops.iter().all(|h| h.asn != src && h.asn != dst)).map(|s| segconv::sut_segment(&t, s)).collect();
                if !foreign.is_empty() { obs.label("foreign-non-core-segments-added"); }
                for (i, f) in foreign.into_iter().enumerate() { if i % 2 == 0 { sn.push(f) } else { sn.insert(0, f) } }
            }
            _ => {}
        }
        let (sia, dia) = (IsdAsn(t.ases[src].ia), IsdAsn(t.ases[dst].ia));
        let paths: Vec<ScionPath> = vcore::no_panic("combine", || combine(sia, dia, sc.clone(), sn.clone()))?;
        obs.evals(1);
        let kinds: BTreeSet<&str> = refs.iter().map(|r| r.kind).collect();
        for k in &kinds { obs.label(format!("route-{k}")); }
        if refs.is_empty() { obs.label("request-no-route"); }
        if rset.len() >= 2 || kinds.iter().any(|k| matches!(*k, "shortcut" | "peering" | "on-path-up" | "on-path-down" | "core-only-inverted")) {
            obs.nontrivial(&(&c.topo, src, dst, c.variant, c.bseed));
        }
        // --- soundness / completeness / each once
        let mut sset: BTreeMap<HopSeq, usize> = BTreeMap::new();
        let mut last_links = 0usize;
        for (pi, p) in paths.iter().enumerate() {
            let hops = segconv::hops_of(p).ok_or_else(|| Fail::new("metadata-interface-list-malformed", format!("path {pi}: metadata interfaces are not a hop sequence: {:?}", p.metadata().map(|m| &m.interfaces))))?;
            ensure!(p.src_ia() == sia && p.dst_ia() == dia, "endpoints-differ-from-request", "path {pi} goes {} -> {}, requested {sia} -> {dia}", p.src_ia(), p.dst_ia());
            ensure!(hops.first().unwrap().0 == sia.0 && hops.last().unwrap().0 == dia.0, "endpoints-differ-from-request", "interface list of path {pi} starts/ends elsewhere");
            let mut seen = BTreeSet::new();
            ensure!(hops.iter().all(|h| seen.insert(h.0)), "path-visits-as-twice", "path {pi} visits an AS twice: {hops:?}");
            let links = hops.len() - 1;
            ensure!(links >= last_links, "not-ordered-by-hop-count", "path {pi} has {links} links after one with {last_links}");
            last_links = links;
            let kind = rset.get(&hops).map(|v| v[0].kind).unwrap_or("?");
            let ksig = if kind == "peering" { "peering" } else if kind == "shortcut" { "shortcut" } else { "plain" };
            // metadata tells the truth about the dataplane path
            let dp = p.dp_path().as_slice();
            let dph = dp_hops(dp).map_err(|e| Fail::new("dataplane-path-unparseable", format!("path {pi}: {e}")))?;
            let meta_ifs: Vec<(u16, u16)> = hops.iter().map(|h| (h.1, h.2)).collect();
            // at the ends the hop fields may carry the unused interface of a cut segment; only
            // the used ones are in the metadata: compare ignoring ingress of the first / egress of the last
            let mut dph2 = dph.clone();
            if let Some(f) = dph2.first_mut() { f.0 = 0; }
            if let Some(l) = dph2.last_mut() { l.1 = 0; }
            ensure!(dph2 == meta_ifs, format!("metadata-interfaces-differ-from-hop-fields:{ksig}"), "path {pi}: metadata says {meta_ifs:?}, hop fields encode {dph:?}");
            let exp = ref_expiry(dp);
            ensure!(p.expiration() == Some(exp) && p.metadata().map(|m| m.expiration) == Some(exp as u64), "expiry-not-earliest-hop-expiry", "path {pi}: expiration {:?}/{:?}, earliest hop expiry {exp}", p.expiration(), p.metadata().map(|m| m.expiration));
            match rset.get(&hops) {
                None => return Err(Fail::new("unsound-path", format!("{sia}->{dia}: returned path {hops:?} is not obtainable by the combination rules (reference has {} routes)", rset.len()))),
                Some(reps) => {
                    let mtu = reps[0].mtu;
                    ensure!(p.metadata().map(|m| m.mtu) == Some(mtu), format!("mtu-not-minimum:{ksig}"), "path {pi} {hops:?}: MTU {:?}, minimum over traversed ASes and links is {mtu}", p.metadata().map(|m| m.mtu));
                    // duplicates keep the latest expiry among equivalent combinations
                    let best = reps.iter().map(|r| { let (d, _) = topo::dataplane(&given, r); ref_expiry(&rw::encode_std_path(&d)) }).max().unwrap();
                    ensure!(exp == best, "duplicate-does-not-keep-latest-expiry", "path {hops:?}: expiry {exp}, an equivalent combination expires at {best}");
                    // and it is forwardable by the reference router along exactly these interfaces
                    let mut st = rw::decode_std_path(dp).unwrap().0;
                    let now = c.ts.saturating_add(10);
                    let w = router::walk(&t, src, 0, &mut st, dia.0, now);
                    let want: Vec<(usize, u16, u16)> = reps[0].hops.clone();
                    ensure!(w.delivered == Some(dst) && w.visited == want, format!("offered-path-not-forwardable:{ksig}"),
                        "{sia}->{dia} path {hops:?} ({kind}): reference router result delivered={:?} rejected={:?} visited={:?}", w.delivered, w.rejected, w.visited);
                }
            }
            *sset.entry(hops).or_default() += 1;
        }
        for (h, cnt) in &sset {
            ensure!(*cnt == 1, "duplicate-path", "{sia}->{dia}: path {h:?} returned {cnt} times");
        }
        for (h, reps) in &rset {
            ensure!(sset.contains_key(h), format!("missing-path:{}", reps[0].kind), "{sia}->{dia}: obtainable path {h:?} ({}) is not returned ({} returned, {} expected)", reps[0].kind, sset.len(), rset.len());
        }
    }
    Ok(())
}

fn case_strategy(big: bool) -> impl Strategy<Value = Case> {
    (if big { topogen::topo_strategy(3, 4).boxed() } else { topogen::topo_strategy(2, 3).boxed() }, prop_oneof![Just(1_700_000_000u32), 1_600_000_000u32..1_900_000_000], any::<u64>(), prop_oneof![2 => Just(None), 1 => Just(Some(63u8)), 1 => Just(Some(0u8)), 1 => Just(Some(255u8))], any::<(u16, u16)>(), 0u8..4)
        .prop_map(move |(topo, ts, bseed, exp, pair, variant)| Case { topo, ts, bseed, exp, pair: if big { Some(pair) } else { None }, variant })
}

fn run(ctx: &Ctx) {
    let fam = topogen::small_family();
    // quick: every 7th member (rotating with the seed), thorough: all
    let step = 1u64;
    let off = ctx.seed % step;
    ctx.run_enum("small-topologies-all-pairs", fam.len() as u64, step == 1, |i| (i % step == off).then(|| Case { topo: fam[i as usize].clone(), ts: 1_700_000_000, bseed: i ^ ctx.seed, exp: if i % 3 == 0 { None } else { Some(63) }, pair: None, variant: (i % 4) as u8 }), check);
    let n = ctx.tier.pick(5_000, 200_000);
    ctx.run_prop("random-topologies-all-pairs", n, || case_strategy(false), check);
    let n = ctx.tier.pick(15_000, 600_000);
    ctx.run_prop("random-large-topologies-one-pair", n, || case_strategy(true), check);
}

fn post(ctx: &Ctx) {
    ctx.require_label("route-shortcut", 50);
    ctx.require_label("route-peering", 50);
    ctx.require_label("route-up-core-down", 50);
    ctx.require_label("route-core-only-inverted", 20);
    ctx.require_label("route-on-path-up", 20);
    ctx.extra("small_family_size", vcore::serde_json::json!(topogen::small_family().len()));
}

fn main() {
    let subs = [
        Sub { name: "small-topologies-all-pairs", run, replay: |c, v| c.replay_case::<Case>("c04", v, check) },
        Sub { name: "random-topologies-all-pairs", run: |_| {}, replay: |c, v| c.replay_case::<Case>("c04", v, check) },
        Sub { name: "random-large-topologies-one-pair", run: |_| {}, replay: |c, v| c.replay_case::<Case>("c04", v, check) },
    ];
    vcore::main(
        "C04",
        "cases = (topology, beacon parameters, request(s), input variant). Topologies: a systematically enumerated family of small topologies (1-2 ISDs x 1-2 cores each x <=3 non-core ASes with every parent set of size<=2 x optional second-ISD leaf x no/one peering link at every pair x single/double links; all members in every run) and random ones up to 3 ISDs / 14 ASes / 4 peering links / parallel links with colliding interface numbers; segments = reference beacons with reference MACs (all simple down-paths from every core, all simple core paths), restricted to what a control service returns for the request (all core segments, non-core segments whose leaf is src or dst); variants permute / duplicate the input lists. Oracle: the set of interface sequences returned by combine() equals the set enumerated by a brute-force reference over the combination rules (soundness + completeness), each once, no AS twice, link counts non-decreasing, endpoints = request, metadata interface list == hop fields read by an independent decoder, MTU == minimum over traversed ASes/links, expiry == earliest hop expiry and latest among equivalent combinations, and every returned path is delivered by a reference MAC-verifying router along exactly its interface list. Non-trivial = request with >=2 routes or a shortcut/peering/on-path/inverted-core route; distinct by (topology, pair, variant, beacon seed).",
        &["segments up to 6 ASes long (beacon depth bound)", "tie order among equally long paths is not asserted"],
        &subs,
        post,
    );
}
