pub mod segconv;
pub mod spec;
pub mod topogen;
