pub mod spec;
