//! C15 — address and identifier text forms round-trip, reject the rest, never panic.
//! (sciparse part; the DNS TXT part lives in p-stack because it needs scion-stack.)

use std::{fmt::Display, net::{Ipv4Addr, Ipv6Addr}, str::FromStr};

use proptest::prelude::*;
use refmodel::text::{self as rt, HostKinds, RHost};
use sciparse::{
    address::{
        addr::{ScionAddr, ScionAddrSvc, ScionAddrV4, ScionAddrV6},
        host_addr::{ScionHostAddr, ServiceAddr},
        ip_addr::ScionIpAddr,
        ip_socket_addr::ScionSocketIpAddr,
        socket_addr::{ScionSocketAddr, ScionSocketAddrSvc, ScionSocketAddrV4, ScionSocketAddrV6},
    },
    identifier::{asn::Asn, isd::Isd, isd_asn::IsdAsn},
};
use serde::{Deserialize, Serialize};
use vcore::{CheckResult, Ctx, Fail, Obs, Sub, ensure, serde_json::Value};

/// Normal form of a parsed value, comparable between SUT and reference.
#[derive(Debug, PartialEq, Eq, Clone, Copy, Default)]
struct Norm {
    isd: Option<u16>,
    asn: Option<u64>,
    host: Option<RHost>,
    port: Option<u16>,
}

fn nh(h: ScionHostAddr) -> RHost {
    match h {
        ScionHostAddr::V4(a) => RHost::V4(a.octets()),
        ScionHostAddr::V6(a) => RHost::V6(a.octets()),
        ScionHostAddr::Svc(s) => RHost::Svc(s.0),
    }
}
fn nia(ia: IsdAsn) -> (Option<u16>, Option<u64>) {
    (Some(ia.isd().0), Some(ia.asn().0))
}

const TYPES: &[&str] = &[
    "Isd", "Asn", "IsdAsn", "ServiceAddr", "ScionHostAddr", "ScionAddr", "ScionAddrV4", "ScionAddrV6",
    "ScionAddrSvc", "ScionIpAddr", "ScionSocketAddr", "ScionSocketAddrV4", "ScionSocketAddrV6",
    "ScionSocketAddrSvc", "ScionSocketIpAddr",
];

/// Parses with the SUT and re-displays; returns (normal form, displayed form)
fn sut_parse(ty: &str, s: &str) -> Option<(Norm, String)> {
    fn via<T: FromStr + Display>(s: &str, f: impl Fn(&T) -> Norm) -> Option<(Norm, String)> {
        s.parse::<T>().ok().map(|v| (f(&v), v.to_string()))
    }
    fn addr_n(ia: IsdAsn, h: ScionHostAddr) -> Norm {
        let (isd, asn) = nia(ia);
        Norm { isd, asn, host: Some(nh(h)), port: None }
    }
    fn sock_n(ia: IsdAsn, h: ScionHostAddr, p: u16) -> Norm {
        let (isd, asn) = nia(ia);
        Norm { isd, asn, host: Some(nh(h)), port: Some(p) }
    }
    match ty {
        "Isd" => via::<Isd>(s, |v| Norm { isd: Some(v.0), ..Default::default() }),
        "Asn" => via::<Asn>(s, |v| Norm { asn: Some(v.0), ..Default::default() }),
        "IsdAsn" => via::<IsdAsn>(s, |v| { let (isd, asn) = nia(*v); Norm { isd, asn, ..Default::default() } }),
        "ServiceAddr" => via::<ServiceAddr>(s, |v| Norm { host: Some(RHost::Svc(v.0)), ..Default::default() }),
        "ScionHostAddr" => via::<ScionHostAddr>(s, |v| Norm { host: Some(nh(*v)), ..Default::default() }),
        "ScionAddr" => via::<ScionAddr>(s, |v| addr_n(v.isd_asn(), v.host())),
        "ScionAddrV4" => via::<ScionAddrV4>(s, |v| addr_n(v.isd_asn, v.host.into())),
        "ScionAddrV6" => via::<ScionAddrV6>(s, |v| addr_n(v.isd_asn, v.host.into())),
        "ScionAddrSvc" => via::<ScionAddrSvc>(s, |v| addr_n(v.isd_asn, v.host.into())),
        "ScionIpAddr" => via::<ScionIpAddr>(s, |v| addr_n(v.isd_asn(), v.host())),
        "ScionSocketAddr" => via::<ScionSocketAddr>(s, |v| sock_n(v.isd_asn(), v.host(), v.port())),
        "ScionSocketAddrV4" => via::<ScionSocketAddrV4>(s, |v| sock_n(v.isd_asn, v.host.into(), v.port)),
        "ScionSocketAddrV6" => via::<ScionSocketAddrV6>(s, |v| sock_n(v.isd_asn, v.host.into(), v.port)),
        "ScionSocketAddrSvc" => via::<ScionSocketAddrSvc>(s, |v| sock_n(v.isd_asn, v.host.into(), v.port)),
        "ScionSocketIpAddr" => via::<ScionSocketIpAddr>(s, |v| sock_n(v.isd_asn(), v.scion_addr().host(), v.port())),
        _ => unreachable!("unknown type {ty}"),
    }
}

fn ref_parse(ty: &str, s: &str) -> Option<Norm> {
    let a = |k| rt::addr(s, k).map(|(i, a, h)| Norm { isd: Some(i), asn: Some(a), host: Some(h), port: None });
    let so = |k| rt::sockaddr(s, k).map(|(i, a, h, p)| Norm { isd: Some(i), asn: Some(a), host: Some(h), port: Some(p) });
    match ty {
        "Isd" => rt::isd(s).map(|v| Norm { isd: Some(v), ..Default::default() }),
        "Asn" => rt::asn(s).map(|v| Norm { asn: Some(v), ..Default::default() }),
        "IsdAsn" => rt::isd_asn(s).map(|(i, a)| Norm { isd: Some(i), asn: Some(a), ..Default::default() }),
        "ServiceAddr" => rt::svc(s).map(|v| Norm { host: Some(RHost::Svc(v)), ..Default::default() }),
        "ScionHostAddr" => rt::host(s, HostKinds::Any).map(|h| Norm { host: Some(h), ..Default::default() }),
        "ScionAddr" => a(HostKinds::Any),
        "ScionAddrV4" => a(HostKinds::V4),
        "ScionAddrV6" => a(HostKinds::V6),
        "ScionAddrSvc" => a(HostKinds::Svc),
        "ScionIpAddr" => a(HostKinds::Ip),
        "ScionSocketAddr" => so(HostKinds::Any),
        "ScionSocketAddrV4" => so(HostKinds::V4),
        "ScionSocketAddrV6" => so(HostKinds::V6),
        "ScionSocketAddrSvc" => so(HostKinds::Svc),
        "ScionSocketIpAddr" => so(HostKinds::Ip),
        _ => unreachable!(),
    }
}

#[derive(Clone, Debug, Serialize, Deserialize)]
struct StrCase {
    ty: String,
    s: String,
}

/// why a string the reference rejects could have been accepted (narrow signature)
fn diagnose_overaccept(ty: &str, s: &str) -> String {
    if ty.contains("Socket") {
        if !s.starts_with('[') {
            return "socket-without-opening-bracket".into();
        }
        if !s.contains("]:") {
            return "socket-without-closing-bracket-before-port".into();
        }
    }
    "other".into()
}

/// exact acceptance + totality on one (type, string)
fn check_string(c: &StrCase, obs: &mut Obs) -> CheckResult {
    let ty = c.ty.as_str();
    let s = c.s.as_str();
    let sut = vcore::no_panic(&format!("parse<{ty}>"), || sut_parse(ty, s))?;
    let rf = ref_parse(ty, s);
    match (&sut, &rf) {
        (Some((n, shown)), Some(r)) => {
            obs.label("accepted");
            obs.nontrivial(&(ty, s));
            ensure!(n == r, format!("value-differs:{ty}"), "{ty}: {s:?} parsed as {n:?}, reference says {r:?}");
            // the accepted string denotes a value whose displayed form parses back to it
            let again = sut_parse(ty, shown).map(|x| x.0);
            ensure!(again == Some(*n), format!("display-of-parsed-does-not-reparse:{ty}"),
                "{ty}: {s:?} -> displayed {shown:?} -> reparsed {again:?}");
        }
        (None, None) => {
            obs.label("rejected");
            if near_valid(ty, s) {
                obs.nontrivial(&(ty, s));
                obs.label("rejected-near-valid");
            }
        }
        (Some((n, _)), None) => {
            return Err(Fail::new(
                format!("overaccept:{ty}:{}", diagnose_overaccept(ty, s)),
                format!("{ty}: {s:?} is not a valid text form but was accepted as {n:?}"),
            ));
        }
        (None, Some(r)) => {
            return Err(Fail::new(
                format!("overreject:{ty}"),
                format!("{ty}: {s:?} is a valid text form of {r:?} but was rejected"),
            ));
        }
    }
    Ok(())
}

/// "near valid": the string contains the structural characters of the type's form
fn near_valid(ty: &str, s: &str) -> bool {
    match ty {
        "Isd" => s.chars().any(|c| c.is_ascii_digit()),
        "Asn" => s.contains(':') || s.chars().any(|c| c.is_ascii_hexdigit()),
        "IsdAsn" => s.contains('-'),
        "ServiceAddr" => s.contains("S") || s.contains("Wild"),
        "ScionHostAddr" => s.contains('.') || s.contains(':') || s.contains('S'),
        t if t.contains("Socket") => s.contains('[') || s.contains(']'),
        _ => s.contains(',') && s.contains('-'),
    }
}

// ---------------------------------------------------------------- values and valid spellings

#[derive(Clone, Debug, Serialize, Deserialize)]
struct Val {
    isd: u16,
    asn: u64,
    /// 0 = v4, 1 = v6, 2 = svc
    hk: u8,
    v4: [u8; 4],
    v6: [u8; 16],
    svc: u16,
    port: u16,
}

fn asn_strategy() -> impl Strategy<Value = u64> {
    prop_oneof![
        Just(0u64), Just(1), Just(u32::MAX as u64), Just(u32::MAX as u64 + 1), Just((1u64 << 48) - 1),
        Just(0xff00_0000_0110), Just(0x1_0000_0000), 0u64..(1u64 << 48), 0u64..70000,
        (0u64..=0xffff, 0u64..=0xffff, 0u64..=0xffff).prop_map(|(a, b, c)| (a << 32) | (b << 16) | c),
    ]
}
fn v6_strategy() -> impl Strategy<Value = [u8; 16]> {
    prop_oneof![
        Just([0u8; 16]),
        Just(Ipv6Addr::LOCALHOST.octets()),
        any::<[u8; 4]>().prop_map(|o| Ipv4Addr::from(o).to_ipv6_mapped().octets()),
        any::<[u8; 4]>().prop_map(|o| Ipv4Addr::from(o).to_ipv6_compatible().octets()),
        any::<[u8; 16]>(),
        // zero runs => "::" compression at varying places
        (any::<[u8; 16]>(), 0usize..8, 0usize..8).prop_map(|(mut o, a, n)| {
            for g in a..(a + n).min(8) { o[2 * g] = 0; o[2 * g + 1] = 0; }
            o
        }),
    ]
}
fn val_strategy(named_svc_only: bool) -> impl Strategy<Value = Val> {
    let svc = if named_svc_only {
        prop_oneof![Just(1u16), Just(2), Just(0x10), Just(0x8001), Just(0x8002), Just(0x8010)].boxed()
    } else {
        prop_oneof![Just(1u16), Just(2), Just(0x10), Just(0x8001), Just(0x8002), Just(0x8010), Just(0xffff), Just(0), any::<u16>()].boxed()
    };
    (
        prop_oneof![Just(0u16), Just(1), Just(u16::MAX), any::<u16>()],
        asn_strategy(),
        0u8..3,
        prop_oneof![Just([0u8; 4]), Just([255u8; 4]), Just([127, 0, 0, 1]), any::<[u8; 4]>()],
        v6_strategy(),
        svc,
        prop_oneof![Just(0u16), Just(1), Just(80), Just(u16::MAX), any::<u16>()],
    )
        .prop_map(|(isd, asn, hk, v4, v6, svc, port)| Val { isd, asn, hk, v4, v6, svc, port })
}

impl Val {
    fn host(&self) -> ScionHostAddr {
        match self.hk {
            0 => ScionHostAddr::V4(self.v4.into()),
            1 => ScionHostAddr::V6(self.v6.into()),
            _ => ScionHostAddr::Svc(ServiceAddr(self.svc)),
        }
    }
    fn ia(&self) -> IsdAsn {
        IsdAsn::new(Isd(self.isd), Asn(self.asn))
    }
}

fn rt_one<T: FromStr + Display + PartialEq + std::fmt::Debug + Serialize + serde::de::DeserializeOwned>(
    name: &str,
    v: T,
) -> CheckResult {
    let shown = vcore::no_panic(&format!("display<{name}>"), || v.to_string())?;
    let back = vcore::no_panic(&format!("parse<{name}>"), || shown.parse::<T>().ok())?;
    ensure!(back.as_ref() == Some(&v), format!("roundtrip:{name}"),
        "{name}: value {v:?} displays as {shown:?} which parses to {back:?}");
    // serde string form
    let js = serde_json::to_string(&v).map_err(|e| Fail::new(format!("serde-ser:{name}"), e.to_string()))?;
    ensure!(js == serde_json::to_string(&shown).unwrap(), format!("serde-form:{name}"),
        "{name}: serde form {js} differs from Display {shown:?}");
    let back2: Option<T> = serde_json::from_str(&js).ok();
    ensure!(back2.as_ref() == Some(&v), format!("serde-roundtrip:{name}"), "{name}: serde {js} -> {back2:?}");
    Ok(())
}

/// parse(display(v)) == v for every type, for one generated value tuple
fn check_value(v: &Val, obs: &mut Obs) -> CheckResult {
    let ia = v.ia();
    let host = v.host();
    obs.label(match v.hk { 0 => "value-v4", 1 => "value-v6", _ => "value-svc" });
    obs.nontrivial(&(v.isd, v.asn, v.hk, v.v4, v.v6, v.svc, v.port));
    rt_one("Isd", Isd(v.isd))?;
    rt_one("Asn", Asn(v.asn))?;
    rt_one("IsdAsn", ia)?;
    rt_one("ScionHostAddr", host)?;
    rt_one("ScionAddr", ScionAddr::new(ia, host))?;
    rt_one("ScionSocketAddr", ScionSocketAddr::new(ia, host, v.port))?;
    obs.evals(6);
    match host {
        ScionHostAddr::V4(h) => {
            rt_one("ScionAddrV4", ScionAddrV4::new(ia, h))?;
            rt_one("ScionIpAddr", ScionIpAddr::new(ia, h.into()))?;
            rt_one("ScionSocketAddrV4", ScionSocketAddrV4::new(ia, h, v.port))?;
            rt_one("ScionSocketIpAddr", ScionSocketIpAddr::new(ia, h.into(), v.port))?;
        }
        ScionHostAddr::V6(h) => {
            rt_one("ScionAddrV6", ScionAddrV6::new(ia, h))?;
            rt_one("ScionIpAddr", ScionIpAddr::new(ia, h.into()))?;
            rt_one("ScionSocketAddrV6", ScionSocketAddrV6::new(ia, h, v.port))?;
            rt_one("ScionSocketIpAddr", ScionSocketIpAddr::new(ia, h.into(), v.port))?;
        }
        ScionHostAddr::Svc(s) => {
            if rt::svc_name(s.0).is_none() {
                obs.label("value-unnamed-svc");
            }
            // ServiceAddr has no serde form of its own; Display/FromStr only
            let shown = vcore::no_panic("display<ServiceAddr>", || s.to_string())?;
            let back = vcore::no_panic("parse<ServiceAddr>", || shown.parse::<ServiceAddr>().ok())?;
            ensure!(back == Some(s), "roundtrip:ServiceAddr", "ServiceAddr {s:?} displays as {shown:?} which parses to {back:?}");
            rt_one("ScionAddrSvc", ScionAddrSvc::new(ia, s))?;
            rt_one("ScionSocketAddrSvc", ScionSocketAddrSvc::new(ia, s, v.port))?;
        }
    }
    obs.evals(4);
    Ok(())
}

/// valid spellings (reference display + documented alternatives) of a value, for every type
fn spellings(v: &Val) -> Vec<String> {
    let mut out = vec![];
    let asn_forms = {
        let mut f = vec![rt::show_asn(v.asn), rt::show_asn_hex(v.asn)];
        f.push(rt::show_asn_hex(v.asn).to_uppercase());
        f.push(format!("{:04x}:{:04x}:{:04x}", (v.asn >> 32) & 0xffff, (v.asn >> 16) & 0xffff, v.asn & 0xffff));
        f
    };
    let host = match v.hk {
        0 => RHost::V4(v.v4),
        1 => RHost::V6(v.v6),
        _ => RHost::Svc(v.svc),
    };
    let mut host_forms = vec![];
    if let Some(h) = rt::show_host(host) {
        host_forms.push(h.clone());
        if let RHost::Svc(s) = host {
            if s & 0x8000 == 0 {
                host_forms.push(format!("{h}_A"));
            }
        }
    }
    out.push(format!("{}", v.isd));
    out.push(format!("{:05}", v.isd));
    for a in &asn_forms {
        out.push(a.clone());
        out.push(format!("{}-{}", v.isd, a));
        for h in &host_forms {
            out.push(format!("{}-{},{}", v.isd, a, h));
            out.push(format!("[{}-{},{}]:{}", v.isd, a, h, v.port));
        }
    }
    out.extend(host_forms);
    out
}

fn base_values() -> Vec<Val> {
    let z = Val { isd: 1, asn: 0xff00_0000_0110, hk: 0, v4: [10, 0, 0, 1], v6: [0; 16], svc: 2, port: 80 };
    let mut v = vec![z.clone()];
    v.push(Val { hk: 1, v6: "2001:db8::1".parse::<Ipv6Addr>().unwrap().octets(), ..z.clone() });
    v.push(Val { hk: 1, v6: [0; 16], asn: 64512, isd: 65535, port: 65535, ..z.clone() });
    v.push(Val { hk: 1, v6: Ipv4Addr::new(192, 0, 2, 1).to_ipv6_mapped().octets(), ..z.clone() });
    v.push(Val { hk: 2, svc: 2, ..z.clone() });
    v.push(Val { hk: 2, svc: 0x8001, asn: 0, isd: 0, port: 0, ..z.clone() });
    v.push(Val { hk: 2, svc: 0x10, asn: u32::MAX as u64, ..z.clone() });
    v.push(Val { hk: 0, v4: [255, 255, 255, 255], asn: (1 << 48) - 1, ..z.clone() });
    // unnamed service addresses, anycast and multicast ("<SVC:0x1234>", "<SVC:0x1234>_M")
    v.push(Val { hk: 2, svc: 0x1234, ..z.clone() });
    v.push(Val { hk: 2, svc: 0x9234, ..z.clone() });
    v
}

const ALPHABET: &[char] = &[
    '[', ']', ',', ':', '-', '#', '_', ' ', 'x', '+', '0', 'é', '1', '9', 'f', 'A', 'M', 'C', 'S', '.', 'g', '<', '>', '\0', '8',
];

fn edit_corpus() -> Vec<StrCase> {
    let mut bases: Vec<String> = vec![];
    for v in base_values() {
        bases.extend(spellings(&v));
    }
    bases.sort();
    bases.dedup();
    let mut strings: Vec<String> = vec![];
    for b in &bases {
        strings.push(b.clone());
        let chars: Vec<char> = b.chars().collect();
        for i in 0..=chars.len() {
            // insert
            for &a in ALPHABET {
                let mut c = chars.clone();
                c.insert(i, a);
                strings.push(c.into_iter().collect());
            }
            if i < chars.len() {
                // delete
                let mut c = chars.clone();
                c.remove(i);
                strings.push(c.into_iter().collect());
                // replace
                for &a in ALPHABET {
                    if a != chars[i] {
                        let mut c = chars.clone();
                        c[i] = a;
                        strings.push(c.into_iter().collect());
                    }
                }
                // truncate here (prefix) and suffix from here
                strings.push(chars[..i].iter().collect());
                strings.push(chars[i..].iter().collect());
            }
        }
    }
    strings.sort();
    strings.dedup();
    let mut out = Vec::with_capacity(strings.len() * TYPES.len());
    for s in strings {
        for ty in TYPES {
            out.push(StrCase { ty: ty.to_string(), s: s.clone() });
        }
    }
    out
}

fn run_edits(ctx: &Ctx) {
    let corpus = edit_corpus();
        let step = 1u64;
    let off = ctx.seed % step;
    let n = corpus.len() as u64;
    ctx.run_enum("edits", n, step == 1, |i| (i % step == off).then(|| corpus[i as usize].clone()), check_string);
}

fn run_short(ctx: &Ctx) {
    // all strings of length <= 3 over the alphabet, for every type
    let k = ALPHABET.len() as u64;
    let total = 1 + k + k * k + k * k * k;
    let nt = TYPES.len() as u64;
    ctx.run_enum("short-strings", total * nt, true, |i| {
        let ty = TYPES[(i % nt) as usize];
        let mut j = i / nt;
        let mut s = String::new();
        let len = if j == 0 { 0 } else if j <= k { j -= 1; 1 } else if j <= k + k * k { j -= 1 + k; 2 } else { j -= 1 + k + k * k; 3 };
        for _ in 0..len {
            s.push(ALPHABET[(j % k) as usize]);
            j /= k;
        }
        Some(StrCase { ty: ty.to_string(), s })
    }, check_string);
}

fn special_strings() -> Vec<String> {
    let mut v: Vec<String> = [
        ":80", ":", "]:80", "[]:80", "[:80", "[", "]", "[]", "[1-1,1.1.1.1]:", "[1-1,1.1.1.1]:65536", "[1-1,1.1.1.1]:-1",
        "[1-1,1.1.1.1]:+80", "[1-1,1.1.1.1]:080", "x1-ff00:0:110,10.0.0.1y:1000", "[1-ff00:0:110,10.0.0.1y:1000",
        "1-ff00:0:110,10.0.0.1]:1000", "[[1-1,1.1.1.1]]:80", "[1-1,::1]:80", "[1-1,[::1]]:80", "1-1,[::1]", "[é:80",
        "[1-1,1.1.1.1]é:80", "65536-1", "1-4294967296", "1-4294967295", "1-ffff:ffff:ffff", "1-1:0:0:0", "1-ffff:ffff:ffff:1",
        "1-10000:0:0", "1--1", "-1-1", "1-", "-", "1-1,", ",1.1.1.1", "1-1,1.1.1.1,", "1-1,,1.1.1.1", "1-1,CS_", "1-1,CS_A",
        "1-1,CS_M", "1-1,CS_X", "1-1,_M", "CS_A_M", "cs", "Wildcard_M", "<SVC:0x1234>", "<SVC:0x1234>_M", "1-1,<SVC:0x0003>", "<SVC:0x8005>", "<SVC:0x8005>_M", "<SVC:0x8000>", "<SVC:0xffff>", "<SVC:0x8002>", "1-1,<SVC:0x9234>", "[1-1,<SVC:0x8005>]:80", "<SVC:0x0002>", "<SVC:0x0010>_M", "<SVC:0x12345>", "<SVC:0x123>", "<SVC:0X1234>", "<SVC:0x12AB>", "<svc:0x1234>",
        "1-1,01.1.1.1", "1-1,1.1.1", "1-1,1.1.1.1.1", "1-1,256.1.1.1", "1-1,::ffff:1.2.3.4", "1-1,1::2::3", "1-1,fe80::1%eth0",
        "18446744073709551616", "99999999999999999999999", "0x10", "1_000", " 1", "1 ", "1\n", "\t1-1,1.1.1.1",
        "1-1, 1.1.1.1", "1 -1,1.1.1.1", "[1-1,1.1.1.1] :80", "[1-1,1.1.1.1]: 80", "１-１,1.1.1.1", "1-ｆｆ:0:0",
    ]
    .iter()
    .map(|s| s.to_string())
    .collect();
    v.push("1".repeat(400));
    v.push(format!("[1-1,1.1.1.1]:{}", "0".repeat(300) + "80"));
    v.push(format!("{}-1", "0".repeat(300) + "1"));
    v
}

fn run_special(ctx: &Ctx) {
    let mut cases = vec![];
    for s in special_strings() {
        for ty in TYPES {
            cases.push(StrCase { ty: ty.to_string(), s: s.clone() });
        }
    }
    ctx.run_list("special-strings", &cases, |c, o| check_string(c, o));
}

fn run_random_strings(ctx: &Ctx) {
    let n = ctx.tier.pick(1_500_000, 40_000_000);
    ctx.run_prop(
        "random-strings",
        n,
        || {
            // grammar-ish soup: tokens in random order, plus a valid spelling with random splices
            let token = prop_oneof![
                Just("[".to_string()), Just("]".to_string()), Just(",".to_string()), Just(":".to_string()), Just("-".to_string()),
                Just("]:".to_string()), Just("::".to_string()), Just(".".to_string()), Just("_M".to_string()), Just("_A".to_string()),
                Just("CS".to_string()), Just("DS".to_string()), Just("Wildcard".to_string()), Just("+".to_string()), Just(" ".to_string()),
                (0u32..70000).prop_map(|n| n.to_string()), (0u32..=0x1ffff).prop_map(|n| format!("{n:x}")),
                Just("ffff".to_string()), Just("0".to_string()), Just("4294967295".to_string()), Just("4294967296".to_string()),
                Just("65535".to_string()), Just("65536".to_string()), Just("1.2.3.4".to_string()), Just("::1".to_string()),
                Just("1-ff00:0:110".to_string()), "\\PC{0,3}",
            ];
            let soup = prop::collection::vec(token, 0..9).prop_map(|v| v.concat());
            let spliced = (val_strategy(true), any::<u16>(), any::<u16>(), any::<u16>(), "\\PC{0,2}").prop_map(|(v, which, a, b, ins)| {
                let sp = spellings(&v);
                let s = &sp[vcore::idx(which, sp.len())];
                let chars: Vec<char> = s.chars().collect();
                let i = vcore::idx(a, chars.len() + 1);
                let j = vcore::idx(b, chars.len() + 1);
                let (i, j) = (i.min(j), i.max(j));
                // replace the span i..j (often empty or 1 char) by `ins`
                let j = j.min(i + 2);
                let mut out: String = chars[..i].iter().collect();
                out.push_str(&ins);
                out.extend(chars[j..].iter());
                out
            });
            let valid = (val_strategy(true), any::<u16>()).prop_map(|(v, which)| {
                let sp = spellings(&v);
                sp[vcore::idx(which, sp.len())].clone()
            });
            (any::<u16>(), prop_oneof![3 => soup, 4 => spliced, 2 => valid, 1 => "\\PC{0,24}"])
                .prop_map(|(t, s)| StrCase { ty: TYPES[vcore::idx(t, TYPES.len())].to_string(), s })
        },
        check_string,
    );
}

fn run_values(ctx: &Ctx) {
    let n = ctx.tier.pick(200_000, 5_000_000);
    // named services only: the unnamed ones are explored by `values-unnamed-svc` so that a
    // finding there does not end this sub-check at its first case
    ctx.run_prop("values", n, || val_strategy(true), check_value);
    ctx.run_prop("values-unnamed-svc", n / 20, || {
        (val_strategy(false), any::<u16>()).prop_map(|(mut v, s)| { v.hk = 2; if rt::svc_name(v.svc).is_some() { v.svc = s | 0x0100; } v })
    }, check_value);
}

fn post(ctx: &Ctx) {
    ctx.require_label("accepted", 1000);
    ctx.require_label("rejected-near-valid", 1000);
    ctx.require_label("value-v6", 100);
}

fn main() {
    let subs = [
        Sub { name: "values", run: run_values, replay: |c, v| c.replay_case::<Val>("values", v, check_value) },
        Sub { name: "values-unnamed-svc", run: |_| {}, replay: |c, v| c.replay_case::<Val>("values-unnamed-svc", v, check_value) },
        Sub { name: "special-strings", run: run_special, replay: |c, v| c.replay_case::<StrCase>("special-strings", v, check_string) },
        Sub { name: "short-strings", run: run_short, replay: |c, v| c.replay_case::<StrCase>("short-strings", v, check_string) },
        Sub { name: "edits", run: run_edits, replay: |c, v| c.replay_case::<StrCase>("edits", v, check_string) },
        Sub { name: "random-strings", run: run_random_strings, replay: |c, v| c.replay_case::<StrCase>("random-strings", v, check_string) },
    ];
    let _: Option<Value> = None;
    vcore::main(
        "C15",
        "cases = (type, string) pairs and value tuples. Strings: all strings of length<=3 over a 24-char alphabet (exhaustive), every single-character insert/delete/replace/truncate of the valid spellings of 8 base values (exhaustive), a list of special strings, random token soup / spliced valid spellings; each for 15 types. Oracle: exact agreement (acceptance and value) with an independent grammar, parse(display(v))==v, serde string form. Non-trivial = string accepted by the SUT or rejected while containing the structural characters of the form; distinct by (type,string) / value tuple.",
        &["IPv4/IPv6 literal syntax is std::net's (used by both sides)", "numeric tokens may carry a leading '+' and leading zeros (Rust integer syntax)"],
        &subs,
        post,
    );
}
