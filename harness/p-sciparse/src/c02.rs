//! C02 — parsing untrusted bytes is total and memory-safe.
//!
//! Every case places the exact bytes of the (reported) view directly in front of an
//! inaccessible page (and, in a second pass, directly behind one): any read or write outside
//! what the view reported as its own faults, and the SIGSEGV handler reports the case.
//! Built twice by the driver: profile `verif` (debug assertions, overflow checks) and profile
//! `verifrel` (plain release, where the repository's debug assertions are gone).

use std::cell::RefCell;

use p_sciparse::spec as sp;
use proptest::prelude::*;
use refmodel::wire::{self as rw, RErr, RPath};
use sciparse::{
    core::{
        convert::{ToModel, TryFromView},
        view::View,
    },
    dataplane_path::{
        onehop::view::OneHopPathView,
        standard::{routing::HopMacValidator, view::StandardPathView},
        view::{ScionDpPathViewRef, ScionDpPathViewRefMut},
    },
    header::{model::ScionPacketHeader, view::ScionHeaderView},
    identifier::{asn::Asn, isd::Isd},
    packet::{
        model::ScionRawPacket,
        view::{ScionRawPacketView, ScionScmpPacketView, ScionUdpPacketView},
    },
    payload::{ProtocolNumber, scmp::view::ScmpPayloadView, udp::view::UdpDatagramView},
    util::fuzz::view_function_checks as vfc,
};
use serde::{Deserialize, Serialize};
use vcore::{CheckResult, Ctx, Fail, Obs, Sub, ensure, guard::GuardBuf};

#[derive(Clone, Debug, Serialize, Deserialize)]
struct Case {
    #[serde(with = "vcore::hexbytes")]
    bytes: Vec<u8>,
    /// generated accessor/mutator sequence (op codes, see `apply_op`)
    ops: Vec<u8>,
}

thread_local! {
    static GB: RefCell<GuardBuf> = RefCell::new(GuardBuf::with_capacity(16384));
}

const CANARY: u8 = 0xC7;

/// reference verdict for the SCION header at the start of `b`: Ok(header length)
fn ref_header(b: &[u8]) -> Result<(usize, rw::RHeader), RErr> {
    rw::decode_header(b).map(|h| (h.header_len(), h))
}

fn apply_op(view: &mut ScionRawPacketView, op: u8, arg: u8) {
    use std::hint::black_box as bb;
    match op % 14 {
        0 => vfc::packet::exec_every_view_function(view),
        1 => {
            if let ScionDpPathViewRefMut::Standard(p) = view.header_mut().path_mut() {
                let _ = bb(p.try_reverse());
            } else if let ScionDpPathViewRefMut::OneHop(p) = view.header_mut().path_mut() {
                let _ = bb(p.try_reverse());
            }
        }
        2 => {
            if let ScionDpPathViewRefMut::Standard(p) = view.header_mut().path_mut() {
                let _ = bb(p.advance_ingress(arg & 1 == 0).map(|o| o.ingress_interface));
            }
        }
        3 => {
            if let ScionDpPathViewRefMut::Standard(p) = view.header_mut().path_mut() {
                let _ = bb(p.advance_egress().map(|o| o.egress_interface));
            }
        }
        4 => {
            if let ScionDpPathViewRefMut::Standard(p) = view.header_mut().path_mut() {
                p.set_curr_hop_field(arg);
                p.set_curr_info_field(arg >> 6);
            }
        }
        5 => {
            bb(format!("{:?}", view));
            bb(format!("{:?}", view.header()));
            match view.header().path() {
                ScionDpPathViewRef::Standard(p) => { bb(format!("{p} {p:?}")); }
                ScionDpPathViewRef::OneHop(p) => { bb(format!("{p} {p:?}")); }
                other => { bb(format!("{other}")); }
            }
        }
        6 => {
            let _ = bb(ScionRawPacket::try_from_view(view).map(|m| m.payload.len()));
            let _ = bb(ScionPacketHeader::try_from_view(view.header()).map(|h| h.required_size()));
        }
        7 => {
            let h = view.header_mut();
            h.set_src_isd(Isd((arg as u16).wrapping_mul(257)));
            h.set_dst_isd(Isd(!(arg as u16)));
            h.set_src_as(Asn((arg as u64) << 40 | 0xffff_ffff));
            h.set_dst_as(Asn(u64::MAX >> 16));
            h.set_flow_id(u32::MAX);
            h.set_traffic_class(arg);
            h.set_next_header(ProtocolNumber::from(arg));
            h.set_version(0);
        }
        8 => {
            for b in view.payload_mut().iter_mut() { *b = arg; }
        }
        9 => {
            if let ScionDpPathViewRefMut::Standard(p) = view.header_mut().path_mut() {
                for h in p.hop_fields_mut() {
                    h.set_mac([arg; 6].into());
                    let f = h.flags();
                    h.set_flags(f);
                }
                for i in p.info_fields_mut() {
                    i.set_segment_id((arg as u16).wrapping_mul(259));
                    let f = i.flags();
                    i.set_flags(f);
                }
                bb(p.expiration());
                bb(p.segments().count());
                bb(p.calculate_segment_index(arg as usize));
                bb(p.curr_egress_interface());
            }
        }
        10 => {
            if let ScionDpPathViewRefMut::Standard(p) = view.header_mut().path_mut() {
                let _ = bb(p.advance_ingress_with_validator(HopMacValidator { key: [arg; 16] }, arg & 1 == 1).map(|_| ()));
                let _ = bb(p.advance_egress_with_validator(HopMacValidator { key: [arg; 16] }).map(|_| ()));
            }
        }
        11 => {
            if let ScionDpPathViewRef::Standard(p) = view.header().path() { bb(p.to_model()); }
            if let ScionDpPathViewRef::OneHop(p) = view.header().path() { bb(p.to_model()); }
        }
        12 => {
            if let ScionDpPathViewRefMut::OneHop(p) = view.header_mut().path_mut() {
                p.set_second_hop(arg as u16 + 1, [arg; 16], arg & 1 == 0);
                bb(p.expiration());
            }
        }
        _ => {
            if let Ok(c) = view.try_classify() {
                bb(c.dst_port());
                bb(c.dst_socket_addr());
            }
            let _ = bb(view.src_scion_addr());
            let _ = bb(view.dst_scion_addr());
        }
    }
}

fn check(c: &Case, obs: &mut Obs) -> CheckResult {
    let bytes = &c.bytes;
    // replay document for the fault handler
    vcore::guard::set_current_case(&format!("{{\"property\":\"C02\",\"sub\":\"bytes\",\"signature\":\"memory-fault\",\"case\":{{\"bytes\":\"{}\",\"ops\":{:?}}}}}", vcore::hexs(bytes), c.ops));
    let rh = ref_header(bytes);
    GB.with(|gb| -> CheckResult {
        let mut gb = gb.borrow_mut();
        // ---- pass A: acceptance and reported size on the whole buffer (guard page right behind it)
        let buf = gb.place_tail(bytes);
        let r = vcore::no_panic("ScionHeaderView::try_from_mut_slice", || ScionHeaderView::try_from_mut_slice(buf).map(|(v, rest)| (v.as_slice().len(), rest.len())))?;
        match (&r, &rh) {
            (Ok((size, rest)), Ok((hl, _))) => {
                ensure!(size + rest == bytes.len(), "view-plus-rest-not-input", "header view {size} + rest {rest} != input {}", bytes.len());
                ensure!(size == hl, "view-size-differs-from-reference", "ScionHeaderView reports {size} bytes, the header is {hl} bytes by the specification");
            }
            (Err(_), Err(_)) => {}
            (Ok((size, _)), Err(e)) => return Err(Fail::new("header-accepted-but-inconsistent", format!("ScionHeaderView accepted ({size} bytes) a buffer whose size-determining fields are inconsistent: {e:?}"))),
            (Err(e), Ok((hl, _))) => return Err(Fail::new("consistent-header-rejected", format!("ScionHeaderView rejects ({e}) a consistent {hl}-byte header"))),
        }
        let r = vcore::no_panic("ScionRawPacketView::try_from_mut_slice", || ScionRawPacketView::try_from_mut_slice(buf).map(|(v, rest)| (v.as_slice().len(), rest.len())))?;
        let raw_size = match (&r, &rh) {
            (Ok((size, rest)), Ok((hl, h))) => {
                let want = (hl + h.payload_len as usize).min(bytes.len());
                ensure!(size + rest == bytes.len() && *size == want, "view-size-differs-from-reference", "ScionRawPacketView reports {size} bytes, expected min(hdr {hl} + payload {}, input {}) = {want}", h.payload_len, bytes.len());
                Some(*size)
            }
            (Err(_), Err(_)) => None,
            (Ok((size, _)), Err(e)) => return Err(Fail::new("header-accepted-but-inconsistent", format!("ScionRawPacketView accepted ({size} bytes) an inconsistent buffer: {e:?}"))),
            (Err(e), Ok(_)) => return Err(Fail::new("consistent-header-rejected", format!("ScionRawPacketView rejects ({e}) a consistent packet"))),
        };
        // typed packet views: when accepted they cover the same bytes as the raw view
        for (name, r) in [
            ("ScionUdpPacketView", vcore::no_panic("ScionUdpPacketView::try_from_mut_slice", || ScionUdpPacketView::try_from_mut_slice(buf).map(|(v, _)| v.as_slice().len()))?),
            ("ScionScmpPacketView", vcore::no_panic("ScionScmpPacketView::try_from_mut_slice", || ScionScmpPacketView::try_from_mut_slice(buf).map(|(v, _)| v.as_slice().len()))?),
        ] {
            if let Ok(size) = r {
                ensure!(Some(size) == raw_size, "typed-view-size-differs", "{name} reports {size} bytes, raw packet view {raw_size:?}");
                obs.label(format!("accepted-{name}"));
            }
        }
        // stand-alone views on the same bytes
        let r = vcore::no_panic("StandardPathView::try_from_mut_slice", || StandardPathView::try_from_mut_slice(buf).map(|(v, rest)| (v.as_slice().len(), rest.len())))?;
        match (r, rw::decode_std_path(bytes)) {
            (Ok((size, rest)), Ok((_, want))) => ensure!(size == want && size + rest == bytes.len(), "view-size-differs-from-reference", "StandardPathView reports {size}, expected {want}"),
            (Err(_), Err(_)) => {}
            (a, b) => return Err(Fail::new("stdpath-acceptance-differs", format!("StandardPathView {:?} vs reference {:?}", a.map(|x| x.0), b.map(|x| x.1)))),
        }
        let r = vcore::no_panic("OneHopPathView::try_from_mut_slice", || OneHopPathView::try_from_mut_slice(buf).map(|(v, _)| v.as_slice().len()))?;
        ensure!(r.is_ok() == (bytes.len() >= 32) && r.clone().map(|s| s == 32).unwrap_or(true), "onehop-size", "OneHopPathView on {} bytes: {r:?}", bytes.len());
        let r = vcore::no_panic("UdpDatagramView::try_from_mut_slice", || UdpDatagramView::try_from_mut_slice(buf).map(|(v, _)| (v.as_slice().len(), v.payload().len())))?;
        if let Ok((size, pl)) = r {
            let lf = u16::from_be_bytes([bytes[4], bytes[5]]) as usize;
            ensure!(size == lf.min(bytes.len()) && pl + 8 == size, "udp-view-size", "UdpDatagramView reports {size}/{pl}, length field {lf}, input {}", bytes.len());
        }
        let _ = vcore::no_panic("ScmpPayloadView::try_from_mut_slice", || ScmpPayloadView::try_from_mut_slice(buf).map(|(v, _)| { let mut v = v; vfc::payload::scmp::exec_every_view_function(&mut v); let _ = std::hint::black_box(v.dst_port()); }))?;
        let _ = vcore::no_panic("StandardPathView exerciser", || StandardPathView::try_from_mut_slice(buf).map(|(v, _)| { vfc::path::exec_standard_path_view(v); vfc::path::exec_standard_path_view_mut(v); }))?;
        // boxed construction demands the exact size
        let rb = vcore::no_panic("ScionRawPacketView::try_from_boxed", || ScionRawPacketView::try_from_boxed(bytes.clone().into_boxed_slice()).map(|b| b.as_slice().len()))?;
        ensure!(rb.is_ok() == (raw_size == Some(bytes.len())), "boxed-acceptance", "try_from_boxed on {} bytes: {rb:?}, raw view size {raw_size:?}", bytes.len());

        let Some(size) = raw_size else {
            obs.label(match &rh { Err(RErr::Short(w)) => format!("rejected-short-{w}"), Err(RErr::Version) => "rejected-version".into(), Err(RErr::HdrLen { .. }) => "rejected-hdrlen".into(), Ok(_) => unreachable!() });
            if !matches!(rh, Err(RErr::Short("CommonHeader"))) {
                obs.nontrivial(&(vcore::hash64(&bytes[..bytes.len().min(64)]), bytes.len()));
            }
            return Ok(());
        };
        let (hl, h) = rh.as_ref().unwrap();
        obs.label(match &h.path { RPath::Empty => "accepted-empty-path", RPath::Std(_) => "accepted-std-path", RPath::OneHop { .. } => "accepted-onehop-path", RPath::Other { .. } => "accepted-unknown-path" });
        if size < hl + h.payload_len as usize {
            obs.label("accepted-truncated-payload");
        }
        obs.nontrivial(&(h.path_type, h.dst_tl, h.src_tl, h.hdr_units, h.payload_len, size, vcore::hash64(&c.ops)));

        // ---- pass B: exactly the view's bytes in front of the guard page, canary-free: run the ops
        for head in [false, true] {
            let exact = &bytes[..size];
            let buf = if head { gb.place_head(exact) } else { gb.place_tail(exact) };
            let (view, rest) = ScionRawPacketView::try_from_mut_slice(buf).map_err(|e| Fail::new("exact-slice-rejected", format!("the view's own {size} bytes are rejected: {e}")))?;
            ensure!(rest.is_empty(), "exact-slice-has-rest", "view over its own bytes leaves a rest");
            vcore::no_panic("exec_every_view_function", || vfc::packet::exec_every_view_function(view))?;
            for (i, op) in c.ops.iter().enumerate() {
                let arg = c.ops.get(i + 1).copied().unwrap_or(0x5a).wrapping_mul(31).wrapping_add(i as u8);
                vcore::no_panic("view-op", || apply_op(view, *op, arg))?;
                ensure!(view.as_slice().len() == size, "view-size-changed", "the view's size changed from {size} to {} after op {op}", view.as_slice().len());
            }
            // safe mutators must not touch size-determining fields: the mutated bytes still
            // describe a view of exactly the same size
            let after = view.as_slice().to_vec();
            let again = ScionRawPacketView::try_from_slice(&after).map(|(v, _)| v.as_slice().len());
            ensure!(again == Ok(size), "safe-mutators-changed-the-layout", "after safe accessors/mutators (ops {:?}) the bytes re-parse as {again:?}, were {size}", c.ops);
        }
        // ---- pass C: view inside a larger buffer: nothing outside the view is written
        let mut big = bytes.clone();
        big.extend_from_slice(&[CANARY; 64]);
        let total = big.len();
        let buf = gb.place_tail(&big);
        let (view, rest) = ScionRawPacketView::try_from_mut_slice(buf).map_err(|e| Fail::new("extended-buffer-rejected", format!("{e}")))?;
        let vsize = view.as_slice().len();
        ensure!(vsize + rest.len() == total, "view-plus-rest-not-input", "view {vsize} + rest {} != {total}", rest.len());
        let want_rest: Vec<u8> = big[vsize..].to_vec();
        vcore::no_panic("exec_every_view_function", || vfc::packet::exec_every_view_function(view))?;
        for (i, op) in c.ops.iter().enumerate() {
            vcore::no_panic("view-op", || apply_op(view, *op, i as u8 ^ 0xa5))?;
        }
        ensure!(gb.slice()[vsize..] == want_rest[..], "write-outside-view", "bytes behind the {vsize}-byte view were modified");
        obs.evals(4);
        Ok(())
    })
}

// ------------------------------------------------------------------ generators

/// one point of the enumerated layout space, then variation by `v`
fn layout_case(path_type: u8, dtl: u8, stl: u8, seg: [u8; 3], hdr_var: u8, v: u64) -> Vec<u8> {
    let mut x = v | 1;
    let mut nx = || { x ^= x << 13; x ^= x >> 7; x ^= x << 17; x };
    let dl = rw::host_len(dtl);
    let sl = rw::host_len(stl);
    let path_len = match path_type {
        0 => 0,
        1 => rw::std_path_size(seg),
        2 => 32,
        _ => ((nx() % 16) * 4) as usize,
    };
    let hl = 12 + 16 + dl + sl + path_len;
    // next header / payload
    let nexts = [17u8, 202, 202, 202, 6, 0];
    let next = nexts[(nx() % nexts.len() as u64) as usize];
    let pay_len = [0usize, 4, 8, 9, 24, 32, 60, 200][(nx() % 8) as usize];
    let mut b = sp::fill(hl + pay_len, nx());
    b[0] &= 0x0f; // version 0
    b[4] = next;
    b[5] = match hdr_var { 0 => (hl / 4) as u8, 1 => ((hl / 4) as u8).wrapping_add(1), 2 => ((hl / 4) as u8).wrapping_sub(1), 3 => 0, _ => 255 };
    let plf = match nx() % 6 { 0 => 0usize, 1 => pay_len + 1, 2 => pay_len.saturating_sub(1), 3 => 65535, _ => pay_len };
    b[6..8].copy_from_slice(&(plf as u16).to_be_bytes());
    b[8] = path_type;
    b[9] = (dtl << 4) | stl;
    if path_type == 1 && b.len() >= 28 + dl + sl + 4 {
        let total = (seg[0] as u32 + seg[1] as u32 + seg[2] as u32).max(1);
        let ch = match nx() % 4 { 0 => (nx() % 64) as u32, _ => (nx() % total as u64) as u32 };
        let ci = (nx() % 4) as u32;
        let w: u32 = (ci << 30) | ((ch & 63) << 24) | ((seg[0] as u32) << 12) | ((seg[1] as u32) << 6) | seg[2] as u32;
        let o = 28 + dl + sl;
        b[o..o + 4].copy_from_slice(&w.to_be_bytes());
    }
    // upper layer: plausible UDP length / SCMP type
    if b.len() >= hl + 8 {
        if next == 17 {
            let l = match nx() % 5 { 0 => 0u16, 1 => 7, 2 => 65535, 3 => (pay_len + 1) as u16, _ => pay_len as u16 };
            b[hl + 4..hl + 6].copy_from_slice(&l.to_be_bytes());
        } else if next == 202 {
            b[hl] = [1u8, 2, 4, 5, 6, 128, 129, 130, 131, 0, 3, 127, 200, 255][(nx() % 14) as usize];
        }
    }
    // truncation at a field boundary +-1 or nowhere
    let bounds = [12usize, 28, 28 + dl, 28 + dl + sl, 28 + dl + sl + 4, hl, hl + 4, hl + 8, hl + pay_len];
    match nx() % 3 {
        0 => {}
        _ => {
            let at = bounds[(nx() % bounds.len() as u64) as usize] as i64 + (nx() % 3) as i64 - 1;
            b.truncate((at.max(0) as usize).min(b.len()));
        }
    }
    b
}

const SEG_QUICK: [u8; 7] = [0, 1, 2, 3, 31, 62, 63];

fn ops_from(v: u64, n: usize) -> Vec<u8> {
    sp::fill(n, v ^ 0xabcdef)
}

fn run(ctx: &Ctx) {
    vcore::guard::install_fault_handler("C02", "bytes");
    let seed = ctx.seed;
    // (a1) layout space, standard paths: seg-len triples x address length nibbles x HdrLen variation
    let segs: Vec<u8> = if ctx.tier == vcore::Tier::Thorough { (0..64).collect() } else { SEG_QUICK.to_vec() };
    let ns = segs.len() as u64;
    // quick: all 256 address nibbles pairs; thorough (2^18 triples): the 16 length combinations x 4 type bits samples
    let addr: Vec<(u8, u8)> = if ctx.tier == vcore::Tier::Thorough { (0..64u8).map(|i| ((i & 3) | ((i >> 4 & 1) << 2), (i >> 2 & 3) | ((i >> 5 & 1) << 2))).collect() } else { (0..=255u8).map(|i| (i >> 4, i & 15)).collect() };
    let na = addr.len() as u64;
    let reps = 2u64;
    let total = ns * ns * ns * na * 5 * reps;
    ctx.run_enum("layout-standard-path", total, true, |i| {
        let mut j = i;
        let rep = j % reps; j /= reps;
        let hv = (j % 5) as u8; j /= 5;
        let (d, s) = addr[(j % na) as usize]; j /= na;
        let s0 = segs[(j % ns) as usize]; j /= ns;
        let s1 = segs[(j % ns) as usize]; j /= ns;
        let s2 = segs[(j % ns) as usize];
        let v = seed ^ i.wrapping_mul(0x9e3779b97f4a7c15) ^ rep;
        Some(Case { bytes: layout_case(1, d, s, [s0, s1, s2], hv, v), ops: ops_from(v, (v % 7) as usize) })
    }, check);
    // (a2) other path types x all 256 address nibble pairs x HdrLen variation
    let pts = [0u8, 2, 3, 4, 5, 200, 255];
    let reps = ctx.tier.pick(12u64, 400);
    ctx.run_enum("layout-other-paths", pts.len() as u64 * 256 * 5 * reps, true, |i| {
        let mut j = i;
        let hv = (j % 5) as u8; j /= 5;
        let n = (j % 256) as u8; j /= 256;
        let pt = pts[(j % pts.len() as u64) as usize];
        let v = seed ^ i.wrapping_mul(0x2545F4914F6CDD1D);
        Some(Case { bytes: layout_case(pt, n >> 4, n & 15, [0; 3], hv, v), ops: ops_from(v, (v % 9) as usize) })
    }, check);
    // (a3) stand-alone standard path views: every seg-len triple (2^18 in thorough) at size-1 / size / size+1
    let t: Vec<u8> = if ctx.tier == vcore::Tier::Thorough { (0..64).collect() } else { vec![0, 1, 2, 3, 4, 31, 32, 62, 63] };
    let nt = t.len() as u64;
    ctx.run_enum("standalone-std-path", nt * nt * nt * 3, true, |i| {
        let mut j = i;
        let tr = j % 3; j /= 3;
        let s0 = t[(j % nt) as usize]; j /= nt;
        let s1 = t[(j % nt) as usize]; j /= nt;
        let s2 = t[(j % nt) as usize];
        let size = rw::std_path_size([s0, s1, s2]);
        let mut b = sp::fill(size + 1, seed ^ i);
        let w: u32 = ((i as u32 & 3) << 30) | (((i >> 2) as u32 & 63) << 24) | ((s0 as u32) << 12) | ((s1 as u32) << 6) | s2 as u32;
        b[..4].copy_from_slice(&w.to_be_bytes());
        b.truncate(match tr { 0 => size - 1, 1 => size, _ => size + 1 });
        Some(Case { bytes: b, ops: vec![] })
    }, check);
    // (a4) SCMP error messages quoting a packet cut at every length (quotes are truncated by design;
    // accessors that look into the quote - destination port of the offending datagram - must cope)
    {
        let mut inners: Vec<Vec<u8>> = vec![];
        for (dtl, stl) in [(0u8, 0u8), (3, 3), (0, 3)] {
            for (pt, seg) in [(0u8, [0u8; 3]), (1, [2, 0, 0]), (1, [2, 2, 2]), (2, [0; 3])] {
                for next in [17u8, 202, 6] {
                    let mut v = layout_case(pt, dtl, stl, seg, 0, 0x1234_5678 ^ ((dtl as u64) << 8) ^ pt as u64 ^ ((next as u64) << 16));
                    let hl = 28 + rw::host_len(dtl) + rw::host_len(stl) + match pt { 0 => 0, 1 => rw::std_path_size(seg), _ => 32 };
                    v.resize(hl + 12, 0x5a);
                    v[4] = next;
                    v[5] = (hl / 4) as u8;
                    v[6..8].copy_from_slice(&12u16.to_be_bytes());
                    v[8] = pt;
                    v[9] = (dtl << 4) | stl;
                    inners.push(v);
                }
            }
        }
        let types = [1u8, 2, 4, 5, 6];
        let per: u64 = inners.iter().map(|v| v.len() as u64 + 1).sum();
        let mut index: Vec<(usize, usize)> = vec![];
        for (i, v) in inners.iter().enumerate() { for k in 0..=v.len() { index.push((i, k)); } }
        ctx.run_enum("scmp-error-quote-truncations", per * types.len() as u64 * 2, true, |i| {
            let (ii, k) = index[(i % per) as usize];
            let ty = types[((i / per) % types.len() as u64) as usize];
            let outer_v6 = (i / per / types.len() as u64) % 2 == 1;
            let fixed = rw::RScmp::fixed_len(ty).unwrap();
            let (tl, hostlen) = if outer_v6 { (3u8, 16usize) } else { (0u8, 4usize) };
            let hl = 28 + 2 * hostlen;
            let l4 = 4 + fixed + k;
            let mut b = sp::fill(hl + l4, i ^ 77);
            b[0] &= 0x0f;
            b[4] = 202;
            b[5] = (hl / 4) as u8;
            b[6..8].copy_from_slice(&(l4 as u16).to_be_bytes());
            b[8] = 0;
            b[9] = (tl << 4) | tl;
            b[hl] = ty;
            b[hl + 4 + fixed..].copy_from_slice(&inners[ii][..k]);
            Some(Case { bytes: b, ops: ops_from(i, 4) })
        }, check);
    }
    // (b) random shaped buffers (the crate's own structure-aware biasing) and raw random bytes
    let n = ctx.tier.pick(400_000, 20_000_000);
    ctx.run_prop("shaped-random", n, || {
        (prop_oneof![4 => 0usize..200, 3 => 200usize..1300, 1 => 1300usize..9216], any::<u64>(), any::<bool>(), prop::collection::vec(any::<u8>(), 0..12)).prop_map(|(len, seed, shape, ops)| {
            let mut bytes = sp::fill(len, seed);
            if shape { sciparse::util::fuzz::packet_shape::bias_to_packet_shape(&mut bytes); }
            Case { bytes, ops }
        })
    }, check);
    // (c) valid packets from the model generator, then every truncation point / single byte mutation
    let n = ctx.tier.pick(60_000, 3_000_000);
    ctx.run_prop("valid-then-mutated", n, || {
        (sp::pkt_strategy(false, false), any::<u16>(), any::<u16>(), any::<u8>(), 0u8..4, prop::collection::vec(any::<u8>(), 0..12)).prop_map(|(spec, cut, pos, val, mode, ops)| {
            let mut bytes = spec.to_sut().try_encode_to_vec().unwrap_or_default();
            if bytes.len() > 2200 { bytes.truncate(2200); }
            let hl = spec.header_len().min(bytes.len());
            match mode {
                0 => {}
                1 => { let at = vcore::idx(cut, bytes.len() + 1); bytes.truncate(at); }
                2 => { if hl > 0 { let i = vcore::idx(pos, hl); bytes[i] = val; } }
                _ => { if hl > 0 { let i = vcore::idx(pos, hl); bytes[i] ^= 1 << (val % 8); let at = vcore::idx(cut, bytes.len() + 1); if val & 1 == 1 { bytes.truncate(at); } } }
            }
            Case { bytes, ops }
        })
    }, check);
}

fn post(ctx: &Ctx) {
    ctx.require_label("accepted-std-path", 1000);
    ctx.require_label("accepted-onehop-path", 100);
    ctx.require_label("accepted-unknown-path", 100);
    ctx.require_label("accepted-truncated-payload", 100);
    ctx.require_label("rejected-hdrlen", 1000);
    ctx.require_label("accepted-ScionUdpPacketView", 100);
    ctx.require_label("accepted-ScionScmpPacketView", 100);
    let profile = if cfg!(debug_assertions) { "debug-assertions ON (profile verif)" } else { "debug-assertions OFF (profile verifrel)" };
    ctx.extra("build", vcore::serde_json::json!(profile));
}

fn main() {
    let subs = [
        Sub { name: "bytes", run, replay: |c, v| { vcore::guard::install_fault_handler("C02", "bytes"); c.replay_case::<Case>("bytes", v, check) } },
        Sub { name: "layout-standard-path", run: |_| {}, replay: |c, v| { vcore::guard::install_fault_handler("C02", "bytes"); c.replay_case::<Case>("bytes", v, check) } },
        Sub { name: "layout-other-paths", run: |_| {}, replay: |c, v| { vcore::guard::install_fault_handler("C02", "bytes"); c.replay_case::<Case>("bytes", v, check) } },
        Sub { name: "scmp-error-quote-truncations", run: |_| {}, replay: |c, v| { vcore::guard::install_fault_handler("C02", "bytes"); c.replay_case::<Case>("bytes", v, check) } },
        Sub { name: "standalone-std-path", run: |_| {}, replay: |c, v| { vcore::guard::install_fault_handler("C02", "bytes"); c.replay_case::<Case>("bytes", v, check) } },
        Sub { name: "shaped-random", run: |_| {}, replay: |c, v| { vcore::guard::install_fault_handler("C02", "bytes"); c.replay_case::<Case>("bytes", v, check) } },
        Sub { name: "valid-then-mutated", run: |_| {}, replay: |c, v| { vcore::guard::install_fault_handler("C02", "bytes"); c.replay_case::<Case>("bytes", v, check) } },
    ];
    vcore::main(
        "C02",
        "cases = (byte string, accessor/mutator op sequence <= 12). Byte strings: enumerated layout space (path type x DT/DL x ST/SL nibbles (all 256 pairs) x segment-length triples ({0,1,2,3,31,62,63}^3 quick, all 2^18 thorough) x HdrLen in {exact, +1, -1, 0, 255}, with sampled CurrINF/CurrHF, PayloadLen in {0, exact+-1, 65535}, next header UDP/SCMP(all types)/other, UDP length variants, truncation at every field boundary +-1), stand-alone standard path views for every triple at size-1/size/size+1, random buffers shaped by the crate's own bias_to_packet_shape, model-generated valid packets with every truncation / byte mutation. Each accepted view's exact bytes are placed directly in front of (then directly behind) an inaccessible page and every view type/constructor, the crate's exec_every_view_function and a generated sequence of safe accessors/mutators (try_reverse, advance_*, set_curr_*, setters, Display/Debug, to_model, classify, payload) run on it. Oracles: no panic/abort/fault; reported size == size computed by an independent decoder and <= input; acceptance <=> reference consistency of the size-determining fields; typed views cover the raw view's bytes; safe mutators leave the layout unchanged (bytes re-parse to the same size); nothing outside the view is written. Non-trivial = accepted by a view constructor or rejected after the common header; distinct by (layout fields, size, ops).",
        &["guard pages detect out-of-bounds accesses at page granularity directly at the buffer end/start (exact placement), not aliasing/provenance UB", "unsafe fn setters are excluded: their contract is the caller's"],
        &subs,
        post,
    );
}
