//! Packet "specs": plain, serialisable descriptions of SCION packets from which both the
//! sciparse model and the expected wire content (via refmodel) are derived. Built by
//! construction (no rejection), boundary directed.

use proptest::prelude::*;
use refmodel::wire::{RHop, RInfo};
use sciparse::{
    core::encode::WireEncode,
    dataplane_path::{
        model::DpPath,
        onehop::model::OneHopPath,
        standard::{
            model::{HopField, InfoField, Segment, StandardPath},
            types::{HopFieldFlags, HopFieldMac, InfoFieldFlags},
        },
        types::PathType,
    },
    address::host_addr::{ServiceAddr, WireHostAddr},
    header::model::{AddressHeader, CommonHeader, ScionPacketHeader},
    identifier::isd_asn::IsdAsn,
    packet::model::{ScionPacket, ScionRawPacket, ScionScmpPacket, ScionUdpPacket},
    payload::{
        ProtocolNumber,
        scmp::model::{
            ScmpDestinationUnreachable, ScmpEchoReply, ScmpEchoRequest, ScmpExternalInterfaceDown,
            ScmpInternalConnectivityDown, ScmpMessage, ScmpMessageUnknown, ScmpPacketTooBig,
            ScmpParameterProblem, ScmpTracerouteReply, ScmpTracerouteRequest,
        },
        udp::model::UdpDatagram,
    },
};
use serde::{Deserialize, Serialize};

#[derive(Clone, Debug, PartialEq, Eq, Hash, Serialize, Deserialize)]
pub enum HostSpec {
    V4([u8; 4]),
    V6([u8; 16]),
    Svc(u16),
    Unknown { id: u8, bytes: Vec<u8> },
}
impl HostSpec {
    pub fn to_sut(&self) -> WireHostAddr {
        match self {
            HostSpec::V4(o) => WireHostAddr::V4((*o).into()),
            HostSpec::V6(o) => WireHostAddr::V6((*o).into()),
            HostSpec::Svc(s) => WireHostAddr::Svc(ServiceAddr(*s)),
            HostSpec::Unknown { id, bytes } => {
                let mut av = sciparse::reexport::tinyvec::ArrayVec::<[u8; 16]>::new();
                for b in bytes.iter().take(16) {
                    av.push(*b);
                }
                WireHostAddr::Unknown { id: *id, bytes: av }
            }
        }
    }
    /// (type/len nibble, bytes) per the SCION address type table
    pub fn wire(&self) -> (u8, Vec<u8>) {
        match self {
            HostSpec::V4(o) => (0b0000, o.to_vec()),
            HostSpec::V6(o) => (0b0011, o.to_vec()),
            HostSpec::Svc(s) => (0b0100, vec![(s >> 8) as u8, *s as u8, 0, 0]),
            HostSpec::Unknown { id, bytes } => (((id & 3) << 2) | ((bytes.len() / 4).max(1) as u8 - 1), bytes.clone()),
        }
    }
    /// representable and not aliasing a known type
    pub fn representable(&self) -> bool {
        match self {
            HostSpec::Unknown { id, bytes } => {
                *id < 4 && !bytes.is_empty() && bytes.len() % 4 == 0 && bytes.len() <= 16 && {
                    let n = (id << 2) | (bytes.len() / 4 - 1) as u8;
                    !matches!(n, 0b0000 | 0b0011 | 0b0100)
                }
            }
            _ => true,
        }
    }
}

#[derive(Clone, Debug, PartialEq, Eq, Hash, Serialize, Deserialize)]
pub struct SegSpec {
    pub info: RInfo,
    pub hops: Vec<RHop>,
}
#[derive(Clone, Debug, PartialEq, Eq, Hash, Serialize, Deserialize)]
pub enum PathSpec {
    Empty,
    Std { curr_inf: u8, curr_hf: u8, segs: Vec<SegSpec> },
    OneHop { info: RInfo, hops: [RHop; 2] },
    Unsupported { ty: u8, data: Vec<u8> },
}

pub fn sut_info(i: &RInfo) -> InfoField {
    InfoField { flags: InfoFieldFlags::from_bits_retain(i.flags), segment_id: i.seg_id, timestamp: i.ts }
}
pub fn sut_hop(h: &RHop) -> HopField {
    HopField { flags: HopFieldFlags::from_bits_retain(h.flags), expiration_units: h.exp, cons_ingress: h.ing, cons_egress: h.eg, mac: HopFieldMac(h.mac) }
}

impl PathSpec {
    pub fn to_sut(&self) -> DpPath {
        match self {
            PathSpec::Empty => DpPath::Empty,
            PathSpec::Std { curr_inf, curr_hf, segs } => {
                let mut p = StandardPath::new_empty();
                p.current_info_field = *curr_inf;
                p.current_hop_field = *curr_hf;
                for s in segs.iter().take(3) {
                    let mut seg = Segment::default();
                    seg.info_field = sut_info(&s.info);
                    for h in &s.hops {
                        seg.hop_fields.push(sut_hop(h));
                    }
                    p.segments.push(seg);
                }
                DpPath::Standard(p)
            }
            PathSpec::OneHop { info, hops } => DpPath::OneHop(OneHopPath::new_from_parts(sut_info(info), [sut_hop(&hops[0]), sut_hop(&hops[1])])),
            PathSpec::Unsupported { ty, data } => DpPath::Unsupported { path_type: PathType::from(*ty), data: data.clone() },
        }
    }
    pub fn wire_type(&self) -> u8 {
        match self {
            PathSpec::Empty => 0,
            PathSpec::Std { .. } => 1,
            PathSpec::OneHop { .. } => 2,
            PathSpec::Unsupported { ty, .. } => *ty,
        }
    }
    pub fn wire_len(&self) -> usize {
        match self {
            PathSpec::Empty => 0,
            PathSpec::Std { segs, .. } => 4 + segs.iter().map(|s| 8 + 12 * s.hops.len()).sum::<usize>(),
            PathSpec::OneHop { .. } => 32,
            PathSpec::Unsupported { data, .. } => data.len(),
        }
    }
    pub fn representable(&self) -> bool {
        match self {
            PathSpec::Empty | PathSpec::OneHop { .. } => true,
            PathSpec::Std { curr_inf, curr_hf, segs } => {
                let n: usize = segs.iter().map(|s| s.hops.len()).sum();
                !segs.is_empty()
                    && segs.len() <= 3
                    && segs.iter().all(|s| !s.hops.is_empty() && s.hops.len() <= 63)
                    && (*curr_inf as usize) < segs.len()
                    && (*curr_hf as usize) < n
                    && *curr_hf <= 63
            }
            PathSpec::Unsupported { ty, data } => *ty > 2 && data.len() % 4 == 0,
        }
    }
    pub fn hop_count(&self) -> usize {
        match self {
            PathSpec::Std { segs, .. } => segs.iter().map(|s| s.hops.len()).sum(),
            PathSpec::OneHop { .. } => 2,
            _ => 0,
        }
    }
}

/// deterministic filler bytes (keeps cases small: a payload is (len, seed))
pub fn fill(len: usize, seed: u64) -> Vec<u8> {
    let mut x = seed | 1;
    (0..len)
        .map(|_| {
            x ^= x << 13;
            x ^= x >> 7;
            x ^= x << 17;
            (x >> 24) as u8
        })
        .collect()
}

#[derive(Clone, Debug, PartialEq, Eq, Hash, Serialize, Deserialize)]
pub enum ScmpSpec {
    DestUnreachable { code: u8, quote_len: usize },
    PacketTooBig { mtu: u16, quote_len: usize },
    ParameterProblem { code: u8, pointer: u16, quote_len: usize },
    ExtIfDown { ia: u64, ifid: u16, quote_len: usize },
    IntConnDown { ia: u64, ing: u16, eg: u16, quote_len: usize },
    EchoRequest { id: u16, seq: u16, data_len: usize },
    EchoReply { id: u16, seq: u16, data_len: usize },
    TracerouteRequest { id: u16, seq: u16 },
    TracerouteReply { id: u16, seq: u16, ia: u64, ifid: u16 },
    Unknown { ty: u8, code: u8, data_len: usize },
}
impl ScmpSpec {
    pub fn to_sut(&self, seed: u64) -> ScmpMessage {
        match *self {
            ScmpSpec::DestUnreachable { code, quote_len } => ScmpDestinationUnreachable::new(code.into(), fill(quote_len, seed)).into(),
            ScmpSpec::PacketTooBig { mtu, quote_len } => ScmpPacketTooBig::new(mtu, fill(quote_len, seed)).into(),
            ScmpSpec::ParameterProblem { code, pointer, quote_len } => ScmpParameterProblem::new(code.into(), pointer, fill(quote_len, seed)).into(),
            ScmpSpec::ExtIfDown { ia, ifid, quote_len } => ScmpExternalInterfaceDown::new(IsdAsn(ia), ifid, fill(quote_len, seed)).into(),
            ScmpSpec::IntConnDown { ia, ing, eg, quote_len } => ScmpInternalConnectivityDown::new(IsdAsn(ia), ing, eg, fill(quote_len, seed)).into(),
            ScmpSpec::EchoRequest { id, seq, data_len } => ScmpEchoRequest::new(id, seq, fill(data_len, seed)).into(),
            ScmpSpec::EchoReply { id, seq, data_len } => ScmpEchoReply::new(id, seq, fill(data_len, seed)).into(),
            ScmpSpec::TracerouteRequest { id, seq } => ScmpTracerouteRequest::new(id, seq).into(),
            ScmpSpec::TracerouteReply { id, seq, ia, ifid } => ScmpTracerouteReply::new(id, seq, IsdAsn(ia), ifid).into(),
            ScmpSpec::Unknown { ty, code, data_len } => ScmpMessageUnknown::new(ty, code, fill(data_len, seed)).into(),
        }
    }
    pub fn wire_type(&self) -> u8 {
        match self {
            ScmpSpec::DestUnreachable { .. } => 1,
            ScmpSpec::PacketTooBig { .. } => 2,
            ScmpSpec::ParameterProblem { .. } => 4,
            ScmpSpec::ExtIfDown { .. } => 5,
            ScmpSpec::IntConnDown { .. } => 6,
            ScmpSpec::EchoRequest { .. } => 128,
            ScmpSpec::EchoReply { .. } => 129,
            ScmpSpec::TracerouteRequest { .. } => 130,
            ScmpSpec::TracerouteReply { .. } => 131,
            ScmpSpec::Unknown { ty, .. } => *ty,
        }
    }
    pub fn is_error(&self) -> bool {
        self.quote_len().is_some()
    }
    pub fn quote_len(&self) -> Option<usize> {
        match self {
            ScmpSpec::DestUnreachable { quote_len, .. }
            | ScmpSpec::PacketTooBig { quote_len, .. }
            | ScmpSpec::ParameterProblem { quote_len, .. }
            | ScmpSpec::ExtIfDown { quote_len, .. }
            | ScmpSpec::IntConnDown { quote_len, .. } => Some(*quote_len),
            _ => None,
        }
    }
    /// expected SCMP message bytes after the 4 byte header up to (excluding) quote/data
    pub fn fixed_bytes(&self) -> Vec<u8> {
        let mut o = vec![];
        let ia_if = |o: &mut Vec<u8>, ia: u64, ifs: &[u16]| {
            o.extend_from_slice(&ia.to_be_bytes());
            for i in ifs {
                o.extend_from_slice(&(*i as u64).to_be_bytes());
            }
        };
        match *self {
            ScmpSpec::DestUnreachable { .. } => o.extend_from_slice(&[0; 4]),
            ScmpSpec::PacketTooBig { mtu, .. } => { o.extend_from_slice(&[0, 0]); o.extend_from_slice(&mtu.to_be_bytes()); }
            ScmpSpec::ParameterProblem { pointer, .. } => { o.extend_from_slice(&[0, 0]); o.extend_from_slice(&pointer.to_be_bytes()); }
            ScmpSpec::ExtIfDown { ia, ifid, .. } => ia_if(&mut o, ia, &[ifid]),
            ScmpSpec::IntConnDown { ia, ing, eg, .. } => ia_if(&mut o, ia, &[ing, eg]),
            ScmpSpec::EchoRequest { id, seq, .. } | ScmpSpec::EchoReply { id, seq, .. } => { o.extend_from_slice(&id.to_be_bytes()); o.extend_from_slice(&seq.to_be_bytes()); }
            ScmpSpec::TracerouteRequest { id, seq } => { o.extend_from_slice(&id.to_be_bytes()); o.extend_from_slice(&seq.to_be_bytes()); ia_if(&mut o, 0, &[0]); }
            ScmpSpec::TracerouteReply { id, seq, ia, ifid } => { o.extend_from_slice(&id.to_be_bytes()); o.extend_from_slice(&seq.to_be_bytes()); ia_if(&mut o, ia, &[ifid]); }
            ScmpSpec::Unknown { .. } => {}
        }
        o
    }
    pub fn code(&self) -> u8 {
        match *self {
            ScmpSpec::DestUnreachable { code, .. } | ScmpSpec::ParameterProblem { code, .. } | ScmpSpec::Unknown { code, .. } => code,
            _ => 0,
        }
    }
    pub fn tail_len(&self) -> usize {
        match *self {
            ScmpSpec::EchoRequest { data_len, .. } | ScmpSpec::EchoReply { data_len, .. } | ScmpSpec::Unknown { data_len, .. } => data_len,
            _ => self.quote_len().unwrap_or(0),
        }
    }
}

#[derive(Clone, Debug, PartialEq, Eq, Hash, Serialize, Deserialize)]
pub enum PayloadSpec {
    Raw { next: u8, len: usize },
    Udp { src_port: u16, dst_port: u16, len: usize },
    Scmp(ScmpSpec),
}

#[derive(Clone, Debug, PartialEq, Eq, Hash, Serialize, Deserialize)]
pub struct PktSpec {
    pub tc: u8,
    pub flow: u32,
    pub dst_ia: u64,
    pub src_ia: u64,
    pub dst_host: HostSpec,
    pub src_host: HostSpec,
    pub path: PathSpec,
    pub payload: PayloadSpec,
    pub seed: u64,
}

pub enum SutPacket {
    Raw(ScionRawPacket),
    Udp(ScionUdpPacket),
    Scmp(ScionScmpPacket),
}

impl PktSpec {
    pub fn header(&self, next: ProtocolNumber) -> ScionPacketHeader {
        ScionPacketHeader {
            common: CommonHeader { traffic_class: self.tc, flow_id: self.flow, next_header: next },
            address: AddressHeader { dst_ia: IsdAsn(self.dst_ia), src_ia: IsdAsn(self.src_ia), dst_host_addr: self.dst_host.to_sut(), src_host_addr: self.src_host.to_sut() },
            path: self.path.to_sut(),
        }
    }
    pub fn header_len(&self) -> usize {
        12 + 16 + self.dst_host.wire().1.len() + self.src_host.wire().1.len() + self.path.wire_len()
    }
    pub fn to_sut(&self) -> SutPacket {
        match &self.payload {
            PayloadSpec::Raw { next, len } => SutPacket::Raw(ScionPacket { header: self.header(ProtocolNumber::from(*next)), payload: fill(*len, self.seed) }),
            PayloadSpec::Udp { src_port, dst_port, len } => SutPacket::Udp(ScionPacket { header: self.header(ProtocolNumber::Udp), payload: UdpDatagram::new(*src_port, *dst_port, fill(*len, self.seed)) }),
            PayloadSpec::Scmp(s) => SutPacket::Scmp(ScionPacket { header: self.header(ProtocolNumber::Scmp), payload: s.to_sut(self.seed) }),
        }
    }
    pub fn header_representable(&self) -> bool {
        self.flow < (1 << 20) && self.dst_host.representable() && self.src_host.representable() && self.path.representable() && self.header_len() <= 1020 && self.header_len() % 4 == 0
    }
    /// upper-layer message length that would be needed
    pub fn l4_len(&self) -> usize {
        match &self.payload {
            PayloadSpec::Raw { len, .. } => *len,
            PayloadSpec::Udp { len, .. } => 8 + len,
            PayloadSpec::Scmp(s) => {
                let fixed = 4 + s.fixed_bytes().len();
                if s.is_error() {
                    let budget = 1232usize.saturating_sub(self.header_len()).saturating_sub(fixed);
                    fixed + s.tail_len().min(budget)
                } else {
                    fixed + s.tail_len()
                }
            }
        }
    }
    pub fn representable(&self) -> bool {
        self.header_representable() && self.l4_len() <= 65535
    }
}

impl SutPacket {
    pub fn wire_valid(&self) -> bool {
        match self {
            SutPacket::Raw(p) => p.wire_valid().is_ok(),
            SutPacket::Udp(p) => p.wire_valid().is_ok(),
            SutPacket::Scmp(p) => p.wire_valid().is_ok(),
        }
    }
    pub fn required_size(&self) -> usize {
        match self {
            SutPacket::Raw(p) => p.required_size(),
            SutPacket::Udp(p) => p.required_size(),
            SutPacket::Scmp(p) => p.required_size(),
        }
    }
    pub fn try_encode_to_vec(&self) -> Result<Vec<u8>, String> {
        match self {
            SutPacket::Raw(p) => p.try_encode_to_vec().map_err(|e| e.to_string()),
            SutPacket::Udp(p) => p.try_encode_to_vec().map_err(|e| e.to_string()),
            SutPacket::Scmp(p) => p.try_encode_to_vec().map_err(|e| e.to_string()),
        }
    }
    pub fn try_encode(&self, buf: &mut [u8]) -> Result<usize, String> {
        match self {
            SutPacket::Raw(p) => p.try_encode(buf).map_err(|e| e.to_string()),
            SutPacket::Udp(p) => p.try_encode(buf).map_err(|e| e.to_string()),
            SutPacket::Scmp(p) => p.try_encode(buf).map_err(|e| e.to_string()),
        }
    }
}

// ------------------------------------------------------------------------------- strategies

pub fn host_strategy(with_odd: bool) -> BoxedStrategy<HostSpec> {
    let ok = prop_oneof![
        3 => any::<[u8; 4]>().prop_map(HostSpec::V4),
        3 => any::<[u8; 16]>().prop_map(HostSpec::V6),
        1 => any::<[u8; 4]>().prop_map(|o| HostSpec::V6(std::net::Ipv4Addr::from(o).to_ipv6_mapped().octets())),
        2 => prop_oneof![Just(1u16), Just(2), Just(0x10), Just(0x8002), Just(0xffff), any::<u16>()].prop_map(HostSpec::Svc),
        // representable unknown types: all (id,len) except the three known nibbles
        2 => (0u8..4, 1usize..=4, any::<u64>()).prop_map(|(id, l, seed)| {
            let mut id = id;
            let n = (id << 2) | (l as u8 - 1);
            if matches!(n, 0b0000 | 0b0011 | 0b0100) { id = 2; }
            HostSpec::Unknown { id, bytes: fill(l * 4, seed) }
        }),
    ];
    if with_odd {
        prop_oneof![
            60 => ok,
            // not representable: id beyond 2 bits, aliases of known types, odd lengths
            1 => (4u8..=255, 1usize..=4, any::<u64>()).prop_map(|(id, l, seed)| HostSpec::Unknown { id, bytes: fill(l * 4, seed) }),
            1 => prop_oneof![Just((0u8, 4usize)), Just((0, 16)), Just((1, 4))].prop_map(|(id, l)| HostSpec::Unknown { id, bytes: fill(l, 7) }),
            1 => (0u8..4, prop_oneof![Just(0usize), Just(1), Just(3), Just(5), Just(15)], any::<u64>()).prop_map(|(id, l, seed)| HostSpec::Unknown { id, bytes: fill(l, seed) }),
        ]
        .boxed()
    } else {
        ok.boxed()
    }
}

pub fn info_strategy() -> impl Strategy<Value = RInfo> {
    (prop_oneof![Just(0u8), Just(1), Just(2), Just(3), any::<u8>()], any::<u16>(), prop_oneof![Just(0u32), Just(u32::MAX), any::<u32>()])
        .prop_map(|(flags, seg_id, ts)| RInfo { flags, rsv: 0, seg_id, ts })
}
pub fn hop_strategy() -> impl Strategy<Value = RHop> {
    (prop_oneof![4 => Just(0u8), 1 => Just(1), 1 => Just(2), 1 => Just(3), 1 => any::<u8>()], prop_oneof![Just(0u8), Just(63), Just(255), any::<u8>()], prop_oneof![Just(0u16), Just(1), Just(u16::MAX), any::<u16>()], prop_oneof![Just(0u16), Just(1), Just(u16::MAX), any::<u16>()], any::<[u8; 6]>())
        .prop_map(|(flags, exp, ing, eg, mac)| RHop { flags, exp, ing, eg, mac })
}

/// segment length: boundary directed
fn seglen() -> impl Strategy<Value = usize> {
    prop_oneof![6 => 1usize..=4, 2 => 5usize..=20, 1 => Just(62usize), 1 => Just(63usize), 1 => 21usize..=63]
}

pub fn std_path_strategy(with_odd: bool) -> BoxedStrategy<PathSpec> {
    let shape = prop_oneof![
        4 => prop::collection::vec(seglen(), 1..=3),
        // total around the CurrHF limit (64) and the header limit
        1 => prop_oneof![Just(vec![63usize, 1]), Just(vec![32, 32]), Just(vec![32, 33]), Just(vec![21, 21, 22]), Just(vec![40, 30]), Just(vec![26, 26, 26]), Just(vec![26, 26, 27]), Just(vec![63, 16])],
    ];
    let valid = (shape, any::<u16>(), any::<u16>(), any::<u64>()).prop_flat_map(|(lens, ci, ch, _)| {
        let total: usize = lens.iter().sum();
        let nseg = lens.len();
        let segs: Vec<_> = lens.iter().map(|l| (info_strategy(), prop::collection::vec(hop_strategy(), *l..=*l)).prop_map(|(info, hops)| SegSpec { info, hops })).collect();
        (segs, Just(vcore::idx(ci, nseg) as u8), Just(vcore::idx(ch, total.min(64)) as u8)).prop_map(|(segs, curr_inf, curr_hf)| PathSpec::Std { curr_inf, curr_hf, segs })
    });
    if with_odd {
        prop_oneof![
            40 => valid,
            // pointers out of range / beyond 6 bits, empty segment lists, empty segments
            1 => (prop::collection::vec((info_strategy(), prop::collection::vec(hop_strategy(), 0..3)).prop_map(|(info, hops)| SegSpec { info, hops }), 0..=3), any::<u8>(), any::<u8>())
                .prop_map(|(segs, curr_inf, curr_hf)| PathSpec::Std { curr_inf, curr_hf, segs }),
            1 => (prop_oneof![Just(vec![40usize, 30]), Just(vec![26, 26, 27]), Just(vec![63, 16]), Just(vec![33, 32])], 64u8..=78).prop_flat_map(|(lens, curr_hf)| {
                let segs: Vec<_> = lens.iter().map(|l| (info_strategy(), prop::collection::vec(hop_strategy(), *l..=*l)).prop_map(|(info, hops)| SegSpec { info, hops })).collect();
                (segs, Just(curr_hf)).prop_map(|(segs, curr_hf)| { let n = segs.len() as u8; PathSpec::Std { curr_inf: n - 1, curr_hf, segs } })
            }),
        ]
        .boxed()
    } else {
        valid.boxed()
    }
}

pub fn path_strategy(with_odd: bool) -> BoxedStrategy<PathSpec> {
    let unsupported_ok = (prop_oneof![Just(3u8), Just(4), Just(5), Just(255), 3u8..=255], 0usize..=60, any::<u64>()).prop_map(|(ty, words, seed)| PathSpec::Unsupported { ty, data: fill(words * 4, seed) });
    let base = prop_oneof![
        2 => Just(PathSpec::Empty),
        8 => std_path_strategy(with_odd),
        2 => (info_strategy(), hop_strategy(), hop_strategy()).prop_map(|(info, a, b)| PathSpec::OneHop { info, hops: [a, b] }),
        1 => unsupported_ok,
    ];
    if with_odd {
        prop_oneof![
            40 => base,
            1 => (0u8..=2, 0usize..=12, any::<u64>()).prop_map(|(ty, words, seed)| PathSpec::Unsupported { ty, data: fill(words * 4, seed) }),
            1 => (3u8..=255, prop_oneof![Just(1usize), Just(2), Just(3), Just(5), Just(985), Just(988), Just(1000)], any::<u64>()).prop_map(|(ty, len, seed)| PathSpec::Unsupported { ty, data: fill(len, seed) }),
        ]
        .boxed()
    } else {
        base.boxed()
    }
}

/// payload length relative to 16-bit limits (`hdr` = SCION header length, `l4hdr` = 8 for UDP)
pub fn len_strategy(big: bool) -> BoxedStrategy<usize> {
    if big {
        prop_oneof![
            6 => 0usize..=64,
            3 => 64usize..=1500,
            1 => 1500usize..=9216,
            2 => (65535usize - 1100)..=(65535 + 40),
            1 => Just(65535usize), 1 => Just(65536usize), 1 => Just(65527usize), 1 => Just(65528usize), 1 => Just(70_000usize), 1 => Just(131_071usize),
        ]
        .boxed()
    } else {
        prop_oneof![6 => 0usize..=64, 3 => 64usize..=1500, 1 => 1500usize..=9216].boxed()
    }
}

pub fn scmp_strategy(big: bool) -> BoxedStrategy<ScmpSpec> {
    // quote lengths around the 1232-byte budget (header sizes vary between 36 and 1020)
    let q = prop_oneof![4 => 0usize..=64, 3 => 64usize..=1300, 2 => 1100usize..=1240, 1 => 1240usize..=9216];
    let ia = prop_oneof![Just(0u64), Just(u64::MAX), any::<u64>()];
    prop_oneof![
        (prop_oneof![0u8..8, any::<u8>()], q.clone()).prop_map(|(code, quote_len)| ScmpSpec::DestUnreachable { code, quote_len }),
        (any::<u16>(), q.clone()).prop_map(|(mtu, quote_len)| ScmpSpec::PacketTooBig { mtu, quote_len }),
        (prop_oneof![Just(0u8), Just(1), Just(16), Just(17), Just(20), Just(21), Just(32), Just(48), Just(49), Just(50), Just(64), any::<u8>()], any::<u16>(), q.clone()).prop_map(|(code, pointer, quote_len)| ScmpSpec::ParameterProblem { code, pointer, quote_len }),
        (ia.clone(), any::<u16>(), q.clone()).prop_map(|(ia, ifid, quote_len)| ScmpSpec::ExtIfDown { ia, ifid, quote_len }),
        (ia.clone(), any::<u16>(), any::<u16>(), q).prop_map(|(ia, ing, eg, quote_len)| ScmpSpec::IntConnDown { ia, ing, eg, quote_len }),
        (any::<u16>(), any::<u16>(), len_strategy(big)).prop_map(|(id, seq, data_len)| ScmpSpec::EchoRequest { id, seq, data_len }),
        (any::<u16>(), any::<u16>(), len_strategy(big)).prop_map(|(id, seq, data_len)| ScmpSpec::EchoReply { id, seq, data_len }),
        (any::<u16>(), any::<u16>()).prop_map(|(id, seq)| ScmpSpec::TracerouteRequest { id, seq }),
        (any::<u16>(), any::<u16>(), ia, any::<u16>()).prop_map(|(id, seq, ia, ifid)| ScmpSpec::TracerouteReply { id, seq, ia, ifid }),
        (prop_oneof![Just(0u8), Just(3), Just(7), Just(100), Just(127), Just(132), Just(200), Just(255)], any::<u8>(), 0usize..=200).prop_map(|(ty, code, data_len)| ScmpSpec::Unknown { ty, code, data_len }),
    ]
    .boxed()
}

pub fn payload_strategy(big: bool) -> BoxedStrategy<PayloadSpec> {
    prop_oneof![
        3 => (prop_oneof![Just(6u8), Just(43), Just(201), Just(203), Just(0), Just(255), any::<u8>()], len_strategy(big)).prop_map(|(next, len)| {
            // raw packets carrying the UDP/SCMP protocol number are generated through Udp/Scmp
            let next = if next == 17 || next == 202 { 203 } else { next };
            PayloadSpec::Raw { next, len }
        }),
        4 => (any::<u16>(), any::<u16>(), len_strategy(big)).prop_map(|(src_port, dst_port, len)| PayloadSpec::Udp { src_port, dst_port, len }),
        5 => scmp_strategy(big).prop_map(PayloadSpec::Scmp),
    ]
    .boxed()
}

/// `with_odd`: also produce models that are not representable on the wire
pub fn pkt_strategy(with_odd: bool, big: bool) -> BoxedStrategy<PktSpec> {
    let flow = if with_odd {
        prop_oneof![18 => Just(0u32), 6 => Just((1u32 << 20) - 1), 18 => 0u32..(1 << 20), 1 => Just(1u32 << 20), 1 => any::<u32>()].boxed()
    } else {
        prop_oneof![6 => Just(0u32), 2 => Just((1u32 << 20) - 1), 6 => 0u32..(1 << 20)].boxed()
    };
    let ia = || prop_oneof![Just(0u64), Just(u64::MAX), Just(0x0001_ff00_0000_0110u64), any::<u64>()];
    (prop_oneof![Just(0u8), Just(255), any::<u8>()], flow, ia(), ia(), host_strategy(with_odd), host_strategy(with_odd), path_strategy(with_odd), payload_strategy(big), any::<u64>())
        .prop_map(|(tc, flow, dst_ia, src_ia, dst_host, src_host, path, payload, seed)| PktSpec { tc, flow, dst_ia, src_ia, dst_host, src_host, path, payload, seed })
        .boxed()
}
