//! Generators for valid SCION topologies (reference representation `refmodel::topo::Topo`).
//! Validity rules are those of a SCION deployment (and of pocketscion's topology builder):
//! cores of an ISD are interconnected by core links; parent->child links form a DAG inside an
//! ISD rooted at cores; links between ISDs are core-core or peering; one link per interface;
//! interface ids are non-zero, unique per AS (collisions *across* ASes are deliberately common).

use proptest::prelude::*;
use refmodel::topo::{AsNode, Link, LinkKind, Topo, ia};
use serde::{Deserialize, Serialize};

/// Compact, serialisable description from which the topology is built deterministically.
#[derive(Clone, Debug, PartialEq, Eq, Hash, Serialize, Deserialize)]
pub struct TopoSpec {
    /// per ISD: (number of cores >= 1, number of non-core ASes)
    pub isds: Vec<(u8, u8)>,
    /// extra random choices
    pub seed: u64,
    /// parent choice per non-core AS (global order): bitmask over the candidate parents
    pub parents: Vec<u16>,
    /// number of parallel links for the n-th parent-child edge (1 or 2), cycled
    pub multi: Vec<u8>,
    /// peering links between non-core ASes: (index a, index b) into the non-core list
    pub peers: Vec<(u8, u8)>,
    /// style of interface numbering: 0 = small shared pool (1,2,3,..), 1 = boundary pool, 2 = random
    pub if_style: u8,
    /// extra core links inside/between ISDs beyond the spanning chain: pairs of core indices
    pub extra_core: Vec<(u8, u8)>,
}

fn mix(seed: u64, a: u64) -> u64 {
    let mut x = seed ^ a.wrapping_mul(0x9e3779b97f4a7c15);
    x ^= x >> 29;
    x = x.wrapping_mul(0xbf58476d1ce4e5b9);
    x ^= x >> 32;
    x
}

const MTUS: [u16; 6] = [1280, 1400, 1472, 1500, 9000, 65535];

struct IfAlloc {
    used: Vec<Vec<u16>>,
    style: u8,
    seed: u64,
    n: u64,
}
impl IfAlloc {
    fn next(&mut self, a: usize) -> u16 {
        loop {
            self.n += 1;
            let r = mix(self.seed, self.n);
            let cand = match self.style % 3 {
                0 => (self.used[a].len() as u16) + 1,
                1 => [1u16, 2, 3, 255, 256, 65535, 4, 257][(r % 8) as usize],
                _ => ((r >> 8) % 65535) as u16 + 1,
            };
            if cand != 0 && !self.used[a].contains(&cand) {
                self.used[a].push(cand);
                return cand;
            }
            // fall back to a fresh small number when the pool is exhausted
            if self.n % 64 == 0 {
                self.style = 2;
            }
        }
    }
}

impl TopoSpec {
    pub fn build(&self) -> Topo {
        let mut t = Topo::default();
        let mut cores: Vec<Vec<usize>> = vec![];
        let mut noncores: Vec<Vec<usize>> = vec![];
        for (i, (nc, nn)) in self.isds.iter().enumerate() {
            let isd = i as u16 + 1;
            let mut c = vec![];
            for k in 0..(*nc).max(1) {
                let idx = t.ases.len();
                let r = mix(self.seed, 1000 + idx as u64);
                let mut key = [0u8; 16];
                for (j, b) in key.iter_mut().enumerate() { *b = (mix(r, j as u64) >> 17) as u8; }
                t.ases.push(AsNode { ia: ia(isd, 0xff00_0000_0100 + k as u64), core: true, key, mtu: MTUS[(r % 6) as usize] });
                c.push(idx);
            }
            let mut n = vec![];
            for k in 0..*nn {
                let idx = t.ases.len();
                let r = mix(self.seed, 1000 + idx as u64);
                let mut key = [0u8; 16];
                for (j, b) in key.iter_mut().enumerate() { *b = (mix(r, j as u64) >> 17) as u8; }
                // AS numbers collide across ISDs on purpose (same AS part, different ISD)
                t.ases.push(AsNode { ia: ia(isd, 0xff00_0000_0200 + k as u64), core: false, key, mtu: MTUS[(r % 6) as usize] });
                n.push(idx);
            }
            cores.push(c);
            noncores.push(n);
        }
        let mut ifs = IfAlloc { used: vec![vec![]; t.ases.len()], style: self.if_style, seed: self.seed, n: 0 };
        let add = |t: &mut Topo, ifs: &mut IfAlloc, a: usize, b: usize, kind: LinkKind| {
            let a_if = ifs.next(a);
            let b_if = ifs.next(b);
            let r = mix(self.seed, 5000 + t.links.len() as u64);
            t.links.push(Link { a, a_if, b, b_if, kind, up: true, mtu: MTUS[(r % 6) as usize] });
        };
        // core mesh: chain inside each ISD, chain between ISDs, plus extras
        let flat_cores: Vec<usize> = cores.iter().flatten().copied().collect();
        for c in &cores {
            for w in c.windows(2) {
                add(&mut t, &mut ifs, w[0], w[1], LinkKind::Core);
            }
        }
        for w in cores.windows(2) {
            add(&mut t, &mut ifs, w[0][0], w[1][0], LinkKind::Core);
        }
        for (x, y) in &self.extra_core {
            let a = flat_cores[*x as usize % flat_cores.len()];
            let b = flat_cores[*y as usize % flat_cores.len()];
            if a != b {
                add(&mut t, &mut ifs, a, b, LinkKind::Core);
            }
        }
        // parent-child DAG per ISD: candidates = cores of the ISD + earlier non-core ASes
        let mut k = 0usize;
        let mut edge_no = 0usize;
        for (i, n) in noncores.iter().enumerate() {
            for (pos, child) in n.iter().enumerate() {
                let mut cand: Vec<usize> = cores[i].clone();
                cand.extend(&n[..pos]);
                let mask = self.parents.get(k).copied().unwrap_or(1);
                k += 1;
                let mut chosen: Vec<usize> = cand.iter().enumerate().filter(|(j, _)| mask >> (j % 16) & 1 == 1).map(|(_, a)| *a).collect();
                if chosen.is_empty() {
                    chosen.push(cand[mask as usize % cand.len()]);
                }
                chosen.truncate(3);
                for p in chosen {
                    let m = if self.multi.is_empty() { 1 } else { self.multi[edge_no % self.multi.len()].clamp(1, 2) };
                    edge_no += 1;
                    for _ in 0..m {
                        add(&mut t, &mut ifs, p, *child, LinkKind::ParentChild);
                    }
                }
            }
        }
        // peering between non-core ASes (any ISD), not between an AS and itself
        let flat_nc: Vec<usize> = noncores.iter().flatten().copied().collect();
        if flat_nc.len() >= 2 {
            for (x, y) in &self.peers {
                let a = flat_nc[*x as usize % flat_nc.len()];
                let b = flat_nc[*y as usize % flat_nc.len()];
                if a != b {
                    add(&mut t, &mut ifs, a, b, LinkKind::Peer);
                }
            }
        }
        t
    }
    pub fn as_count(&self) -> usize {
        self.isds.iter().map(|(c, n)| (*c).max(1) as usize + *n as usize).sum()
    }
}

/// random topologies up to ~14 ASes, 3 ISDs, 4 peering links, parallel links
pub fn topo_strategy(max_isds: usize, max_noncore: u8) -> impl Strategy<Value = TopoSpec> {
    (
        prop::collection::vec((1u8..=2, 0u8..=max_noncore), 1..=max_isds),
        any::<u64>(),
        prop::collection::vec(prop_oneof![3 => Just(1u16), 2 => Just(2u16), 2 => Just(3u16), 1 => Just(5u16), 1 => Just(6u16), 1 => any::<u16>()], 0..16),
        prop::collection::vec(prop_oneof![4 => Just(1u8), 1 => Just(2u8)], 0..6),
        prop::collection::vec((any::<u8>(), any::<u8>()), 0..=4),
        0u8..3,
        prop::collection::vec((any::<u8>(), any::<u8>()), 0..3),
    )
        .prop_map(|(isds, seed, parents, multi, peers, if_style, extra_core)| TopoSpec { isds, seed, parents, multi, peers, if_style, extra_core })
}

/// The systematically enumerated family of small topologies:
/// ISDs in {1,2} x cores per ISD in {1,2} x non-core ASes (first ISD) 0..=3 with every parent
/// mask x second ISD 0..=1 non-core x {no peering, one peering link at each pair} x
/// {single, double} first parent link.
pub fn small_family() -> Vec<TopoSpec> {
    let mut out = vec![];
    for n_isd in 1..=2usize {
        for c0 in 1..=2u8 {
            for c1 in if n_isd == 2 { 1..=2u8 } else { 1..=1u8 } {
                for n0 in 0..=3u8 {
                    for n1 in if n_isd == 2 { 0..=1u8 } else { 0..=0u8 } {
                        // parent masks: for the k-th non-core AS of ISD 0 the candidates are c0 cores + k earlier
                        let mut masks: Vec<Vec<u16>> = vec![vec![]];
                        for k in 0..n0 {
                            let cand = c0 as u32 + k as u32;
                            let mut next = vec![];
                            for m in &masks {
                                for mask in 1u16..(1 << cand) {
                                    if mask.count_ones() <= 2 {
                                        let mut v = m.clone();
                                        v.push(mask);
                                        next.push(v);
                                    }
                                }
                            }
                            masks = next;
                        }
                        for m in masks {
                            let mut parents = m.clone();
                            for _ in 0..n1 { parents.push(1); }
                            let nn = n0 as usize + n1 as usize;
                            let mut peer_opts: Vec<Vec<(u8, u8)>> = vec![vec![]];
                            for a in 0..nn { for b in (a + 1)..nn { peer_opts.push(vec![(a as u8, b as u8)]); } }
                            for peers in peer_opts {
                                for multi in [vec![1u8], vec![2u8, 1]] {
                                    if multi[0] == 2 && n0 == 0 { continue; }
                                    let isds = if n_isd == 2 { vec![(c0, n0), (c1, n1)] } else { vec![(c0, n0)] };
                                    let seed = (out.len() as u64).wrapping_mul(0x9e3779b97f4a7c15);
                                    out.push(TopoSpec { isds, seed, parents: parents.clone(), multi: multi.clone(), peers: peers.clone(), if_style: (out.len() % 3) as u8, extra_core: vec![] });
                                }
                            }
                        }
                    }
                }
            }
        }
    }
    out
}
