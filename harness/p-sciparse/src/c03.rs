//! C03 — wire codec is lossless, matches the SCION format, never truncates silently.

use p_sciparse::spec::{self as sp, HostSpec, PathSpec, PayloadSpec, PktSpec, SutPacket};
use proptest::prelude::*;
use refmodel::wire::{self as rw, RHeader, RPath, RStd};
use sciparse::{
    core::{convert::TryFromView, encode::WireEncode},
    packet::model::{ScionRawPacket, ScionScmpPacket, ScionUdpPacket},
};
use serde::{Deserialize, Serialize};
use vcore::{CheckResult, Ctx, Fail, Obs, Sub, ensure};

#[derive(Clone, Debug, Serialize, Deserialize)]
struct Case {
    spec: PktSpec,
    /// 0/1: offset of the encode buffer inside an aligned allocation (checksum alignment)
    misalign: u8,
}

fn expected_path(spec: &PathSpec) -> RPath {
    match spec {
        PathSpec::Empty => RPath::Empty,
        PathSpec::Std { curr_inf, curr_hf, segs } => {
            let mut seg_len = [0u8; 3];
            let mut infos = vec![];
            let mut hops = vec![];
            for (i, s) in segs.iter().enumerate() {
                seg_len[i] = s.hops.len() as u8;
                infos.push(s.info);
                hops.extend(s.hops.iter().copied());
            }
            RPath::Std(RStd { curr_inf: *curr_inf, curr_hf: *curr_hf, rsv: 0, seg_len, infos, hops })
        }
        PathSpec::OneHop { info, hops } => RPath::OneHop { info: *info, hops: *hops },
        PathSpec::Unsupported { ty, data } => RPath::Other { ty: *ty, data: data.clone() },
    }
}

/// why is this spec not representable (narrow signature part)
fn why_unrepresentable(s: &PktSpec) -> &'static str {
    if s.flow >= (1 << 20) {
        return "flow-id-over-20-bits";
    }
    for h in [&s.dst_host, &s.src_host] {
        if let HostSpec::Unknown { id, bytes } = h {
            if *id >= 4 {
                return "unknown-host-type-id-over-2-bits";
            }
            if bytes.is_empty() || bytes.len() % 4 != 0 {
                return "unknown-host-length";
            }
            if !h.representable() {
                return "unknown-host-aliases-known-type";
            }
        }
    }
    match &s.path {
        PathSpec::Std { curr_hf, segs, .. } => {
            let n: usize = segs.iter().map(|x| x.hops.len()).sum();
            if *curr_hf > 63 && (*curr_hf as usize) < n {
                return "curr-hop-over-6-bits";
            }
            if !s.path.representable() {
                return "std-path-shape";
            }
        }
        PathSpec::Unsupported { ty, .. } if *ty <= 2 => return "unsupported-path-aliases-known-type",
        PathSpec::Unsupported { .. } if !s.path.representable() => return "unsupported-path-length",
        _ => {}
    }
    if s.header_len() > 1020 {
        return "header-over-1020";
    }
    if s.l4_len() > 65535 {
        return match s.payload {
            PayloadSpec::Udp { .. } => "udp-length-over-16-bits",
            _ => "payload-length-over-16-bits",
        };
    }
    "other"
}

fn check_model(c: &Case, obs: &mut Obs) -> CheckResult {
    let spec = &c.spec;
    let sut = spec.to_sut();
    let representable = spec.representable();
    let kind = match &spec.payload {
        PayloadSpec::Raw { .. } => "raw",
        PayloadSpec::Udp { .. } => "udp",
        PayloadSpec::Scmp(s) if s.is_error() => "scmp-error",
        PayloadSpec::Scmp(_) => "scmp-info",
    };
    // encode into a buffer at an even or odd address
    let need = vcore::no_panic("required_size", || sut.required_size())?;
    let mut backing = vec![0xA5u8; need + 16];
    let base = backing.as_ptr() as usize;
    let off = ((base & 1) ^ (c.misalign as usize & 1)) + 2;
    let res = vcore::no_panic("try_encode", || sut.try_encode(&mut backing[off..off + need]))?;
    let n = match res {
        Err(_) => {
            obs.label(if representable { "rejected-representable" } else { "rejected-unrepresentable" });
            // try_encode_to_vec must agree
            let v = vcore::no_panic("try_encode_to_vec", || sut.try_encode_to_vec())?;
            ensure!(v.is_err(), "encode-paths-disagree", "try_encode rejected but try_encode_to_vec accepted");
            if !representable {
                obs.label(format!("rej:{}", why_unrepresentable(spec)));
                obs.nontrivial(&("rej", why_unrepresentable(spec), spec.header_len(), spec.l4_len()));
            }
            return Ok(());
        }
        Ok(n) => n,
    };
    let diag = if representable { "representable" } else { why_unrepresentable(spec) };
    obs.label(format!("encoded-{kind}"));
    if !representable {
        obs.label("encoded-unrepresentable");
    }
    // (1) exactly the announced number of bytes
    ensure!(n == need, "encoded-size-differs-from-required-size", "try_encode wrote {n} bytes, required_size() = {need}");
    let bytes = backing[off..off + n].to_vec();
    ensure!(backing[off + n..].iter().all(|b| *b == 0xA5) && backing[..off].iter().all(|b| *b == 0xA5), "encode-wrote-outside", "encoder wrote outside the {n} announced bytes");
    let v = vcore::no_panic("try_encode_to_vec", || sut.try_encode_to_vec())?;
    if v.as_ref().ok() != Some(&bytes) {
        let z = v.unwrap_or_default();
        let diffs: Vec<String> = z.iter().zip(bytes.iter()).enumerate().filter(|(_, (a, b))| a != b).take(8).map(|(i, (a, b))| format!("@{i}: {a:02x} vs {b:02x}")).collect();
        let hl = spec.header_len();
        let at = z.iter().zip(bytes.iter()).position(|(a, b)| a != b).unwrap_or(0);
        let region = if at < 12 { "common-header" } else if at < hl - spec.path.wire_len() { "address-header" } else if at < hl { "path" } else { "payload" };
        return Err(Fail::new(format!("encoding-depends-on-buffer-contents:{region}"),
            format!("encoding into a buffer pre-filled with 0xA5 differs from encoding into a zeroed Vec (bytes the encoder never writes): {} (header {hl} bytes, path {} bytes)", diffs.join(", "), spec.path.wire_len())));
    }

    // (3) independent reading of the bytes
    let h = rw::decode_header(&bytes).map_err(|e| Fail::new(format!("ref-decoder-rejects:{diag}"), format!("independent decoder rejects the encoding: {e:?} ({diag})")))?;
    let hl = h.header_len();
    ensure!(hl == spec.header_len(), format!("hdrlen-untruthful:{diag}"), "HdrLen says {hl}, model header needs {}", spec.header_len());
    ensure!(h.payload_len as usize == bytes.len() - hl, format!("payloadlen-untruthful:{diag}"),
        "PayloadLen field {} but {} bytes follow the header (model payload {} bytes) [{diag}]", h.payload_len, bytes.len() - hl, spec.l4_len());
    ensure!(h.reserved_zero(), format!("reserved-bits-set:{diag}"), "reserved bits are not zero: {h:?}");
    let (dtl, dhost) = spec.dst_host.wire();
    let (stl, shost) = spec.src_host.wire();
    let want = RHeader {
        version: 0, tc: spec.tc, flow: spec.flow, next: h.next, hdr_units: (spec.header_len() / 4) as u8, payload_len: h.payload_len,
        path_type: spec.path.wire_type(), dst_tl: dtl, src_tl: stl, rsv: 0, dst_ia: spec.dst_ia, src_ia: spec.src_ia,
        dst_host: dhost, src_host: shost, path: expected_path(&spec.path),
    };
    ensure!(h == want, format!("header-fields-differ:{diag}"), "independent decoder reads {h:?}\n  but the model says {want:?}");
    let l4 = &bytes[hl..];
    let payload_bytes = sp::fill(match &spec.payload { PayloadSpec::Raw { len, .. } | PayloadSpec::Udp { len, .. } => *len, PayloadSpec::Scmp(s) => s.tail_len() }, spec.seed);
    match &spec.payload {
        PayloadSpec::Raw { next, .. } => {
            ensure!(h.next == *next, "next-header-differs", "next header {} != {next}", h.next);
            ensure!(l4 == &payload_bytes[..], "raw-payload-differs", "raw payload bytes differ");
        }
        PayloadSpec::Udp { src_port, dst_port, len } => {
            ensure!(h.next == rw::UDP_PROTO, "next-header-differs", "next header {} != 17", h.next);
            let u = rw::decode_udp(l4).ok_or_else(|| Fail::new("udp-too-short", "UDP header missing"))?;
            ensure!(u.src_port == *src_port && u.dst_port == *dst_port, "udp-ports-differ", "UDP ports {u:?}");
            ensure!(u.length as usize == 8 + len && l4.len() == 8 + len, format!("udp-length-untruthful:{diag}"), "UDP length field {} but datagram has {} bytes (payload {len})", u.length, l4.len());
            ensure!(l4[8..] == payload_bytes[..], "udp-payload-differs", "UDP payload bytes differ");
            ensure!(rw::checksum_verifies(&h, rw::UDP_PROTO, l4), "udp-checksum-does-not-verify",
                "UDP checksum {:#06x} does not verify over pseudo-header||datagram (expected {:#06x}), payload {len} bytes, buffer alignment {}", u.checksum, rw::compute_checksum(&h, rw::UDP_PROTO, l4, 6), c.misalign);
        }
        PayloadSpec::Scmp(s) => {
            ensure!(h.next == rw::SCMP_PROTO, "next-header-differs", "next header {} != 202", h.next);
            let m = rw::decode_scmp(l4).ok_or_else(|| Fail::new("scmp-too-short", "SCMP header missing"))?;
            ensure!(m.ty == s.wire_type() && m.code == s.code(), "scmp-type-code-differ", "SCMP type/code {}/{} expected {}/{}", m.ty, m.code, s.wire_type(), s.code());
            let fixed = s.fixed_bytes();
            ensure!(m.body.len() >= fixed.len() && m.body[..fixed.len()] == fixed[..], "scmp-fixed-fields-differ", "SCMP fixed part {:02x?} expected {:02x?}", &m.body[..fixed.len().min(m.body.len())], fixed);
            let tail = &m.body[fixed.len()..];
            if s.is_error() {
                ensure!(bytes.len() <= rw::SCMP_ERROR_MAX, "scmp-error-over-1232", "SCMP error packet is {} bytes", bytes.len());
                let budget = rw::SCMP_ERROR_MAX.saturating_sub(hl + 4 + fixed.len());
                let want = payload_bytes.len().min(budget);
                ensure!(tail.len() == want && tail == &payload_bytes[..want], "scmp-quote-not-maximal-prefix", "quoted {} bytes, expected the first {want} of {}", tail.len(), payload_bytes.len());
                if payload_bytes.len() > budget {
                    obs.label("scmp-quote-truncated");
                }
            } else {
                ensure!(tail == &payload_bytes[..], "scmp-data-differs", "SCMP data differs ({} vs {} bytes)", tail.len(), payload_bytes.len());
            }
            ensure!(rw::checksum_verifies(&h, rw::SCMP_PROTO, l4), "scmp-checksum-does-not-verify",
                "SCMP type {} checksum {:#06x} does not verify over pseudo-header||message (expected {:#06x}), alignment {}", m.ty, m.checksum, rw::compute_checksum(&h, rw::SCMP_PROTO, l4, 2), c.misalign);
        }
    }

    // (2)/(4) SUT decode gives back an equal model and consumes everything
    match &sut {
        SutPacket::Raw(p) => {
            let (back, rest) = vcore::no_panic("ScionRawPacket::try_from_slice", || ScionRawPacket::try_from_slice(&bytes))?
                .map_err(|e| Fail::new(format!("decode-rejects-own-encoding:{diag}"), format!("decoder rejects the encoder's output: {e}")))?;
            ensure!(rest.is_empty(), "decode-leaves-rest", "{} bytes left after decoding", rest.len());
            ensure!(&back == p, format!("roundtrip-differs:{diag}"), "decoded model differs from the encoded one:\n  {back:?}\n  {p:?}");
        }
        SutPacket::Udp(p) => {
            let (back, rest) = vcore::no_panic("ScionUdpPacket::try_from_slice", || ScionUdpPacket::try_from_slice(&bytes))?
                .map_err(|e| Fail::new(format!("decode-rejects-own-encoding:{diag}"), format!("decoder rejects the encoder's output: {e}")))?;
            ensure!(rest.is_empty(), "decode-leaves-rest", "{} bytes left after decoding", rest.len());
            ensure!(&back == p, format!("roundtrip-differs:{diag}"), "decoded model differs from the encoded one:\n  {back:?}\n  {p:?}");
        }
        SutPacket::Scmp(p) => {
            let (back, rest) = vcore::no_panic("ScionScmpPacket::try_from_slice", || ScionScmpPacket::try_from_slice(&bytes))?
                .map_err(|e| Fail::new(format!("decode-rejects-own-encoding:{diag}"), format!("decoder rejects the encoder's output: {e}")))?;
            ensure!(rest.is_empty(), "decode-leaves-rest", "{} bytes left after decoding", rest.len());
            ensure!(back.header == p.header, format!("roundtrip-differs:{diag}"), "decoded header differs");
            // error messages are documented to truncate the quote: re-encoding must be stable
            let again = vcore::no_panic("try_encode_to_vec", || back.try_encode_to_vec())?;
            ensure!(again.as_ref().ok() == Some(&bytes), "scmp-reencode-differs", "decode->encode of an SCMP packet changes the bytes");
            if !matches!(&spec.payload, PayloadSpec::Scmp(s) if s.is_error()) {
                ensure!(&back == p, format!("roundtrip-differs:{diag}"), "decoded SCMP model differs:\n  {back:?}\n  {p:?}");
            }
        }
    }
    let near16 = spec.l4_len() + 16 >= 65535;
    if !matches!(spec.path, PathSpec::Empty) || !matches!(spec.src_host, HostSpec::V4(_)) || near16 {
        obs.nontrivial(&(spec.header_len(), spec.l4_len(), kind, spec.seed, spec.flow));
    }
    if near16 {
        obs.label("payload-near-16-bit-limit");
    }
    Ok(())
}

// ---- canonical byte strings: decode -> encode is the identity -----------------------------------

#[derive(Clone, Debug, Serialize, Deserialize)]
struct BytesCase {
    #[serde(with = "vcore::hexbytes")]
    bytes: Vec<u8>,
}

/// Is this byte string a canonical encoding by the reference reading (consistent lengths, zero
/// reserved bits, no trailing bytes, upper layer well-formed)?
fn canonical(bytes: &[u8]) -> Option<RHeader> {
    let h = rw::decode_header(bytes).ok()?;
    if !h.reserved_zero() || h.header_len() + h.payload_len as usize != bytes.len() {
        return None;
    }
    // a service address occupies 2 of its 4 bytes; the other two are reserved
    if (h.dst_tl == 0b0100 && h.dst_host[2..] != [0, 0]) || (h.src_tl == 0b0100 && h.src_host[2..] != [0, 0]) {
        return None;
    }
    if let RPath::Std(p) = &h.path {
        // segment lengths must be a prefix of non-zero values, pointers inside
        let nz = p.seg_len.iter().take_while(|l| **l > 0).count();
        if p.seg_len.iter().skip(nz).any(|l| *l > 0) || nz == 0 {
            return None;
        }
        if p.curr_inf as usize >= nz || p.curr_hf as usize >= p.hops.len() {
            return None;
        }
    }
    Some(h)
}

fn check_bytes(c: &BytesCase, obs: &mut Obs) -> CheckResult {
    let b = &c.bytes;
    let Some(h) = canonical(b) else {
        obs.label("bytes-not-canonical");
        let _ = vcore::no_panic("ScionRawPacket::try_from_slice", || ScionRawPacket::try_from_slice(b).is_ok())?;
        return Ok(());
    };
    obs.label("bytes-canonical");
    let r = vcore::no_panic("ScionRawPacket::try_from_slice", || ScionRawPacket::try_from_slice(b))?;
    let (pkt, rest) = r.map_err(|e| Fail::new("decoder-rejects-canonical-bytes", format!("canonical packet rejected: {e}; header {h:?}")))?;
    ensure!(rest.is_empty(), "decode-leaves-rest", "rest {} bytes", rest.len());
    let again = vcore::no_panic("try_encode_to_vec", || pkt.try_encode_to_vec())?;
    match again {
        Ok(a) => ensure!(&a == b, "decode-encode-not-identity", "decode->encode changed the bytes:\n  in  {}\n  out {}", vcore::hexs(b), vcore::hexs(&a)),
        Err(e) => return Err(Fail::new("reencode-rejected", format!("decoded canonical packet cannot be re-encoded: {e}"))),
    }
    obs.nontrivial(&(h.path_type, h.dst_tl, h.src_tl, b.len(), vcore::hash64(b)));
    Ok(())
}

fn bytes_strategy() -> impl Strategy<Value = BytesCase> {
    // canonical packets produced by the *reference* encoder from random field values
    (sp::pkt_strategy(false, false), any::<u8>(), any::<u16>(), any::<u8>()).prop_map(|(spec, mutate, pos, val)| {
        let (dtl, dhost) = spec.dst_host.wire();
        let (stl, shost) = spec.src_host.wire();
        let l4: Vec<u8> = sp::fill(spec.l4_len().min(2000), spec.seed);
        let next = match &spec.payload { PayloadSpec::Raw { next, .. } => *next, PayloadSpec::Udp { .. } => 6, PayloadSpec::Scmp(_) => 201 };
        let h = RHeader {
            version: 0, tc: spec.tc, flow: spec.flow & 0xfffff, next, hdr_units: (spec.header_len() / 4) as u8, payload_len: l4.len() as u16,
            path_type: spec.path.wire_type(), dst_tl: dtl, src_tl: stl, rsv: 0, dst_ia: spec.dst_ia, src_ia: spec.src_ia, dst_host: dhost, src_host: shost,
            path: expected_path(&spec.path),
        };
        let mut bytes = rw::encode_header(&h);
        bytes.extend_from_slice(&l4);
        // 1 in 4: one byte of the header mutated (may or may not stay canonical)
        if mutate < 64 && !bytes.is_empty() {
            let i = vcore::idx(pos, bytes.len().min(h.header_len()));
            bytes[i] = val;
        }
        BytesCase { bytes }
    })
}

fn run(ctx: &Ctx) {
    let n = ctx.tier.pick(600_000, 12_000_000);
    ctx.run_prop("models", n, || (sp::pkt_strategy(true, false), 0u8..2).prop_map(|(spec, misalign)| Case { spec, misalign }), check_model);
    // big payloads (around and beyond the 16-bit limits) are expensive: fewer cases
    let n = ctx.tier.pick(20_000, 600_000);
    ctx.run_prop("models-big-payload", n, || (sp::pkt_strategy(false, true), 0u8..2).prop_map(|(spec, misalign)| Case { spec, misalign }), check_model);
    let n = ctx.tier.pick(600_000, 12_000_000);
    ctx.run_prop("canonical-bytes", n, bytes_strategy, check_bytes);
}

fn post(ctx: &Ctx) {
    ctx.require_label("encoded-udp", 1000);
    ctx.require_label("encoded-scmp-error", 1000);
    ctx.require_label("scmp-quote-truncated", 100);
    ctx.require_label("bytes-canonical", 1000);
    ctx.require_label("payload-near-16-bit-limit", 20);
}

fn main() {
    let subs = [
        Sub { name: "models", run, replay: |c, v| c.replay_case::<Case>("models", v, check_model) },
        Sub { name: "models-big-payload", run: |_| {}, replay: |c, v| c.replay_case::<Case>("models", v, check_model) },
        Sub { name: "canonical-bytes", run: |_| {}, replay: |c, v| c.replay_case::<BytesCase>("canonical-bytes", v, check_bytes) },
    ];
    vcore::main(
        "C03",
        "cases = packet specs built by construction (every host address kind incl. service and unknown 4/8/12/16-byte types, empty/standard(1-3 segments, 1-63 hops, totals around 64)/one-hop/unsupported paths, raw/UDP/all SCMP kinds, payload sizes directed at 0, MTU, 65535-hdr, 65535, 65536, 70000, 131071; also models that cannot be represented: flow id > 20 bits, unknown address ids > 2 bits or aliasing known types, CurrHF > 63, unsupported path aliasing types 0..2) encoded at even and odd buffer addresses. Oracles: size == required_size; an independent decoder reads the same fields, truthful HdrLen/PayloadLen/UDP length, reserved bits zero, RFC 1071 checksum over pseudo-header||message verifies; SUT decode == model; reference-encoded canonical byte strings decode and re-encode identically. Non-trivial = encoded model with a non-empty path or non-IPv4 source or payload within 16 bytes of 65535, rejected unrepresentable model, canonical byte string; distinct by (header length, L4 length, kind, seed).",
        &["SCMP error models are documented to truncate the quoted packet: round trip is checked as decode->encode stability plus maximal-prefix quoting", "Unknown SCMP / path / address type codes that alias a known type are treated as not representable"],
        &subs,
        post,
    );
}
