//! C11 — hop-field authentication and per-AS advance are a correct monotone state machine.

use std::cell::RefCell;

use p_sciparse::spec as sp;
use proptest::prelude::*;
use refmodel::{
    mac::{self, Chain, HopExpect, HopIn, SegUse},
    wire::{self as rw, RStd},
};
use sciparse::{
    core::view::View,
    dataplane_path::standard::{
        routing::{AdvanceValidator, EgressValidateResult, HopMacValidator, IngressAdvanceAction, IngressValidateResult},
        view::{HopFieldView, InfoFieldView, StandardPathView},
    },
};
use serde::{Deserialize, Serialize};
use vcore::{CheckResult, Ctx, Fail, Obs, Sub, ensure};

// ------------------------------------------------------------------ authentic paths

#[derive(Clone, Debug, Serialize, Deserialize)]
struct SegGen {
    seg_id: u16,
    ts: u32,
    /// per hop: (ingress, egress, exp); ingress of hop 0 and egress of the last are forced to 0
    hops: Vec<(u16, u16, u8)>,
    /// slice used and direction
    lo: u16,
    hi: u16,
    cons_dir: bool,
}
#[derive(Clone, Debug, Serialize, Deserialize)]
struct AuthCase {
    segs: Vec<SegGen>,
    /// peering between seg 0 and seg 1 (only honoured for exactly 2 segments: 0 up, 1 down)
    peering: bool,
    key_seed: u64,
    /// tamper: None = authentic; Some((kind, a, b)) see `tamper`
    tamper: Option<(u8, u16, u8)>,
}

fn key_of(asn: usize, seed: u64) -> [u8; 16] {
    let mut k = [0u8; 16];
    k.copy_from_slice(&sp::fill(16, seed ^ (asn as u64 + 1).wrapping_mul(0x9e3779b97f4a7c15)));
    k
}

fn build(c: &AuthCase) -> (Vec<Chain>, Vec<SegUse>, RStd, Vec<HopExpect>) {
    let peering = c.peering && c.segs.len() == 2;
    // 1. which slice of each segment is used, and in which direction
    let mut uses = vec![];
    for (si, s) in c.segs.iter().enumerate() {
        let n = s.hops.len();
        let lo = vcore::idx(s.lo, n);
        let hi = lo + vcore::idx(s.hi, n - lo);
        // a used slice has at least two hop fields (single-hop segments are not valid paths)
        let (lo, hi) = if lo == hi { if hi + 1 < n { (lo, hi + 1) } else { (lo - 1, hi) } } else { (lo, hi) };
        let cons_dir = if peering { si == 1 } else { s.cons_dir };
        uses.push(SegUse { chain: si, lo, hi, cons_dir, peer: if peering { Some(0) } else { None } });
    }
    // 2. AS identities: distinct per hop, except that the two hop fields of a crossover belong to
    //    the same AS (peering joins two different ASes)
    let mut next_asn = 0usize;
    let mut asn_of: Vec<Vec<usize>> = vec![];
    for (si, s) in c.segs.iter().enumerate() {
        let mut v = vec![];
        for _ in 0..s.hops.len() { v.push(next_asn); next_asn += 1; }
        if si > 0 && !peering {
            let pu = &uses[si - 1];
            let prev_last = if pu.cons_dir { pu.hi } else { pu.lo };
            let u = &uses[si];
            let first = if u.cons_dir { u.lo } else { u.hi };
            v[first] = asn_of[si - 1][prev_last];
        }
        asn_of.push(v);
    }
    let mut chains = vec![];
    for (si, s) in c.segs.iter().enumerate() {
        let n = s.hops.len();
        let mut hin: Vec<HopIn> = vec![];
        for (i, (ing, eg, exp)) in s.hops.iter().enumerate() {
            let ing = if i == 0 { 0 } else { (*ing).max(1) };
            let eg = if i + 1 == n { 0 } else { (*eg).max(1) };
            let asn = asn_of[si][i];
            // every AS offers one peering hop field (used or not)
            hin.push((asn, key_of(asn, c.key_seed), ing, eg, *exp, vec![(9999, 4000 + i as u16, 5000 + i as u16, exp.wrapping_add(1))]));
        }
        chains.push(mac::build_chain(s.seg_id, s.ts, &hin));
    }
    let (path, exp) = mac::plan_path(&chains, &uses);
    (chains, uses, path, exp)
}

enum StepFail {
    /// AdvanceError
    Error(String),
    Validation(String),
    Unexpected(String),
}

/// Walks the path AS by AS as a router built on the SDK would. `keys[i]` = key of the AS owning
/// travel hop i. Returns the index of the AS step (number of ingress calls made) at which
/// processing failed, or Ok(steps).
fn walk(view: &mut StandardPathView, keys: &[[u8; 16]], travel_egress: &[u16], log: Option<&RefCell<Vec<(usize, u16)>>>) -> Result<usize, (usize, usize, StepFail)> {
    let n = keys.len();
    let mut steps = 0usize;
    loop {
        let i = view.curr_hop_field_idx() as usize;
        if i >= n {
            return Err((steps, i, StepFail::Unexpected(format!("current hop {i} beyond the path"))));
        }
        let from_internal = steps == 0;
        let res = match log {
            Some(l) => view.advance_ingress_with_validator(RefValidator { keys, log: l }, from_internal).map(|r| r.into_result().map_err(|(o, e)| (o, e))),
            None => view.advance_ingress_with_validator(HopMacValidator { key: keys[i] }, from_internal).map(|r| r.into_result().map_err(|(o, e)| (o, format!("{e:?}")))),
        };
        steps += 1;
        let out = match res {
            Err(e) => return Err((steps - 1, i, StepFail::Error(format!("{e}")))),
            Ok(Err((_o, e))) => return Err((steps - 1, i, StepFail::Validation(e))),
            Ok(Ok(o)) => o,
        };
        match out.action {
            IngressAdvanceAction::ForwardLocal => {
                if view.curr_hop_field_idx() as usize != n - 1 {
                    return Err((steps - 1, i, StepFail::Unexpected(format!("ForwardLocal at hop {} of {n}", view.curr_hop_field_idx()))));
                }
                return Ok(steps);
            }
            IngressAdvanceAction::ContinueEgress { egress_if } => {
                let j = view.curr_hop_field_idx() as usize;
                if egress_if != travel_egress[j] {
                    return Err((steps - 1, j, StepFail::Unexpected(format!("ContinueEgress names interface {egress_if}, the hop field's travel egress is {}", travel_egress[j]))));
                }
                let res = match log {
                    Some(l) => view.advance_egress_with_validator(RefValidator { keys, log: l }).map(|r| r.into_result().map_err(|(o, e)| (o, e))),
                    None => view.advance_egress_with_validator(HopMacValidator { key: keys[j] }).map(|r| r.into_result().map_err(|(o, e)| (o, format!("{e:?}")))),
                };
                match res {
                    Err(e) => return Err((steps - 1, j, StepFail::Error(format!("egress: {e}")))),
                    Ok(Err((_o, e))) => return Err((steps - 1, j, StepFail::Validation(e))),
                    Ok(Ok(o)) => {
                        if o.egress_interface != travel_egress[j] {
                            return Err((steps - 1, j, StepFail::Unexpected(format!("egress output names {} expected {}", o.egress_interface, travel_egress[j]))));
                        }
                    }
                }
            }
        }
        if steps > n + 1 {
            return Err((steps, i, StepFail::Unexpected("more AS steps than hop fields".into())));
        }
    }
}

/// validator using the *reference* MAC and recording the SegID each hop field was checked with
struct RefValidator<'a> {
    keys: &'a [[u8; 16]],
    log: &'a RefCell<Vec<(usize, u16)>>,
}
impl AdvanceValidator for RefValidator<'_> {
    type Error = String;
    fn validate_hop(&self, hop_index: usize, hop: &HopFieldView, info: &InfoFieldView, _s: bool, _e: bool) -> Result<(), String> {
        self.log.borrow_mut().push((hop_index, info.segment_id()));
        let want = mac::hop_mac(&self.keys[hop_index.min(self.keys.len() - 1)], info.segment_id(), info.timestamp(), hop.exp_time(), hop.cons_ingress(), hop.cons_egress());
        if want == hop.mac().0 { Ok(()) } else { Err(format!("reference MAC mismatch at hop {hop_index} with SegID {:#06x}", info.segment_id())) }
    }
    fn validate_segment_change(&self, _i: usize, _a: &HopFieldView, _b: &InfoFieldView, _c: &HopFieldView, _d: &InfoFieldView) -> Result<(), String> {
        Ok(())
    }
}

fn travel_egress(p: &RStd) -> Vec<u16> {
    let lens: Vec<usize> = p.seg_len.iter().filter(|l| **l > 0).map(|l| *l as usize).collect();
    let mut out = vec![];
    let mut k = 0;
    for (si, l) in lens.iter().enumerate() {
        for h in &p.hops[k..k + l] {
            out.push(if p.infos[si].cons_dir() { h.eg } else { h.ing });
        }
        k += l;
    }
    out
}

/// flips one authenticated bit; returns the travel hop index whose AS must notice at the latest
fn tamper(p: &mut RStd, kind: u8, a: u16, b: u8) -> (usize, String) {
    let n = p.hops.len();
    let lens: Vec<usize> = p.seg_len.iter().filter(|l| **l > 0).map(|l| *l as usize).collect();
    let first_of_seg = |s: usize| lens[..s].iter().sum::<usize>();
    match kind % 6 {
        0 => { let i = vcore::idx(a, n); p.hops[i].exp ^= 1 << (b % 8); (i, format!("ExpTime of hop {i}")) }
        1 => { let i = vcore::idx(a, n); p.hops[i].ing ^= 1 << (b % 16); (i, format!("ConsIngress of hop {i}")) }
        2 => { let i = vcore::idx(a, n); p.hops[i].eg ^= 1 << (b % 16); (i, format!("ConsEgress of hop {i}")) }
        3 => { let i = vcore::idx(a, n); p.hops[i].mac[(b as usize / 8) % 6] ^= 1 << (b % 8); (i, format!("MAC of hop {i}")) }
        4 => { let s = vcore::idx(a, lens.len()); p.infos[s].ts ^= 1 << (b % 32); (first_of_seg(s) + lens[s] - 1, format!("timestamp of segment {s}")) }
        _ => { let s = vcore::idx(a, lens.len()); p.infos[s].seg_id ^= 1 << (b % 16); (first_of_seg(s) + lens[s] - 1, format!("SegID of segment {s}")) }
    }
}

fn check_auth(c: &AuthCase, obs: &mut Obs) -> CheckResult {
    let (_chains, uses, mut path, exp) = build(c);
    let peering = uses.iter().any(|u| u.peer.is_some());
    let nseg = uses.len();
    obs.label(format!("auth-{nseg}seg{}{}", if peering { "-peering" } else { "" }, if c.tamper.is_some() { "-tampered" } else { "" }));
    if nseg >= 2 || c.tamper.is_some() {
        obs.nontrivial(&(vcore::hash64(&rw::encode_std_path(&path)), c.tamper));
    }
    let keys: Vec<[u8; 16]> = exp.iter().map(|e| e.key).collect();
    let sig_suffix = if peering { ":peering" } else { "" };
    let mut deadline = None;
    if let Some((k, a, b)) = c.tamper {
        let (d, what) = tamper(&mut path, k, a, b);
        deadline = Some((d, what));
    }
    let tegress = travel_egress(&path);
    let bytes = rw::encode_std_path(&path);
    let mut view = StandardPathView::try_from_boxed(bytes.clone().into_boxed_slice()).map_err(|e| Fail::new("view-rejects-wellformed-path", e.to_string()))?;
    let n = keys.len();
    // AS step index -> travel hop index processed first in that step is tracked by walk()
    let r = vcore::no_panic("advance", || walk(&mut view, &keys, &tegress, None))?;
    match (&deadline, r) {
        (None, Ok(_steps)) => {}
        (None, Err((step, hop, f))) => {
            let (kind, msg) = match f { StepFail::Error(m) => ("advance-error", m), StepFail::Validation(m) => ("mac-rejected", m), StepFail::Unexpected(m) => ("unexpected-output", m) };
            return Err(Fail::new(format!("authentic-path-{kind}{sig_suffix}"), format!("authentic path ({} segments{}) fails at AS step {step}, hop field {hop} of {n}: {msg}; path {:?}", nseg, if peering { ", peering" } else { "" }, path)));
        }
        (Some((d, what)), Ok(_)) => {
            return Err(Fail::new(format!("tampering-undetected{sig_suffix}"), format!("flipped one bit of {what}; the path still verified at every hop (should fail no later than hop {d})")));
        }
        (Some((d, what)), Err((_step, hop, f))) => {
            if matches!(f, StepFail::Unexpected(_)) && false { unreachable!() }
            // when peering is involved the SUT may fail earlier for the known reason; only "too late" counts
            ensure!(hop <= *d + 1 && hop <= n, format!("tampering-detected-too-late{sig_suffix}"), "flipped one bit of {what}; failure only at hop {hop}, must be no later than the AS owning hop {d}");
            return Ok(());
        }
    }
    // SegID seen by each AS equals the reference beta (second pass with the reference validator)
    let mut view2 = StandardPathView::try_from_boxed(bytes.clone().into_boxed_slice()).unwrap();
    let log = RefCell::new(vec![]);
    let r2 = vcore::no_panic("advance", || walk(&mut view2, &keys, &tegress, Some(&log)))?;
    ensure!(r2.is_ok(), format!("authentic-path-reference-mac-rejected{sig_suffix}"), "reference MAC validator rejects the path the SDK validator accepted");
    for (hop_index, seg_id) in log.borrow().iter() {
        ensure!(*seg_id == exp[*hop_index].beta, format!("segid-at-hop-differs-from-beta{sig_suffix}"), "hop {hop_index}: validated with SegID {seg_id:#06x}, reference beta {:#06x}", exp[*hop_index].beta);
    }
    ensure!(view.as_slice() == view2.as_slice(), "validators-change-outcome", "path bytes after the walk differ between validators");
    // and back: reverse at the destination, walk to the source
    let at_dst = view.as_slice().to_vec();
    vcore::no_panic("try_reverse", || view.try_reverse())?.map_err(|e| Fail::new("reverse-fails-at-destination", format!("{e:?}")))?;
    let rkeys: Vec<[u8; 16]> = keys.iter().rev().copied().collect();
    let rpath = rw::decode_std_path(view.as_slice()).map_err(|e| Fail::new("reversed-path-unparseable", format!("{e:?}")))?.0;
    let rtegress = travel_egress(&rpath);
    let r = vcore::no_panic("advance", || walk(&mut view, &rkeys, &rtegress, None))?;
    if let Err((step, hop, f)) = r {
        let msg = match f { StepFail::Error(m) | StepFail::Validation(m) | StepFail::Unexpected(m) => m };
        return Err(Fail::new(format!("reversed-authentic-path-fails{sig_suffix}"), format!("reply path fails at AS step {step}, hop {hop}: {msg}; bytes at destination {}", vcore::hexs(&at_dst))));
    }
    obs.evals(3);
    Ok(())
}

fn seg_gen(maxhops: usize) -> impl Strategy<Value = SegGen> {
    (any::<u16>(), prop_oneof![Just(0u32), Just(u32::MAX), 1_600_000_000u32..1_900_000_000], prop::collection::vec((prop_oneof![1u16..5, any::<u16>()], prop_oneof![1u16..5, any::<u16>()], prop_oneof![Just(0u8), Just(63), Just(255), any::<u8>()]), 2..=maxhops), any::<u16>(), any::<u16>(), any::<bool>())
        .prop_map(|(seg_id, ts, hops, lo, hi, cons_dir)| SegGen { seg_id, ts, hops, lo, hi, cons_dir })
}
fn auth_strategy(tampered: bool) -> impl Strategy<Value = AuthCase> {
    let maxh = prop_oneof![6 => Just(4usize), 2 => Just(12usize), 1 => Just(21usize)];
    (maxh, 1usize..=3, any::<bool>(), any::<u64>(), any::<(u8, u16, u8)>()).prop_flat_map(move |(mh, nseg, peering, key_seed, t)| {
        prop::collection::vec(seg_gen(mh), nseg..=nseg).prop_map(move |segs| AuthCase { segs, peering: peering && nseg == 2, key_seed, tamper: if tampered { Some(t) } else { None } })
    })
}

// ------------------------------------------------------------------ arbitrary paths x step sequences

#[derive(Clone, Debug, Serialize, Deserialize)]
struct StepCase {
    #[serde(with = "vcore::hexbytes")]
    bytes: Vec<u8>,
    /// 0 ingress(internal) 1 ingress(external) 2 egress; validator: +0 none, +3 mac(key), +6 always-fail
    steps: Vec<u8>,
    key: [u8; 16],
}

struct AlwaysFail;
impl AdvanceValidator for AlwaysFail {
    type Error = String;
    fn validate_hop(&self, _: usize, _: &HopFieldView, _: &InfoFieldView, _: bool, _: bool) -> Result<(), String> { Err("no".into()) }
    fn validate_segment_change(&self, _: usize, _: &HopFieldView, _: &InfoFieldView, _: &HopFieldView, _: &InfoFieldView) -> Result<(), String> { Err("no".into()) }
}

fn check_steps(c: &StepCase, obs: &mut Obs) -> CheckResult {
    let Ok((v, _)) = StandardPathView::try_from_slice(&c.bytes) else { obs.label("steps-rejected"); return Ok(()); };
    let mut view = v.to_boxed();
    let meta = rw::decode_std_path(view.as_slice()).map_err(|e| Fail::new("view-accepts-what-reference-rejects", format!("{e:?}")))?.0;
    let nhops = meta.hops.len();
    let malformed = meta.curr_hf as usize >= nhops || meta.curr_inf as usize >= meta.infos.len() || meta.seg_len.iter().skip_while(|l| **l > 0).any(|l| *l > 0) || meta.seg_len.iter().any(|l| *l == 1);
    obs.label(if malformed { "steps-malformed-path" } else { "steps-wellformed-path" });
    obs.nontrivial(&(meta.seg_len, meta.curr_inf, meta.curr_hf, &c.steps));
    let mut total_forward = 0usize;
    let mut last_ingress_said_continue = false;
    for (si, st) in c.steps.iter().enumerate() {
        let before = view.as_slice().to_vec();
        let (hf0, inf0) = (view.curr_hop_field_idx(), view.curr_info_field_idx());
        let op = st % 3;
        let val = (st / 3) % 3;
        // (is_err, forward_local)
        let res: Result<(bool, bool), Fail> = vcore::no_panic("advance", || match (op, val) {
            (2, 0) => view.advance_egress().map(|_| (false, false)).unwrap_or((true, false)),
            (2, 1) => view.advance_egress_with_validator(HopMacValidator { key: c.key }).map(|_| (false, false)).unwrap_or((true, false)),
            (2, _) => view.advance_egress_with_validator(AlwaysFail).map(|_| (false, false)).unwrap_or((true, false)),
            (o, 0) => view.advance_ingress(o == 0).map(|r| (false, matches!(r.action, IngressAdvanceAction::ForwardLocal))).unwrap_or((true, false)),
            (o, 1) => view.advance_ingress_with_validator(HopMacValidator { key: c.key }, o == 0).map(|r| (false, matches!(match r { IngressValidateResult::Ok(o) | IngressValidateResult::ValidationFailed(o, _) => o.action }, IngressAdvanceAction::ForwardLocal))).unwrap_or((true, false)),
            (o, _) => view.advance_ingress_with_validator(AlwaysFail, o == 0).map(|r| (false, matches!(match r { IngressValidateResult::Ok(o) | IngressValidateResult::ValidationFailed(o, _) => o.action }, IngressAdvanceAction::ForwardLocal))).unwrap_or((true, false)),
        });
        let (is_err, fwd_local) = res?;
        let (hf1, inf1) = (view.curr_hop_field_idx(), view.curr_info_field_idx());
        if is_err {
            ensure!(view.as_slice() == &before[..], "advance-error-not-atomic", "step {si} ({}) returned an AdvanceError but changed the path\n before {}\n after  {}", if op == 2 { "egress" } else { "ingress" }, vcore::hexs(&before), vcore::hexs(view.as_slice()));
            obs.label("steps-advance-error");
        } else {
            ensure!(hf1 >= hf0 && inf1 >= inf0, "advance-moves-backwards", "step {si}: CurrHF {hf0}->{hf1}, CurrINF {inf0}->{inf1}");
            ensure!((hf1 as usize) < nhops, "advance-leaves-path", "step {si}: CurrHF {hf1} beyond {nhops} hop fields");
            // the layout (segment lengths) never changes
            let after = rw::decode_std_path(view.as_slice()).map_err(|e| Fail::new("advance-corrupts-layout", format!("{e:?}")))?.0;
            ensure!(after.seg_len == meta.seg_len, "advance-corrupts-layout", "segment lengths changed {:?} -> {:?}", meta.seg_len, after.seg_len);
            if op == 2 {
                ensure!(hf1 > hf0, "egress-does-not-advance", "egress step {si} succeeded without moving CurrHF ({hf0})");
            } else if !fwd_local && last_ingress_said_continue && hf1 == hf0 {
                // two successful ingress steps in a row without egress: allowed by the API, no progress claim
            }
            total_forward += (hf1 - hf0) as usize;
            last_ingress_said_continue = op != 2 && !fwd_local;
            if fwd_local {
                ensure!(hf1 as usize == nhops - 1, "forward-local-before-last-hop", "ForwardLocal at CurrHF {hf1} of {nhops}");
            }
        }
    }
    ensure!(total_forward < nhops.max(1), "advance-not-bounded", "CurrHF advanced {total_forward} times over {nhops} hop fields");
    // a router loop: ingress then egress while told to continue, terminates within nhops AS steps
    let mut guard = 0;
    loop {
        guard += 1;
        ensure!(guard <= nhops + 2, "as-step-loop-does-not-terminate", "more than {nhops}+2 AS steps");
        let hf0 = view.curr_hop_field_idx();
        let r = vcore::no_panic("advance", || view.advance_ingress(guard == 1))?;
        let Ok(o) = r else { break };
        match o.action {
            IngressAdvanceAction::ForwardLocal => break,
            IngressAdvanceAction::ContinueEgress { .. } => {
                let r = vcore::no_panic("advance", || view.advance_egress())?;
                if r.is_err() { break; }
                ensure!(view.curr_hop_field_idx() > hf0, "as-step-no-progress", "an AS step (ingress+egress) succeeded without increasing CurrHF");
            }
        }
    }
    obs.evals(c.steps.len() as u64 + 1);
    let _ = EgressValidateResult::<String>::Ok;
    Ok(())
}

fn raw_path(small: bool) -> impl Strategy<Value = Vec<u8>> {
    (0u8..=63, 0u8..=63, 0u8..=63, 0u8..4, 0u8..=63, any::<u64>(), any::<u8>()).prop_map(move |(a, b, c, ci, ch, seed, style)| {
        let f = |x: u8| if small { x % 4 } else if style % 4 != 0 { x % 6 } else { x };
        let (s0, s1, s2) = (f(a), f(b), f(c));
        let size = rw::std_path_size([s0, s1, s2]);
        let mut bytes = sp::fill(size, seed);
        let total = (s0 as u32 + s1 as u32 + s2 as u32).max(1);
        // mostly pointers inside the path and consistent with each other
        let ch = if style % 3 != 0 { (ch as u32 % total) as u8 } else { ch % 16 };
        let ci = if style % 3 != 0 { if (ch as u32) < s0 as u32 { 0 } else if (ch as u32) < s0 as u32 + s1 as u32 { 1 } else { 2 } } else { ci };
        let w: u32 = ((ci as u32) << 30) | ((ch as u32) << 24) | ((s0 as u32) << 12) | ((s1 as u32) << 6) | s2 as u32;
        bytes[..4].copy_from_slice(&w.to_be_bytes());
        // plausible flag bytes (cons dir / peer / alerts) instead of random ones half of the time
        if style & 1 == 0 {
            let ninfo = [s0, s1, s2].iter().filter(|l| **l > 0).count();
            for i in 0..ninfo { bytes[4 + 8 * i] &= 3; }
            for i in 0..(total as usize).min((size - 4 - 8 * ninfo) / 12) { bytes[4 + 8 * ninfo + 12 * i] &= 3; }
        }
        bytes
    })
}

// ------------------------------------------------------------------ one-hop paths

/// AS A issues a one-hop path, AS B completes it (before or after the SegID step of hop 1):
/// the second hop field must be the one a reference AS B would have MACed.
#[derive(Clone, Debug, Serialize, Deserialize)]
struct OneHopCase {
    seg_id: u16,
    ts: u32,
    exp: u8,
    egress: u16,
    ingress: u16,
    key_a: [u8; 16],
    key_b: [u8; 16],
    /// the SegID step of hop 1 was applied before hop 2 is filled in (as the egress router does)
    advanced: bool,
    /// through the owned model instead of the view
    model: bool,
}

fn check_onehop(c: &OneHopCase, obs: &mut Obs) -> CheckResult {
    use sciparse::dataplane_path::onehop::{model::OneHopPath, view::OneHopPathView};
    use sciparse::core::encode::WireEncode;
    let mac1 = mac::hop_mac(&c.key_a, c.seg_id, c.ts, c.exp, 0, c.egress);
    let beta1 = mac::beta_step(c.seg_id, &mac1);
    let h0 = rw::RHop { flags: 0, exp: c.exp, ing: 0, eg: c.egress, mac: mac1 };
    let zero = rw::RHop { flags: 0, exp: 0, ing: 0, eg: 0, mac: [0; 6] };
    let info = rw::RInfo { flags: 1, rsv: 0, seg_id: if c.advanced { beta1 } else { c.seg_id }, ts: c.ts };
    let mut bytes = vec![];
    rw::enc_info(&info, &mut bytes);
    rw::enc_hop(&h0, &mut bytes);
    rw::enc_hop(&zero, &mut bytes);
    let out: Vec<u8> = if c.model {
        let mut m = OneHopPath::new_from_parts(sp::sut_info(&info), [sp::sut_hop(&h0), sp::sut_hop(&zero)]);
        vcore::no_panic("OneHopPath::set_second_hop", || m.set_second_hop(c.ingress, c.key_b.into(), c.advanced))?;
        m.try_encode_to_vec().map_err(|e| Fail::new("onehop-model-not-encodable", e.to_string()))?
    } else {
        let mut b = bytes.clone();
        let (v, _) = OneHopPathView::try_from_mut_slice(&mut b).map_err(|e| Fail::new("onehop-view-rejected", e.to_string()))?;
        vcore::no_panic("OneHopPathView::set_second_hop", || v.set_second_hop(c.ingress, c.key_b.into(), c.advanced))?;
        b
    };
    let got = rw::dec_hop(&out[20..32]);
    let want = rw::RHop { flags: 0, exp: c.exp, ing: c.ingress, eg: 0, mac: mac::hop_mac(&c.key_b, beta1, c.ts, c.exp, c.ingress, 0) };
    let which = if c.model { "model" } else { "view" };
    ensure!(got == want, format!("onehop-second-hop-not-authentic:{which}:{}", if c.advanced { "segid-advanced" } else { "segid-not-advanced" }), "second hop field {got:?}, a reference AS would issue {want:?} (beta after hop 1 = {beta1:#06x})");
    ensure!(out[..20] == bytes[..20], "onehop-set-second-hop-changed-other-fields", "info field / first hop field changed");
    ensure!(mac::verifies(&c.key_b, beta1, c.ts, &got), "onehop-second-hop-does-not-verify", "second hop does not verify at the completing AS");
    obs.label(format!("onehop-{which}-{}", if c.advanced { "advanced" } else { "not-advanced" }));
    obs.nontrivial(&(c.seg_id, c.ts, c.exp, c.egress, c.ingress, c.key_a, c.key_b, c.advanced, c.model));
    Ok(())
}

fn run(ctx: &Ctx) {
    // (a) authentic paths: exhaustive over shapes (<=3 segments x <=3 hops, each direction, with/without peering)
    let mut shapes = vec![];
    for nseg in 1..=3usize {
        let mut lens = vec![2usize; nseg];
        loop {
            for dirs in 0..(1u8 << nseg) {
                shapes.push((lens.clone(), dirs, false));
                if nseg == 2 && dirs == 0b10 { shapes.push((lens.clone(), dirs, true)); }
            }
            let mut k = 0;
            loop { if k == nseg { break; } lens[k] += 1; if lens[k] <= 3 { break; } lens[k] = 2; k += 1; }
            if k == nseg { break; }
        }
    }
    let reps = ctx.tier.pick(20u64, 400);
    let seed = ctx.seed;
    let mk = |i: u64, tamper: Option<(u8, u16, u8)>| {
        let (lens, dirs, peering) = &shapes[(i % shapes.len() as u64) as usize];
        let r = seed.wrapping_add(i / shapes.len() as u64).wrapping_mul(0x2545F4914F6CDD1D) ^ i;
        let segs = lens.iter().enumerate().map(|(si, l)| SegGen {
            seg_id: (r >> (si * 7)) as u16, ts: 1_700_000_000 + (r % 1000) as u32 + si as u32,
            hops: (0..*l).map(|h| (1 + ((r >> h) % 3) as u16, 1 + ((r >> (h + 3)) % 3) as u16, (r >> (h * 2)) as u8)).collect(),
            lo: 0, hi: u16::MAX, cons_dir: dirs >> si & 1 == 1,
        }).collect();
        AuthCase { segs, peering: *peering, key_seed: r, tamper }
    };
    ctx.run_enum("authentic-small-shapes", shapes.len() as u64 * reps, true, |i| Some(mk(i, None)), check_auth);
    // every single-bit flip class on the small shapes
    ctx.run_enum("tampered-small-shapes", shapes.len() as u64 * reps * 6, true, |i| Some(mk(i / 6, Some(((i % 6) as u8, (i.wrapping_mul(40503) >> 3) as u16, (i.wrapping_mul(2654435761) >> 5) as u8)))), check_auth);
    let n = ctx.tier.pick(60_000, 3_000_000);
    ctx.run_prop("authentic-random", n, || auth_strategy(false), check_auth);
    ctx.run_prop("tampered-random", n, || auth_strategy(true), check_auth);

    let n1 = ctx.tier.pick(40_000, 2_000_000);
    ctx.run_prop("onehop-second-hop", n1, || (any::<u16>(), prop_oneof![Just(1_700_000_000u32), any::<u32>()], any::<u8>(), 1u16..=u16::MAX, 1u16..=u16::MAX, any::<[u8; 16]>(), any::<[u8; 16]>(), any::<bool>(), any::<bool>())
        .prop_map(|(seg_id, ts, exp, egress, ingress, key_a, key_b, advanced, model)| OneHopCase { seg_id, ts, exp, egress, ingress, key_a, key_b, advanced, model }), check_onehop);

    // (b) arbitrary standard-path byte strings x arbitrary step sequences
    let n = ctx.tier.pick(400_000, 15_000_000);
    ctx.run_prop("steps-small-paths", n, || (raw_path(true), prop::collection::vec(0u8..9, 1..10), any::<[u8; 16]>()).prop_map(|(bytes, steps, key)| StepCase { bytes, steps, key }), check_steps);
    ctx.run_prop("steps-large-paths", n / 4, || (raw_path(false), prop::collection::vec(0u8..9, 1..24), any::<[u8; 16]>()).prop_map(|(bytes, steps, key)| StepCase { bytes, steps, key }), check_steps);
}

fn post(ctx: &Ctx) {
    ctx.require_label("auth-3seg", 500);
    ctx.require_label("auth-2seg-tampered", 500);
    ctx.require_label("steps-advance-error", 1000);
    ctx.require_label("steps-malformed-path", 1000);
    ctx.require_label("steps-wellformed-path", 1000);
}

fn main() {
    let subs = [
        Sub { name: "authentic-small-shapes", run, replay: |c, v| c.replay_case::<AuthCase>("auth", v, check_auth) },
        Sub { name: "tampered-small-shapes", run: |_| {}, replay: |c, v| c.replay_case::<AuthCase>("auth", v, check_auth) },
        Sub { name: "authentic-random", run: |_| {}, replay: |c, v| c.replay_case::<AuthCase>("auth", v, check_auth) },
        Sub { name: "tampered-random", run: |_| {}, replay: |c, v| c.replay_case::<AuthCase>("auth", v, check_auth) },
        Sub { name: "onehop-second-hop", run: |_| {}, replay: |c, v| c.replay_case::<OneHopCase>("onehop", v, check_onehop) },
        Sub { name: "steps-small-paths", run: |_| {}, replay: |c, v| c.replay_case::<StepCase>("steps", v, check_steps) },
        Sub { name: "steps-large-paths", run: |_| {}, replay: |c, v| c.replay_case::<StepCase>("steps", v, check_steps) },
    ];
    vcore::main(
        "C11",
        "authentic paths: beacons with a distinct key per AS and MACs/betas from an independent AES-CMAC chain, assembled into 1-3 segment paths (every direction combination, arbitrary cuts = shortcuts/on-path, optional peering hop fields; exhaustive over <=3 segments x 2..3 hops x directions, random up to 21 hops per segment), walked AS by AS through advance_ingress/advance_egress with HopMacValidator(key of that AS) forward, reversed at the destination and walked back; SegID seen at each hop == reference beta. tampering: one flipped bit in ExpTime/ConsIngress/ConsEgress/MAC/timestamp/SegID must make the walk fail no later than the AS owning the field. arbitrary paths: byte strings accepted by the view (all small shapes incl. single-hop segments, zero-length middle segments, out-of-range pointers) x random sequences of ingress(internal/external)/egress steps with no/MAC/always-failing validators: AdvanceError => bytes unchanged; success => pointers monotone, layout intact, egress strictly advances, ForwardLocal only at the last hop, ingress+egress loop terminates within #hops AS steps. Non-trivial = multi-segment or tampered authentic path, or any step sequence on a parsed path; distinct by path hash / (shape, pointers, steps).",
        &["AES-CMAC primitives (aes, cmac crates) are trusted and shared with the SUT", "a 6-byte MAC collision (2^-48) would be reported as undetected tampering; irrelevant at these case counts"],
        &subs,
        post,
    );
}
