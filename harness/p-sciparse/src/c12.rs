//! C12 — views and models agree; a failed operation leaves its operand untouched.

use p_sciparse::spec::{self as sp, PathSpec, SegSpec};
use proptest::prelude::*;
use refmodel::wire::{self as rw, RHop, RInfo, RStd};
use sciparse::{
    core::{convert::ToModel, encode::WireEncode, view::View},
    dataplane_path::{
        model::DpPath,
        onehop::{model::OneHopPath, view::OneHopPathView},
        standard::view::StandardPathView,
        view::{ScionDpPathView, ScionDpPathViewExt, ScionDpPathViewExtMut},
    },
    identifier::isd_asn::IsdAsn,
    path::{
        ScionPath,
        metadata::{PathMetadata, path_interface::PathInterface},
    },
};
use serde::{Deserialize, Serialize};
use vcore::{CheckResult, Ctx, Fail, Obs, Sub, ensure};

// ------------------------------------------------------------------ reference semantics

/// expiry of a path: min over hop fields of ts + floor((exp+1) * 337.5 s), saturating
fn ref_expiry(p: &RStd) -> u32 {
    let mut best = u32::MAX;
    let mut k = 0usize;
    let mut any = false;
    for (si, info) in p.infos.iter().enumerate() {
        let n = p.seg_len.iter().filter(|l| **l > 0).nth(si).copied().unwrap_or(0) as usize;
        for h in &p.hops[k..k + n] {
            let d = ((h.exp as u64 + 1) * 675 / 2) as u32;
            best = best.min(info.ts.saturating_add(d));
            any = true;
        }
        k += n;
    }
    if any { best } else { 0 }
}

/// reference reversal of a well-formed standard path
fn ref_reverse(p: &RStd) -> RStd {
    let nseg = p.infos.len();
    let lens: Vec<usize> = p.seg_len.iter().filter(|l| **l > 0).map(|l| *l as usize).collect();
    let mut segs: Vec<(RInfo, Vec<RHop>)> = vec![];
    let mut k = 0;
    for (i, info) in p.infos.iter().enumerate() {
        segs.push((*info, p.hops[k..k + lens[i]].to_vec()));
        k += lens[i];
    }
    segs.reverse();
    let mut out = RStd { curr_inf: (nseg - 1 - p.curr_inf as usize) as u8, curr_hf: (p.hops.len() - 1 - p.curr_hf as usize) as u8, rsv: p.rsv, seg_len: [0; 3], infos: vec![], hops: vec![] };
    for (i, (mut info, mut hops)) in segs.into_iter().enumerate() {
        info.flags ^= 1;
        hops.reverse();
        out.seg_len[i] = hops.len() as u8;
        out.infos.push(info);
        out.hops.extend(hops);
    }
    out
}

fn rstd_of(curr_inf: u8, curr_hf: u8, segs: &[SegSpec]) -> RStd {
    let mut seg_len = [0u8; 3];
    let mut infos = vec![];
    let mut hops = vec![];
    for (i, s) in segs.iter().enumerate() {
        seg_len[i] = s.hops.len() as u8;
        infos.push(s.info);
        hops.extend(s.hops.iter().copied());
    }
    RStd { curr_inf, curr_hf, rsv: 0, seg_len, infos, hops }
}

/// travel-direction interfaces of hop `i` (ingress, egress)
fn travel_ifs(p: &RStd, i: usize) -> (u16, u16) {
    let lens: Vec<usize> = p.seg_len.iter().filter(|l| **l > 0).map(|l| *l as usize).collect();
    let mut k = 0;
    for (si, l) in lens.iter().enumerate() {
        if i < k + l {
            let h = p.hops[i];
            return if p.infos[si].cons_dir() { (h.ing, h.eg) } else { (h.eg, h.ing) };
        }
        k += l;
    }
    (0, 0)
}

// ------------------------------------------------------------------ standard path: agreement

#[derive(Clone, Debug, Serialize, Deserialize)]
struct StdCase {
    curr_inf: u8,
    curr_hf: u8,
    segs: Vec<SegSpec>,
    src: u64,
    dst: u64,
}

fn boxed_view(bytes: &[u8]) -> Result<Box<StandardPathView>, Fail> {
    StandardPathView::try_from_boxed(bytes.to_vec().into_boxed_slice()).map_err(|e| Fail::new("view-rejects-wellformed-path", format!("StandardPathView rejects reference-encoded path: {e}")))
}

fn check_std(c: &StdCase, obs: &mut Obs) -> CheckResult {
    let r = rstd_of(c.curr_inf, c.curr_hf, &c.segs);
    let bytes = rw::encode_std_path(&r);
    let spec = PathSpec::Std { curr_inf: c.curr_inf, curr_hf: c.curr_hf, segs: c.segs.clone() };
    let DpPath::Standard(model) = spec.to_sut() else { unreachable!() };
    let view = boxed_view(&bytes)?;
    obs.label(format!("std-{}seg", c.segs.len()));
    if c.segs.len() >= 2 {
        obs.nontrivial(&(c.curr_inf, c.curr_hf, vcore::hash64(&bytes)));
    }

    // conversion in both directions
    let m2 = vcore::no_panic("to_model", || view.to_model())?;
    ensure!(m2 == model, "to-model-differs", "view.to_model() = {m2:?}\n expected {model:?}");
    let enc = vcore::no_panic("encode", || model.try_encode_to_vec())?.map_err(|e| Fail::new("model-rejected", format!("well-formed model rejected: {e}")))?;
    ensure!(enc == bytes, "model-encoding-differs-from-reference", "encode(model) != reference encoding");

    // queries
    ensure!(view.hop_field_count() as usize == model.hop_field_count() && model.hop_field_count() == r.hops.len(), "hop-count-differs", "hop counts: view {} model {} ref {}", view.hop_field_count(), model.hop_field_count(), r.hops.len());
    ensure!(view.info_field_count() as usize == model.info_field_count() && model.info_field_count() == r.infos.len(), "info-count-differs", "info counts differ");
    let ve = vcore::no_panic("view.expiration", || view.expiration())?;
    let me = vcore::no_panic("model.expiration", || model.expiration())?;
    let re = ref_expiry(&r);
    ensure!(ve == me, "expiration-view-model-differ", "expiration: view {ve} model {me} (reference {re})");
    ensure!(ve == re, "expiration-differs-from-reference", "expiration: view/model {ve}, reference (min over hops of ts+(exp+1)*337.5s) {re}");
    // segment iteration
    let segs: Vec<(u8, u16, u32, usize)> = view.segments().map(|(i, h)| (i.flags().bits(), i.segment_id(), i.timestamp(), h.len())).collect();
    let want: Vec<(u8, u16, u32, usize)> = c.segs.iter().map(|s| (s.info.flags, s.info.seg_id, s.info.ts, s.hops.len())).collect();
    ensure!(segs == want, "segment-iteration-differs", "segments() yields {segs:?}, expected {want:?}");
    // interface queries through the path-view enum
    let dpv = ScionDpPathView::Standard(view.clone());
    let n = r.hops.len();
    ensure!(dpv.first_egress_interface() == Some(travel_ifs(&r, 0).1), "first-egress-differs", "first_egress_interface {:?} expected {}", dpv.first_egress_interface(), travel_ifs(&r, 0).1);
    ensure!(dpv.last_ingress_interface() == Some(travel_ifs(&r, n - 1).0), "last-ingress-differs", "last_ingress_interface {:?} expected {}", dpv.last_ingress_interface(), travel_ifs(&r, n - 1).0);
    // "current" queries are defined when the info pointer names the segment of the hop pointer
    let seg_of_hop = { let mut k = 0; let mut s = 0; for (i, sg) in c.segs.iter().enumerate() { if (c.curr_hf as usize) < k + sg.hops.len() { s = i; break; } k += sg.hops.len(); } s };
    if seg_of_hop == c.curr_inf as usize {
        let (ci, ce) = travel_ifs(&r, c.curr_hf as usize);
        ensure!(dpv.current_ingress_interface() == Some(ci) && dpv.current_egress_interface() == Some(ce), "current-interfaces-differ",
            "current ingress/egress {:?}/{:?} expected {ci}/{ce}", dpv.current_ingress_interface(), dpv.current_egress_interface());
        ensure!(view.curr_egress_interface() == Some(ce), "current-interfaces-differ", "curr_egress_interface {:?} expected {ce}", view.curr_egress_interface());
    }
    ensure!(dpv.expiration() == Some(re), "expiration-differs-from-reference", "ScionDpPathView::expiration {:?} expected {re}", dpv.expiration());
    ensure!(dpv.to_model() == DpPath::Standard(model.clone()), "to-model-differs", "ScionDpPathView::to_model differs");

    // reversal: view, model, enum wrappers and the reference agree
    let rr = ref_reverse(&r);
    let rbytes = rw::encode_std_path(&rr);
    let mut v = view.clone();
    let res_v = vcore::no_panic("view.try_reverse", || v.try_reverse())?;
    let mut m = model.clone();
    let res_m = vcore::no_panic("model.try_reverse", || m.try_reverse())?;
    ensure!(res_v.is_ok() && res_m.is_ok(), "reverse-fails-on-wellformed-path", "try_reverse on a well-formed path: view {res_v:?} model {res_m:?}");
    let menc = m.try_encode_to_vec().map_err(|e| Fail::new("reversed-model-unencodable", e.to_string()))?;
    ensure!(v.as_slice() == &menc[..], "reverse-view-model-differ", "bytes(view after reverse) != encode(model after reverse)\n view  {}\n model {}", vcore::hexs(v.as_slice()), vcore::hexs(&menc));
    ensure!(v.as_slice() == &rbytes[..], "reverse-differs-from-reference", "reversed path differs from the reference reversal\n sut {}\n ref {}", vcore::hexs(v.as_slice()), vcore::hexs(&rbytes));
    let mut v2 = v.clone();
    vcore::no_panic("view.try_reverse", || v2.try_reverse())?.map_err(|e| Fail::new("reverse-fails-on-wellformed-path", format!("second reversal fails: {e:?}")))?;
    ensure!(v2.as_slice() == &bytes[..], "reverse-not-involution", "reverse(reverse(p)) != p");
    let mut d = DpPath::Standard(model.clone());
    vcore::no_panic("DpPath::try_reverse", || d.try_reverse())?.map_err(|e| Fail::new("reverse-fails-on-wellformed-path", format!("{e:?}")))?;
    ensure!(d == DpPath::Standard(m.clone()), "reverse-view-model-differ", "DpPath::try_reverse differs from StandardPath::try_reverse");
    let mut dv = ScionDpPathView::Standard(view.clone());
    vcore::no_panic("ScionDpPathView::try_reverse", || dv.try_reverse().map(|_| ()))?.map_err(|e| Fail::new("reverse-fails-on-wellformed-path", format!("{e:?}")))?;
    ensure!(dv.as_slice() == &rbytes[..], "reverse-differs-from-reference", "ScionDpPathView::try_reverse differs from reference");

    // ScionPath: endpoints, metadata, fingerprint follow the reversal
    let src = IsdAsn(c.src);
    let dst = IsdAsn(c.dst);
    let mut ifs = vec![];
    for i in 0..n {
        let (ing, eg) = travel_ifs(&r, i);
        let ia = IsdAsn(0x0001_0000_0000_0000 + i as u64 + 1);
        if i > 0 { ifs.push(PathInterface::new(ia, ing)); }
        if i + 1 < n { ifs.push(PathInterface::new(ia, eg)); }
    }
    let meta = PathMetadata::new_minimal(re as u64, 1400, ifs.clone());
    let p0 = ScionPath::new(src, dst, ScionDpPathView::Standard(view.clone()), Some(meta), None);
    let mut p = p0.clone();
    vcore::no_panic("ScionPath::try_reverse", || p.try_reverse())?.map_err(|e| Fail::new("reverse-fails-on-wellformed-path", format!("ScionPath: {e:?}")))?;
    ensure!(p.src_ia() == dst && p.dst_ia() == src, "scionpath-reverse-endpoints", "endpoints after reverse {} -> {}", p.src_ia(), p.dst_ia());
    ensure!(p.dp_path().as_slice() == &rbytes[..], "reverse-differs-from-reference", "ScionPath dp bytes after reverse differ from reference");
    let mut rifs = ifs.clone();
    rifs.reverse();
    let got_ifs: Vec<PathInterface> = p.metadata().and_then(|m| m.interfaces.clone()).unwrap_or_default().into_iter().map(|m| m.interface).collect();
    ensure!(got_ifs == rifs, "scionpath-reverse-metadata", "metadata interfaces after reverse {got_ifs:?} expected {rifs:?}");
    let fresh = ScionPath::new(dst, src, ScionDpPathView::Standard(boxed_view(&rbytes)?), Some(PathMetadata::new_minimal(re as u64, 1400, rifs)), None);
    ensure!(p.fingerprint() == fresh.fingerprint(), "scionpath-reverse-fingerprint", "fingerprint after reverse differs from the fingerprint of the reversed path built afresh");
    ensure!(p.cp_fingerprint() == fresh.cp_fingerprint(), "scionpath-reverse-fingerprint", "control-plane fingerprint after reverse differs");
    ensure!(p.expiration() == p0.expiration() && p0.expiration() == Some(re), "scionpath-expiration", "ScionPath expiration {:?} / {:?}, expected {re}", p0.expiration(), p.expiration());
    let mut pp = p.clone();
    vcore::no_panic("ScionPath::try_reverse", || pp.try_reverse())?.map_err(|e| Fail::new("reverse-fails-on-wellformed-path", format!("{e:?}")))?;
    ensure!(pp.src_ia() == src && pp.dst_ia() == dst && pp.dp_path().as_slice() == &bytes[..] && pp.fingerprint() == p0.fingerprint(), "reverse-not-involution", "ScionPath reverse twice is not the identity");
    obs.evals(12);
    Ok(())
}

fn seg_strategy(len: impl Strategy<Value = usize>) -> impl Strategy<Value = SegSpec> {
    len.prop_flat_map(|l| (sp::info_strategy(), prop::collection::vec(sp::hop_strategy(), l..=l)).prop_map(|(info, hops)| SegSpec { info, hops }))
}
fn std_case_strategy() -> impl Strategy<Value = StdCase> {
    let len = || prop_oneof![6 => 1usize..=4, 2 => 5usize..=21, 1 => Just(63usize)];
    (prop::collection::vec(seg_strategy(len()), 1..=3), any::<u16>(), any::<u16>(), any::<u64>(), any::<u64>()).prop_map(|(mut segs, a, b, src, dst)| {
        // keep the total at <= 64 hops (CurrHF is 6 bits)
        while segs.iter().map(|s| s.hops.len()).sum::<usize>() > 64 { segs.pop(); }
        let total: usize = segs.iter().map(|s| s.hops.len()).sum();
        let curr_hf = vcore::idx(a, total) as u8;
        // mostly the consistent info pointer, sometimes another valid one
        let mut k = 0; let mut ci = 0;
        for (i, s) in segs.iter().enumerate() { if (curr_hf as usize) < k + s.hops.len() { ci = i; break; } k += s.hops.len(); }
        let curr_inf = if b % 5 == 0 { vcore::idx(b, segs.len()) as u8 } else { ci as u8 };
        StdCase { curr_inf, curr_hf, segs, src, dst }
    })
}

// ------------------------------------------------------------------ atomicity / totality

#[derive(Clone, Debug, Serialize, Deserialize)]
struct RawPathCase {
    #[serde(with = "vcore::hexbytes")]
    bytes: Vec<u8>,
}

fn check_atomic(c: &RawPathCase, obs: &mut Obs) -> CheckResult {
    let Ok(view) = StandardPathView::try_from_boxed(c.bytes.clone().into_boxed_slice()) else {
        // exact-size boxed construction failed: try the prefix view
        let Ok((v, _)) = StandardPathView::try_from_slice(&c.bytes) else { obs.label("atomic-rejected"); return Ok(()); };
        let b = v.as_slice().to_vec();
        return check_atomic(&RawPathCase { bytes: b }, obs);
    };
    let before = view.as_slice().to_vec();
    let meta = rw::decode_std_path(&before).map_err(|e| Fail::new("view-accepts-what-reference-rejects", format!("{e:?}")))?.0;
    let nz = meta.seg_len.iter().take_while(|l| **l > 0).count();
    let gap = meta.seg_len.iter().skip(nz).any(|l| *l > 0);
    let bad_ptr = meta.curr_hf as usize >= meta.hops.len() || meta.curr_inf as usize >= meta.infos.len();
    obs.label(if gap { "atomic-zero-length-middle-segment" } else if bad_ptr { "atomic-pointer-out-of-range" } else if meta.hops.is_empty() { "atomic-no-hops" } else { "atomic-wellformed" });
    if gap || bad_ptr || meta.infos.len() >= 2 {
        obs.nontrivial(&(meta.seg_len, meta.curr_inf, meta.curr_hf, vcore::hash64(&before)));
    }
    // read-only operations never panic
    vcore::no_panic("view.expiration", || view.expiration())?;
    vcore::no_panic("view.segments", || view.segments().count())?;
    vcore::no_panic("view Display/Debug", || format!("{view} {view:?}"))?;
    vcore::no_panic("view.to_model", || view.to_model())?;
    vcore::no_panic("view.curr_egress_interface", || view.curr_egress_interface())?;
    // StandardPathView::try_reverse
    let mut v = view.clone();
    let r = vcore::no_panic("view.try_reverse", || v.try_reverse())?;
    if r.is_err() {
        obs.label("reverse-error");
        ensure!(v.as_slice() == &before[..], "view-reverse-error-not-atomic", "StandardPathView::try_reverse returned {:?} but changed the bytes\n before {}\n after  {}", r, vcore::hexs(&before), vcore::hexs(v.as_slice()));
    }
    // enum wrapper
    let mut dv = ScionDpPathView::Standard(view.clone());
    let r = vcore::no_panic("ScionDpPathView::try_reverse", || dv.try_reverse().map(|_| ()))?;
    if r.is_err() {
        ensure!(dv.as_slice() == &before[..], "view-reverse-error-not-atomic", "ScionDpPathView::try_reverse returned {r:?} but changed the bytes");
    }
    // ScionPath
    let p0 = vcore::no_panic("ScionPath::new", || ScionPath::new(IsdAsn(1 << 48 | 1), IsdAsn(1 << 48 | 2), ScionDpPathView::Standard(view.clone()), Some(PathMetadata::new_minimal(0, 0, vec![PathInterface::new(IsdAsn(1 << 48 | 1), 1), PathInterface::new(IsdAsn(1 << 48 | 2), 2)])), None))?;
    let mut p = p0.clone();
    let r = vcore::no_panic("ScionPath::try_reverse", || p.try_reverse())?;
    if r.is_err() {
        let same = p.dp_path().as_slice() == &before[..] && p.src_ia() == p0.src_ia() && p.dst_ia() == p0.dst_ia() && p.fingerprint() == p0.fingerprint() && p.metadata() == p0.metadata();
        ensure!(same, "scionpath-reverse-error-not-atomic", "ScionPath::try_reverse returned {r:?} but changed the path (dp bytes equal: {})", p.dp_path().as_slice() == &before[..]);
    }
    // model built from the (possibly malformed) view
    let m0 = view.to_model();
    let mut m = m0.clone();
    let r = vcore::no_panic("model.try_reverse", || m.try_reverse())?;
    if r.is_err() {
        ensure!(m == m0, "model-reverse-error-not-atomic", "StandardPath::try_reverse returned {r:?} but changed the model");
    }
    vcore::no_panic("model.expiration", || m0.expiration())?;
    let mut d0 = DpPath::Standard(m0.clone());
    let r = vcore::no_panic("DpPath::try_reverse", || d0.try_reverse())?;
    if r.is_err() {
        ensure!(d0 == DpPath::Standard(m0.clone()), "model-reverse-error-not-atomic", "DpPath::try_reverse error changed the model");
    }
    obs.evals(6);
    Ok(())
}

/// all (seg lens <= 3) x curr_inf x curr_hf(0..=12 and 63) shapes, contents from the seed
fn atomic_enum_case(i: u64, seed: u64) -> RawPathCase {
    let mut j = i;
    let s0 = (j % 4) as u8; j /= 4;
    let s1 = (j % 4) as u8; j /= 4;
    let s2 = (j % 4) as u8; j /= 4;
    let ci = (j % 4) as u8; j /= 4;
    let chs = [0u8, 1, 2, 3, 4, 5, 6, 7, 8, 9, 10, 11, 12, 63];
    let ch = chs[(j % chs.len() as u64) as usize];
    let size = rw::std_path_size([s0, s1, s2]);
    let mut bytes = sp::fill(size, seed ^ i.wrapping_mul(0x9e3779b97f4a7c15));
    let w: u32 = ((ci as u32) << 30) | ((ch as u32) << 24) | ((s0 as u32) << 12) | ((s1 as u32) << 6) | s2 as u32;
    bytes[..4].copy_from_slice(&w.to_be_bytes());
    RawPathCase { bytes }
}

// ------------------------------------------------------------------ one-hop paths

#[derive(Clone, Debug, Serialize, Deserialize)]
struct OneHopCase {
    info: RInfo,
    hops: [RHop; 2],
    ingress: u16,
    key: [u8; 16],
    advanced: bool,
}

fn check_onehop(c: &OneHopCase, obs: &mut Obs) -> CheckResult {
    let mut bytes = vec![];
    rw::enc_info(&c.info, &mut bytes);
    rw::enc_hop(&c.hops[0], &mut bytes);
    rw::enc_hop(&c.hops[1], &mut bytes);
    let model = OneHopPath::new_from_parts(sp::sut_info(&c.info), [sp::sut_hop(&c.hops[0]), sp::sut_hop(&c.hops[1])]);
    let (view, _) = OneHopPathView::try_from_slice(&bytes).map_err(|e| Fail::new("view-rejects-wellformed-path", format!("{e}")))?;
    let view = view.clone();
    ensure!(view.to_model() == model, "to-model-differs", "OneHopPathView::to_model differs");
    ensure!(model.try_encode_to_vec().ok().as_deref() == Some(&bytes[..]), "model-encoding-differs-from-reference", "OneHopPath encoding differs from reference");
    obs.label(if c.hops[1].ing == 0 { "onehop-second-hop-unset" } else { "onehop-complete" });
    obs.nontrivial(&(vcore::hash64(&bytes), c.ingress, c.advanced));
    // try_reverse: view and model agree; error leaves both untouched
    let mut v = view.clone();
    let mut m = model.clone();
    let rv = vcore::no_panic("OneHopPathView::try_reverse", || v.try_reverse())?;
    let rm = vcore::no_panic("OneHopPath::try_reverse", || m.try_reverse())?;
    ensure!(rv.is_ok() == rm.is_ok(), "onehop-reverse-result-differs", "try_reverse: view {rv:?} model {rm:?}");
    if rv.is_err() {
        ensure!(v.as_slice() == &bytes[..] && m == model, "onehop-reverse-error-not-atomic", "one-hop try_reverse error changed the operand");
    } else {
        ensure!(Some(v.as_slice()) == m.try_encode_to_vec().ok().as_deref(), "onehop-reverse-view-model-differ", "one-hop reversal: bytes(view) != encode(model)");
    }
    // set_second_hop: same operation on view and model. Callers apply it to the placeholder second
    // hop of a path in flight; a placeholder with flag bits already set is not generated input
    // (the view keeps such bits, the model clears them - not asserted).
    if c.hops[1].flags != 0 {
        obs.label("onehop-second-hop-flags-set(skipped set_second_hop)");
    } else {
    let mut v = view.clone();
    let mut m = model.clone();
    vcore::no_panic("OneHopPathView::set_second_hop", || v.set_second_hop(c.ingress, c.key, c.advanced))?;
    vcore::no_panic("OneHopPath::set_second_hop", || m.set_second_hop(c.ingress, c.key, c.advanced))?;
    let menc = m.try_encode_to_vec().map_err(|e| Fail::new("model-rejected", e.to_string()))?;
    ensure!(v.as_slice() == &menc[..], "onehop-set-second-hop-view-model-differ", "set_second_hop: bytes(view) != encode(model)\n view  {}\n model {}", vcore::hexs(v.as_slice()), vcore::hexs(&menc));
    }
    // the path-level reversal offered on the view enum and on the model enum (last: it meets a
    // known finding, which must not mask the assertions above)
    let mut dv = ScionDpPathView::OneHop(view.clone());
    let mut dm = DpPath::OneHop(model.clone());
    let rdv = vcore::no_panic("ScionDpPathView::try_reverse", || dv.try_reverse().map(|_| ()))?;
    let rdm = vcore::no_panic("DpPath::try_reverse", || dm.try_reverse())?;
    ensure!(rdv.is_ok() == rdm.is_ok(), "onehop-reverse-result-differs", "path-level try_reverse: view {rdv:?} model {rdm:?}");
    if rdv.is_ok() {
        let menc = dm.try_encode_to_vec().map_err(|e| Fail::new("reversed-model-unencodable", e.to_string()))?;
        ensure!(dv.to_model() == dm && dv.as_slice() == &menc[..], "onehop-path-reverse-view-model-differ",
            "reversing a one-hop path: the view stays a one-hop path ({} bytes) while the model becomes {:?} ({} bytes)", dv.as_slice().len(), dm.path_type(), menc.len());
    } else {
        ensure!(dv.as_slice() == &bytes[..] && dm == DpPath::OneHop(model.clone()), "onehop-reverse-error-not-atomic", "path-level one-hop try_reverse error changed the operand");
    }
    obs.evals(4);
    Ok(())
}

fn run(ctx: &Ctx) {
    // exhaustive small shapes: <=3 segments x <=3 hops, every position
    let mut small = vec![];
    for s0 in 1..=3usize { for s1 in 0..=3usize { for s2 in 0..=3usize {
        if s1 == 0 && s2 > 0 { continue; }
        let lens: Vec<usize> = [s0, s1, s2].into_iter().filter(|l| *l > 0).collect();
        let total: usize = lens.iter().sum();
        for ch in 0..total { for ci in 0..lens.len() { for flags in 0..4u8 {
            small.push((lens.clone(), ch as u8, ci as u8, flags));
        }}}
    }}}
    let seed = ctx.seed;
    ctx.run_enum("std-agreement-small", small.len() as u64, true, |i| {
        let (lens, ch, ci, flags) = &small[i as usize];
        let mut x = seed ^ i.wrapping_mul(0x2545F4914F6CDD1D);
        let mut nx = || { x ^= x << 13; x ^= x >> 7; x ^= x << 17; x };
        let segs = lens.iter().enumerate().map(|(si, l)| SegSpec {
            info: RInfo { flags: (flags >> (si % 2)) & 1 | ((nx() % 2) as u8) << 1, rsv: 0, seg_id: nx() as u16, ts: 1_700_000_000 + (nx() % 100_000) as u32 },
            hops: (0..*l).map(|_| RHop { flags: 0, exp: (nx() % 256) as u8, ing: (nx() % 5) as u16, eg: (nx() % 5) as u16, mac: [nx() as u8; 6] }).collect(),
        }).collect();
        Some(StdCase { curr_inf: *ci, curr_hf: *ch, segs, src: 1 << 48 | 1, dst: 2 << 48 | 2 })
    }, check_std);
    let n = ctx.tier.pick(60_000, 3_000_000);
    ctx.run_prop("std-agreement", n, std_case_strategy, check_std);

    let shapes = 4u64 * 4 * 4 * 4 * 14;
    let reps = ctx.tier.pick(8u64, 200);
    ctx.run_enum("std-atomicity-small", shapes * reps, true, |i| Some(atomic_enum_case(i % shapes, seed.wrapping_add(i / shapes))), check_atomic);
    let n = ctx.tier.pick(300_000, 10_000_000);
    ctx.run_prop("std-atomicity", n, || {
        (0u8..=63, 0u8..=63, 0u8..=63, 0u8..4, 0u8..=63, any::<u64>(), 0u8..4).prop_map(|(a, b, c, ci, ch, seed, small)| {
            // mostly small segment lengths, sometimes large
            let f = |x: u8| if small > 0 { x % 5 } else { x };
            let (s0, s1, s2) = (f(a), f(b), f(c));
            let size = rw::std_path_size([s0, s1, s2]);
            let mut bytes = sp::fill(size, seed);
            let w: u32 = ((ci as u32) << 30) | (((ch % if small > 0 { 16 } else { 64 }) as u32) << 24) | ((s0 as u32) << 12) | ((s1 as u32) << 6) | s2 as u32;
            bytes[..4].copy_from_slice(&w.to_be_bytes());
            RawPathCase { bytes }
        })
    }, check_atomic);

    let n = ctx.tier.pick(200_000, 5_000_000);
    ctx.run_prop("onehop", n, || {
        (sp::info_strategy(), sp::hop_strategy(), sp::hop_strategy(), prop_oneof![Just(0u16), Just(1), any::<u16>()], any::<[u8; 16]>(), any::<bool>(), any::<bool>())
            .prop_map(|(info, a, mut b, ingress, key, advanced, unset)| { if unset { b.ing = 0; } else if b.ing == 0 { b.ing = 7; } OneHopCase { info, hops: [a, b], ingress, key, advanced } })
    }, check_onehop);
}

fn post(ctx: &Ctx) {
    ctx.require_label("std-3seg", 1000);
    ctx.require_label("atomic-zero-length-middle-segment", 500);
    ctx.require_label("atomic-pointer-out-of-range", 500);
    ctx.require_label("reverse-error", 500);
    ctx.require_label("onehop-second-hop-unset", 500);
}

fn main() {
    let subs = [
        Sub { name: "std-agreement-small", run, replay: |c, v| c.replay_case::<StdCase>("std-agreement", v, check_std) },
        Sub { name: "std-agreement", run: |_| {}, replay: |c, v| c.replay_case::<StdCase>("std-agreement", v, check_std) },
        Sub { name: "std-atomicity-small", run: |_| {}, replay: |c, v| c.replay_case::<RawPathCase>("std-atomicity", v, check_atomic) },
        Sub { name: "std-atomicity", run: |_| {}, replay: |c, v| c.replay_case::<RawPathCase>("std-atomicity", v, check_atomic) },
        Sub { name: "onehop", run: |_| {}, replay: |c, v| c.replay_case::<OneHopCase>("onehop", v, check_onehop) },
    ];
    vcore::main(
        "C12",
        "agreement: well-formed standard paths (exhaustive over <=3 segments x <=3 hops x every hop/info position x cons-dir flags; random up to 64 hops), reference-encoded, every operation offered on view and model (to_model/encode, counts, segment iteration, expiration, first/last/current interfaces, try_reverse on StandardPathView/StandardPath/ScionDpPathView/DpPath/ScionPath) compared with each other and with an independent reversal/expiry; reverse twice = identity; ScionPath endpoints/metadata/fingerprints follow. atomicity/totality: every byte string the standard-path view accepts (exhaustive over segment lengths <=3 each x all 4 info pointers x hop pointers 0..12,63 with random contents; random beyond) - an operation returning Err leaves bytes/model/ScionPath unchanged, nothing panics. one-hop: try_reverse and set_second_hop on view vs model, path-level reversal on ScionDpPathView vs DpPath. Non-trivial = >=2 segments or invalid pointer/zero-length middle segment; distinct by (shape, pointers, content hash).",
        &["set_second_hop is compared only when the second hop field carries no flag bits (placeholder of a path in flight)", "'well-formed' = non-empty prefix of non-zero segment lengths, pointers inside; agreement is only asserted there", "expiry reference: min over hop fields of timestamp + floor((ExpTime+1)*337.5 s), saturating at u32::MAX"],
        &subs,
        post,
    );
}
