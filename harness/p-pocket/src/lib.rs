//! Shared helpers for the pocketscion-based checks: conversion of the reference topology into a
//! pocketscion `ScionTopology` (same AS keys, interfaces, link types and link states).

use pocketscion::network::scion::topology::{ScionAs, ScionLink, ScionLinkType, ScionTopology, ScionTopologyBuilder};
use refmodel::topo::{LinkKind, Topo};
use sciparse::identifier::isd_asn::IsdAsn;

pub fn to_pocket(t: &Topo) -> anyhow::Result<ScionTopology> {
    let mut b = ScionTopologyBuilder::new();
    for a in &t.ases {
        let ia = IsdAsn(a.ia);
        let node = if a.core { ScionAs::new_core(ia) } else { ScionAs::new(ia) };
        b.add_as(node.with_forwarding_key(a.key))?;
    }
    for l in &t.links {
        let ty = match l.kind {
            LinkKind::Core => ScionLinkType::Core,
            LinkKind::ParentChild => ScionLinkType::Parent,
            LinkKind::Peer => ScionLinkType::Peer,
        };
        let mut link = ScionLink::new(IsdAsn(t.ases[l.a].ia), l.a_if, ty, IsdAsn(t.ases[l.b].ia), l.b_if)?;
        link.set_is_up(l.up);
        b.add_link(link)?;
    }
    b.build()
}
