//! C13 — the simulated dataplane enforces the SCION forwarding rules and agrees, AS step by AS
//! step, with an independently written reference border router.

use pocketscion::network::scion::{
    routing::{AsRoutingAction, LocalAsRoutingAction, ScionNetworkTime, spec::SpecRoutingLogic},
    simulator::ScionNetworkSim,
    topology::ScionTopology,
};
use p_sciparse::topogen::{self, TopoSpec};
use proptest::prelude::*;
use refmodel::{
    mac::{self, Chain, SegUse},
    router::{self, Lenient, Reject, Verdict},
    topo::{self, BeaconParams, Seg, Topo},
    wire::{self as rw, RHeader, RHop, RPath, RStd},
};
use sciparse::{
    core::view::View,
    identifier::isd_asn::IsdAsn,
    packet::view::ScionRawPacketView,
    payload::scmp::{model::ScmpErrorMessage, types::ScmpParameterProblemCode as PP},
};
use serde::{Deserialize, Serialize};
use vcore::{CheckResult, Ctx, Fail, Obs, Sub, ensure, idx};

#[derive(Clone, Debug, Serialize, Deserialize)]
struct UseSpec {
    seg: u16,
    lo: u16,
    hi: u16,
    cons_dir: bool,
    peer: Option<u16>,
}

#[derive(Clone, Debug, Serialize, Deserialize)]
enum Base {
    /// the `which`-th path the reference combinator finds from src to dst
    Authentic { src: u16, dst: u16, which: u16 },
    /// authentic (parts of) segments in an arbitrary order/direction, each with a SegID that makes
    /// it verify on its own
    Splice { uses: Vec<UseSpec> },
}

#[derive(Clone, Debug, Serialize, Deserialize)]
enum Mut {
    /// field: 0 ConsIngress, 1 ConsEgress, 2 ExpTime, 3 MAC byte (val>>8 selects the byte), 4 reserved flag bits
    Hop { hop: u16, field: u8, val: u16, mode: u8 },
    /// field: 0 SegID, 1 Timestamp, 2 ConsDir flag, 3 Peering flag, 4 reserved byte
    Info { inf: u16, field: u8, val: u32, mode: u8 },
    /// field: 0 CurrINF, 1 CurrHF, 2..=4 SegLen[i], 5 reserved bits
    Meta { field: u8, val: u8, mode: u8 },
    /// moves the boundary between segment i and i+1 by one hop (dir: true = towards the end)
    ShiftBoundary { i: u8, dir: bool },
    SwapHops(u16, u16),
    SwapSegs(u8, u8),
    DropHop(u16),
    DupHop(u16),
    /// replaces hop field `hop` by an authentic hop field of another segment
    ForeignHop { hop: u16, seg: u16, idx: u16, peer: Option<u16> },
}

#[derive(Clone, Debug, Serialize, Deserialize)]
enum Down {
    Link(u16),
    /// the k-th link the reference router would forward the packet over
    OnPath(u16),
}

#[derive(Clone, Debug, Serialize, Deserialize)]
enum Clock {
    Valid,
    BeforeTs(u32),
    /// whole second of the expiry of hop `hop` + delta
    AtExpiry { hop: u16, delta: i8 },
    After(u32),
}

#[derive(Clone, Debug, Serialize, Deserialize)]
enum Inject {
    Source,
    /// after k forwarding steps of the reference router, at the AS / interface it arrives on
    Mid { k: u16 },
    MidWrongIf { k: u16, ifsel: u16 },
    Any { asn: u16, ifsel: u16 },
}

#[derive(Clone, Debug, Serialize, Deserialize)]
struct Case {
    topo: TopoSpec,
    ts: u32,
    bseed: u64,
    exp: Option<u8>,
    base: Base,
    muts: Vec<Mut>,
    down: Vec<Down>,
    clock: Clock,
    inject: Inject,
    /// header destination ISD-AS override (AS index)
    dst: Option<u16>,
}

fn apply(mode: u8, old: u32, val: u32, mask: u32) -> u32 {
    (match mode % 4 {
        0 => val,
        1 => old ^ (val | (val == 0) as u32),
        2 => old.wrapping_add(1),
        _ => old.wrapping_sub(1),
    }) & mask
}

fn seg_bounds(p: &RStd) -> Vec<(usize, usize)> {
    let mut out = vec![];
    let mut k = 0usize;
    for l in p.seg_len.iter() {
        if *l == 0 {
            break;
        }
        out.push((k, k + *l as usize));
        k += *l as usize;
    }
    out
}

fn mutate(p: &mut RStd, m: &Mut, all: &[Seg]) -> String {
    let nh = p.hops.len();
    let ni = p.infos.len();
    match m {
        Mut::Hop { hop, field, val, mode } => {
            if nh == 0 {
                return "none".into();
            }
            let h = &mut p.hops[idx(*hop, nh)];
            match field % 5 {
                0 => h.ing = apply(*mode, h.ing as u32, *val as u32, 0xffff) as u16,
                1 => h.eg = apply(*mode, h.eg as u32, *val as u32, 0xffff) as u16,
                2 => h.exp = apply(*mode, h.exp as u32, *val as u32, 0xff) as u8,
                3 => {
                    let b = (*val >> 8) as usize % 6;
                    h.mac[b] = apply(*mode, h.mac[b] as u32, (*val & 0xff) as u32, 0xff) as u8;
                }
                // only the reserved bits: router alerts are outside the reference model
                _ => h.flags = apply(*mode, h.flags as u32, *val as u32, 0xfc) as u8 | (h.flags & 3),
            }
            ["hop-ingress", "hop-egress", "hop-exptime", "hop-mac", "hop-reserved-flags"][(*field % 5) as usize].into()
        }
        Mut::Info { inf, field, val, mode } => {
            if ni == 0 {
                return "none".into();
            }
            let i = &mut p.infos[idx(*inf, ni)];
            match field % 5 {
                0 => i.seg_id = apply(*mode, i.seg_id as u32, *val, 0xffff) as u16,
                1 => i.ts = apply(*mode, i.ts, *val, u32::MAX),
                2 => i.flags ^= 1,
                3 => i.flags ^= 2,
                _ => i.rsv = apply(*mode, i.rsv as u32, *val, 0xff) as u8,
            }
            ["info-segid", "info-timestamp", "info-consdir", "info-peering", "info-reserved"][(*field % 5) as usize].into()
        }
        Mut::Meta { field, val, mode } => {
            match field % 6 {
                0 => p.curr_inf = apply(*mode, p.curr_inf as u32, *val as u32, 3) as u8,
                1 => p.curr_hf = apply(*mode, p.curr_hf as u32, *val as u32, 63) as u8,
                f @ 2..=4 => {
                    let k = (f - 2) as usize;
                    p.seg_len[k] = apply(*mode, p.seg_len[k] as u32, *val as u32, 63) as u8
                }
                _ => p.rsv = apply(*mode, p.rsv as u32, *val as u32, 63) as u8,
            }
            ["meta-currinf", "meta-currhf", "meta-seglen", "meta-seglen", "meta-seglen", "meta-reserved"][(*field % 6) as usize].into()
        }
        Mut::ShiftBoundary { i, dir } => {
            let b = seg_bounds(p);
            if b.len() < 2 {
                return "none".into();
            }
            let k = (*i as usize) % (b.len() - 1);
            if *dir && p.seg_len[k + 1] > 1 {
                p.seg_len[k] += 1;
                p.seg_len[k + 1] -= 1;
            } else if !*dir && p.seg_len[k] > 1 {
                p.seg_len[k] -= 1;
                p.seg_len[k + 1] += 1;
            }
            "shift-boundary".into()
        }
        Mut::SwapHops(a, b) => {
            if nh >= 2 {
                p.hops.swap(idx(*a, nh), idx(*b, nh));
            }
            "swap-hops".into()
        }
        Mut::SwapSegs(a, b) => {
            let bd = seg_bounds(p);
            if bd.len() >= 2 && bd.len() == ni && bd.last().map(|x| x.1) == Some(nh) {
                let (a, b) = ((*a as usize) % bd.len(), (*b as usize) % bd.len());
                let mut segs: Vec<(rw::RInfo, Vec<RHop>)> = bd.iter().enumerate().map(|(i, (s, e))| (p.infos[i], p.hops[*s..*e].to_vec())).collect();
                segs.swap(a, b);
                p.infos.clear();
                p.hops.clear();
                p.seg_len = [0; 3];
                for (i, (inf, hs)) in segs.into_iter().enumerate() {
                    p.seg_len[i] = hs.len() as u8;
                    p.infos.push(inf);
                    p.hops.extend(hs);
                }
            }
            "swap-segments".into()
        }
        Mut::DropHop(h) => {
            let bd = seg_bounds(p);
            if nh >= 3 && bd.last().map(|x| x.1) == Some(nh) {
                let k = idx(*h, nh);
                let si = bd.iter().position(|(s, e)| *s <= k && k < *e).unwrap();
                if p.seg_len[si] > 1 {
                    p.hops.remove(k);
                    p.seg_len[si] -= 1;
                }
            }
            "drop-hop".into()
        }
        Mut::DupHop(h) => {
            let bd = seg_bounds(p);
            if nh >= 1 && nh < 60 && bd.last().map(|x| x.1) == Some(nh) {
                let k = idx(*h, nh);
                let si = bd.iter().position(|(s, e)| *s <= k && k < *e).unwrap();
                let hh = p.hops[k];
                p.hops.insert(k, hh);
                p.seg_len[si] += 1;
            }
            "dup-hop".into()
        }
        Mut::ForeignHop { hop, seg, idx: hi, peer } => {
            if nh == 0 || all.is_empty() {
                return "none".into();
            }
            let s = &all[idx(*seg, all.len())];
            let ch = &s.chain.hops[idx(*hi, s.chain.hops.len())];
            let new = match peer {
                Some(k) if !ch.peers.is_empty() => {
                    let ph = &ch.peers[idx(*k, ch.peers.len())];
                    RHop { flags: 0, exp: ph.exp, ing: ph.ing, eg: ch.eg, mac: ph.mac }
                }
                _ => RHop { flags: 0, exp: ch.exp, ing: ch.ing, eg: ch.eg, mac: ch.mac },
            };
            p.hops[idx(*hop, nh)] = new;
            "foreign-hop".into()
        }
    }
}

fn mk_packet(p: &RStd, src_ia: u64, dst_ia: u64) -> Vec<u8> {
    mk_packet_with(RPath::Std(p.clone()), 1, src_ia, dst_ia)
}

fn mk_packet_with(path: RPath, path_type: u8, src_ia: u64, dst_ia: u64) -> Vec<u8> {
    let path_len = match &path {
        RPath::Std(p) => 4 + 8 * p.infos.len() + 12 * p.hops.len(),
        RPath::OneHop { .. } => 32,
        _ => 0,
    };
    let payload = [0x13u8, 0x88, 0x13, 0x89, 0, 12, 0, 0, b'c', b'1', b'3', b'!'];
    let h = RHeader {
        version: 0,
        tc: 0,
        flow: 1,
        next: 17,
        hdr_units: ((36 + path_len) / 4) as u8,
        payload_len: payload.len() as u16,
        path_type,
        dst_tl: 0,
        src_tl: 0,
        rsv: 0,
        dst_ia,
        src_ia,
        dst_host: vec![10, 0, 0, 2],
        src_host: vec![10, 0, 0, 1],
        path,
    };
    let mut b = rw::encode_header(&h);
    b.extend_from_slice(&payload);
    b
}

#[derive(Clone, Debug, PartialEq, Eq)]
enum SutV {
    Forward(u16),
    Deliver,
    Drop,
    Err(&'static str),
    Alert,
    External,
}
impl SutV {
    fn short(&self) -> String {
        match self {
            SutV::Forward(_) => "forward".into(),
            SutV::Deliver => "deliver".into(),
            SutV::Drop => "drop".into(),
            SutV::Err(c) => format!("err-{c}"),
            SutV::Alert => "alert".into(),
            SutV::External => "external".into(),
        }
    }
}

fn classify_action(a: &AsRoutingAction) -> SutV {
    match a {
        AsRoutingAction::ForwardNextHop { egress_interface_id } => SutV::Forward(*egress_interface_id),
        AsRoutingAction::Drop => SutV::Drop,
        AsRoutingAction::Local(l) => {
            match l {
                LocalAsRoutingAction::ForwardLocal => SutV::Deliver,
                LocalAsRoutingAction::IngressSCMPHandleRequest { .. } | LocalAsRoutingAction::EgressSCMPHandleRequest { .. } => SutV::Alert,
                LocalAsRoutingAction::ForwardExternal { .. } => SutV::External,
                LocalAsRoutingAction::SendSCMPErrorResponse(m) => {
                    SutV::Err(match m {
                        ScmpErrorMessage::ParameterProblem(pp) => {
                            match pp.code {
                                PP::InvalidHopFieldMac => "mac",
                                PP::PathExpired => "expired",
                                PP::InvalidPath => "future",
                                PP::UnknownHopFieldConsIngressInterface | PP::UnknownHopFieldConsEgressInterface => "interface",
                                PP::InvalidSegmentChange => "segchange",
                                PP::NonLocalDelivery => "nonlocal",
                                PP::ErroneousHeaderField => "alert",
                                _ => "other",
                            }
                        }
                        ScmpErrorMessage::ExternalInterfaceDown(_) => "ifdown",
                        _ => "other",
                    })
                }
            }
        }
    }
}

fn class_of(r: Reject) -> &'static str {
    match r {
        Reject::Malformed => "malformed",
        Reject::Expired => "expired",
        Reject::BadIngress | Reject::BadEgress => "interface",
        Reject::BadMac => "mac",
        Reject::BadSegChange => "segchange",
        Reject::NonLocal => "nonlocal",
        Reject::IfDown => "ifdown",
    }
}

fn refv_short(v: &Verdict) -> String {
    match v {
        Verdict::Deliver => "deliver".into(),
        Verdict::Forward { .. } => "forward".into(),
        Verdict::Reject(Reject::Malformed) => "drop".into(),
        Verdict::Reject(r) => format!("err-{}", class_of(*r)),
    }
}

struct Built {
    t: Topo,
    all: Vec<Seg>,
    p: RStd,
    src: usize,
    dst: usize,
    kind: String,
}

fn build(c: &Case, obs: &mut Obs) -> Option<Built> {
    let t = c.topo.build();
    let n = t.ases.len();
    let (core, non_core) = topo::beacons(&t, &BeaconParams { ts: c.ts, seed: c.bseed, exp: c.exp }, 8);
    let mut all = core;
    all.extend(non_core);
    if all.is_empty() {
        obs.label("no-segments");
        return None;
    }
    let chains: Vec<Chain> = all.iter().map(|s| s.chain.clone()).collect();
    let (p, src, dst, kind) = match &c.base {
        Base::Authentic { src, dst, which } => {
            let (src, dst) = (idx(*src, n), idx(*dst, n));
            if src == dst {
                obs.label("base-same-as");
                return None;
            }
            let paths = topo::combine(&all, src, dst);
            if paths.is_empty() {
                obs.label("base-no-path");
                return None;
            }
            let rp = &paths[idx(*which, paths.len())];
            let (p, _) = mac::plan_path(&chains, &rp.uses);
            (p, src, dst, format!("authentic-{}", rp.kind))
        }
        Base::Splice { uses } => {
            let mut us = vec![];
            for u in uses.iter().take(3) {
                let si = idx(u.seg, all.len());
                let l = all[si].chain.hops.len();
                let (mut lo, mut hi) = (idx(u.lo, l), idx(u.hi, l));
                if lo > hi {
                    std::mem::swap(&mut lo, &mut hi);
                }
                // mostly avoid segments of a single hop field (unspecified behaviour)
                if lo == hi && l >= 2 && u.hi % 4 != 0 {
                    if hi + 1 < l { hi += 1 } else { lo -= 1 }
                }
                let np = all[si].chain.hops[lo].peers.len();
                let peer = match u.peer {
                    Some(k) if np > 0 => Some(idx(k, np)),
                    _ => None,
                };
                us.push(SegUse { chain: si, lo, hi, cons_dir: u.cons_dir, peer });
            }
            if us.is_empty() {
                return None;
            }
            let (p, ex) = mac::plan_path(&chains, &us);
            let (src, dst) = (ex.first().unwrap().asn, ex.last().unwrap().asn);
            (p, src, dst, "splice".to_string())
        }
    };
    Some(Built { t, all, p, src, dst, kind })
}

fn if_choices(t: &Topo, a: usize) -> Vec<u16> {
    let mut v = vec![0u16];
    let mut maxif = 0u16;
    for l in &t.links {
        if l.a == a {
            v.push(l.a_if);
            maxif = maxif.max(l.a_if);
        }
        if l.b == a {
            v.push(l.b_if);
            maxif = maxif.max(l.b_if);
        }
    }
    v.push(maxif.wrapping_add(7).max(1));
    v
}

/// at a segment change: is the link the packet came in on, or the one the next segment's first hop
/// field leaves through, a peering link?
fn xover_over_peering_link(t: &Topo, a: usize, inif: u16, p: &RStd) -> bool {
    let b = seg_bounds(p);
    let (ci, ch) = (p.curr_inf as usize, p.curr_hf as usize);
    if ci + 1 >= p.infos.len() || ch + 1 >= p.hops.len() || b.get(ci).map(|x| x.1) != Some(ch + 1) {
        return false;
    }
    let nh = &p.hops[ch + 1];
    let eg = if p.infos[ci + 1].cons_dir() { nh.eg } else { nh.ing };
    let ch_in = { let h = &p.hops[ch]; if p.infos[ci].cons_dir() { h.ing } else { h.eg } };
    [inif, ch_in, eg].iter().any(|i| *i != 0 && t.role_at(a, *i) == Some(refmodel::topo::IfRole::Peer))
}

fn step_tag(t: &Topo, a: usize, p: &RStd) -> &'static str {
    let b = seg_bounds(p);
    let (ci, ch) = (p.curr_inf as usize, p.curr_hf as usize);
    if b.is_empty() || b.last().unwrap().1 != p.hops.len() || p.infos.len() != b.len() || ch >= p.hops.len() || ci >= b.len() || !(b[ci].0 <= ch && ch < b[ci].1) {
        return "malformed";
    }
    if p.infos[ci].peering() {
        return "peering";
    }
    if ch + 1 == b[ci].1 && ch + 1 != p.hops.len() {
        return if t.ases[a].core { "xover-core" } else { "xover-noncore" };
    }
    "plain"
}

/// runs one SUT AS step on `buf`; returns the classified action (None: iterator ended / error)
fn sut_step(pt: &ScionTopology, buf: &mut [u8], now: u32, ia: u64, ingress: u16) -> Result<Option<(SutV, String)>, Fail> {
    let (view, _) = ScionRawPacketView::try_from_mut_slice(buf).map_err(|e| Fail::new("harness:packet-unparseable-mid-walk", e.to_string()))?;
    let mut it = ScionNetworkSim::iter::<SpecRoutingLogic>(pt, view, ScionNetworkTime::from_timestamp_secs(now), IsdAsn(ia), ingress, false)
        .map_err(|e| Fail::new("sim-iter-refused", format!("{e:#}")))?;
    match it.next() {
        None => Ok(None),
        Some(Err(e)) => Ok(Some((SutV::Drop, format!("simulator error: {e:#}")))),
        Some(Ok(o)) => Ok(Some((classify_action(&o.action), format!("{:?}", o.action)))),
    }
}

fn check(c: &Case, obs: &mut Obs) -> CheckResult {
    let Some(Built { mut t, all, mut p, src, dst, kind }) = build(c, obs) else {
        return Ok(());
    };
    let n = t.ases.len();
    let mut mkinds = vec![];
    for m in &c.muts {
        mkinds.push(mutate(&mut p, m, &all));
    }
    let src_ia = t.ases[src].ia;
    let dst_ia = match c.dst {
        Some(d) => t.ases[idx(d, n)].ia,
        None => t.ases[dst].ia,
    };
    // clock
    let base_now = c.ts.saturating_add(10);
    let now = match &c.clock {
        Clock::Valid => base_now,
        Clock::BeforeTs(d) => c.ts.saturating_sub(*d),
        Clock::AtExpiry { hop, delta } => {
            if p.hops.is_empty() {
                base_now
            } else {
                let k = idx(*hop, p.hops.len());
                let b = seg_bounds(&p);
                let si = b.iter().position(|(s, e)| *s <= k && k < *e).unwrap_or(0).min(p.infos.len().saturating_sub(1));
                let ts = p.infos.get(si).map(|i| i.ts).unwrap_or(c.ts);
                let e = (router::hop_expiry_ms(ts, p.hops[k].exp) / 1000) as i64 + *delta as i64;
                e.clamp(0, u32::MAX as i64) as u32
            }
        }
        Clock::After(d) => c.ts.saturating_add(256 * 338).saturating_add(*d),
    };
    // link states
    for d in &c.down {
        if let Down::Link(l) = d {
            if !t.links.is_empty() {
                let k = idx(*l, t.links.len());
                t.links[k].up = false;
            }
        }
    }
    // injection point
    let advance = |t: &Topo, p: &mut RStd, k: usize| -> (usize, u16) {
        let (mut a, mut inif) = (src, 0u16);
        for _ in 0..k {
            let mut q = p.clone();
            match router::process(t, a, inif, &mut q, dst_ia, now) {
                Verdict::Forward { next_as, next_if, .. } => {
                    *p = q;
                    a = next_as;
                    inif = next_if;
                }
                _ => break,
            }
        }
        (a, inif)
    };
    let mut all_up = t.clone();
    for l in all_up.links.iter_mut() {
        l.up = true;
    }
    let (start_as, start_if) = match &c.inject {
        Inject::Source => (src, 0),
        Inject::Mid { k } => advance(&all_up, &mut p, 1 + (*k as usize % 6)),
        Inject::MidWrongIf { k, ifsel } => {
            let (a, _) = advance(&all_up, &mut p, 1 + (*k as usize % 6));
            let ch = if_choices(&t, a);
            (a, ch[idx(*ifsel, ch.len())])
        }
        Inject::Any { asn, ifsel } => {
            let a = idx(*asn, n);
            let ch = if_choices(&t, a);
            (a, ch[idx(*ifsel, ch.len())])
        }
    };
    for d in &c.down {
        if let Down::OnPath(k) = d {
            let mut q = p.clone();
            let w = router::walk(&all_up, start_as, start_if, &mut q, dst_ia, now);
            let fw: Vec<_> = w.visited.iter().filter(|v| v.2 != 0).collect();
            if !fw.is_empty() {
                let v = fw[idx(*k, fw.len())];
                if let Some((li, _, _)) = t.link_at(v.0, v.2) {
                    t.links[li].up = false;
                }
            }
        }
    }
    let pt = p_pocket::to_pocket(&t).map_err(|e| Fail::new("harness:topology-rejected-by-pocketscion", format!("{e:#}")))?;
    let bytes = mk_packet(&p, src_ia, dst_ia);
    let nhops = p.hops.len();
    // is the packet acceptable to the view at all?
    {
        let mut b = bytes.clone();
        if ScionRawPacketView::try_from_mut_slice(&mut b).is_err() {
            obs.label("packet-unparseable");
            return Ok(());
        }
    }
    // A: the whole traversal in one iterator (bounded number of AS steps)
    let cap = nhops + 4;
    let trace: Vec<(u64, u16, Option<String>)> = vcore::no_panic("ScionNetworkSim::iter", || -> Result<_, Fail> {
        let mut b = bytes.clone();
        let (view, _) = ScionRawPacketView::try_from_mut_slice(&mut b).unwrap();
        let it = ScionNetworkSim::iter::<SpecRoutingLogic>(&pt, view, ScionNetworkTime::from_timestamp_secs(now), IsdAsn(t.ases[start_as].ia), start_if, false)
            .map_err(|e| Fail::new("sim-iter-refused", format!("{e:#}")))?;
        let mut tr = vec![];
        for (i, o) in it.enumerate() {
            ensure!(i < cap, "unbounded-as-steps", "more than {cap} AS steps for a path of {nhops} hop fields");
            match o {
                Ok(o) => tr.push((o.at_as.0, o.at_ingress_interface, Some(format!("{:?}", o.action)))),
                Err(_) => tr.push((0, 0, None)),
            }
        }
        Ok(tr)
    })??;
    ensure!(!trace.is_empty(), "no-verdict", "the simulator returned no step at all");
    ensure!(trace.len() <= nhops + 1, "more-as-steps-than-hop-fields", "{} AS steps for {nhops} hop fields", trace.len());
    // B: the same traversal step by step, each step against the reference router
    let mut buf = bytes.clone();
    let (mut a, mut inif) = (start_as, start_if);
    let single_hop_seg = seg_bounds(&p).iter().any(|(s, e)| e - s == 1);
    let mut step = 0usize;
    let final_sut: SutV;
    let final_ref: Verdict;
    loop {
        let pre = match rw::decode_header(&buf).map(|h| h.path) {
            Ok(RPath::Std(p)) => p,
            other => return Err(Fail::new("harness:reference-decoder-disagrees", format!("{other:?}"))),
        };
        let mut tag = step_tag(&t, a, &pre);
        if tag.starts_with("xover") && xover_over_peering_link(&t, a, inif, &pre) {
            // the simulator crosses peering links by an ordinary segment change (it has no
            // peering-path support); the reference never admits a peering link at a segment change
            tag = "xover-peering-link";
        }
        let mut rp = pre.clone();
        let (mut rv, mut rall) = router::process_all(&t, a, inif, &mut rp, dst_ia, now, Lenient::default());
        let ia = t.ases[a].ia;
        let (sv, sdesc) = vcore::no_panic("SpecRoutingLogic::route", || sut_step(&pt, &mut buf, now, ia, inif))??
            .ok_or_else(|| Fail::new("no-verdict", "iterator ended without a step"))?;
        obs.evals(1);
        // the stepwise run and the one-iterator run are the same traversal
        if let Some((tia, tif, tact)) = trace.get(step) {
            if let Some(tact) = tact {
                ensure!(*tia == ia && *tif == inif && *tact == sdesc, "iterator-and-single-step-differ", "step {step}: iterator at {tia:x}#{tif} {tact}, single step at {ia:x}#{inif} {sdesc}");
            }
        } else {
            return Err(Fail::new("iterator-stopped-early", format!("iterator made {} steps, stepwise run is at step {step}", trace.len())));
        }
        let ci = pre.curr_inf as usize;
        let b = seg_bounds(&pre);
        let mut future = false;
        if tag != "malformed" {
            future = pre.infos[ci].ts > now;
            if pre.curr_hf as usize + 1 == b[ci].1 && ci + 1 < pre.infos.len() {
                future |= pre.infos[ci + 1].ts > now;
            }
        }
        let where_ = format!("step {step} at AS {ia:x} ingress {inif} [{tag}] base {kind} muts {mkinds:?}; reference {rv:?} (all violated: {rall:?}); simulator {sdesc}; path before {pre:?}");
        // direct safety invariants on the simulator's action
        match &sv {
            SutV::Forward(eg) => {
                let l = t.link_at(a, *eg);
                ensure!(l.is_some(), format!("{tag}:forwarded-over-nonexistent-link"), "{where_}");
                ensure!(t.links[l.unwrap().0].up, format!("{tag}:forwarded-over-down-link"), "{where_}");
            }
            SutV::Deliver => ensure!(dst_ia == ia, format!("{tag}:delivered-outside-destination-as"), "{where_}"),
            SutV::External => return Err(Fail::new("harness:external-as", where_)),
            _ => {}
        }
        // behaviour the property leaves open: if the simulator does not apply one of these two
        // rules of the reference router, the comparison continues without it (counted)
        if matches!(sv, SutV::Forward(_)) && matches!(rv, Verdict::Reject(_)) {
            let transit = rall.contains(&Reject::NonLocal) && dst_ia == ia;
            let internal_xover = inif == 0 && tag.starts_with("xover") && rall.contains(&Reject::BadSegChange);
            if transit || internal_xover {
                let mut rp2 = pre.clone();
                let (rv2, rall2) = router::process_all(&t, a, inif, &mut rp2, dst_ia, now, Lenient { transit_through_dst: transit, internal_xover });
                if matches!(rv2, Verdict::Forward { .. }) {
                    if transit {
                        obs.label("unspecified:transit-through-destination-as");
                    }
                    if internal_xover {
                        obs.label("unspecified:segment-change-from-inside");
                    }
                    rp = rp2;
                    rv = rv2;
                    rall = rall2;
                }
            }
        }
        let sig = || format!("{tag}:ref={}:sut={}", refv_short(&rv), sv.short());
        match (&rv, &sv) {
            (Verdict::Forward { egress, next_as, next_if }, SutV::Forward(eg)) => {
                ensure!(egress == eg, format!("{tag}:forwarded-over-other-interface"), "{where_}");
                let post = match rw::decode_header(&buf).map(|h| h.path) {
                    Ok(RPath::Std(p)) => p,
                    other => return Err(Fail::new(format!("{tag}:path-unparseable-after-step"), format!("{other:?}; {where_}"))),
                };
                ensure!(post == rp, format!("{tag}:path-state-after-forwarding-differs"), "after: simulator {post:?}, reference {rp:?}; {where_}");
                a = *next_as;
                inif = *next_if;
                step += 1;
                ensure!(step <= nhops + 1, "harness:reference-walk-unbounded", "{where_}");
                continue;
            }
            (Verdict::Deliver, SutV::Deliver) => {
                // the path as delivered is what the destination reverses for its reply
                let post = match rw::decode_header(&buf).map(|h| h.path) {
                    Ok(RPath::Std(p)) => p,
                    other => return Err(Fail::new(format!("{tag}:path-unparseable-after-step"), format!("{other:?}; {where_}"))),
                };
                ensure!(post == rp, format!("{tag}:path-state-at-delivery-differs"), "delivered: simulator {post:?}, reference {rp:?}; {where_}");
            }
            (Verdict::Reject(_), SutV::Err(cls)) if rall.iter().any(|r| class_of(*r) == *cls) => {}
            (Verdict::Reject(_), SutV::Drop) if rall.contains(&Reject::Malformed) => {}
            // unspecified by the property: info-field timestamps in the future
            (_, SutV::Err("future")) if future => obs.label("unspecified:future-timestamp"),
            // unspecified: segments of a single hop field are never produced by path construction;
            // the simulator drops them, the reference processes them - any refusal is accepted
            (_, SutV::Drop) if single_hop_seg => obs.label("unspecified:single-hop-segment"),
            (Verdict::Reject(_), SutV::Err(_)) if single_hop_seg => obs.label("unspecified:single-hop-segment"),
            // unspecified: segment change on a packet injected from inside the AS - refused by both,
            // the class of the refusal is left open
            (Verdict::Reject(_), SutV::Err(_)) if inif == 0 && tag.starts_with("xover") => obs.label("unspecified:segment-change-from-inside"),
            _ => return Err(Fail::new(sig(), where_)),
        }
        final_sut = sv;
        final_ref = rv;
        break;
    }
    ensure!(trace.len() == step + 1, "iterator-continued-after-verdict", "iterator made {} steps, verdict reached at step {step}", trace.len());
    // simulate_traversal reports the same verdict
    let st = vcore::no_panic("ScionNetworkSim::simulate_traversal", || {
        let mut b = bytes.clone();
        let (view, _) = ScionRawPacketView::try_from_mut_slice(&mut b).unwrap();
        ScionNetworkSim::simulate_traversal::<SpecRoutingLogic>(&pt, view, ScionNetworkTime::from_timestamp_secs(now), IsdAsn(t.ases[start_as].ia), start_if, false)
            .map(|o| (o.at_as.0, o.at_ingress_interface, classify_action(&AsRoutingAction::Local(o.action))))
            .map_err(|e| format!("{e:#}"))
    })?;
    match (&final_sut, &st) {
        (SutV::Drop, Err(_)) => {}
        (v, Ok((ia, i, w))) if v == w && *ia == t.ases[a].ia && *i == inif => {}
        _ => return Err(Fail::new("simulate_traversal-differs-from-iterator", format!("iterator verdict {final_sut:?} at {:x}#{inif}, simulate_traversal {st:?}", t.ases[a].ia))),
    }
    // classification
    let outcome = match &final_ref {
        Verdict::Deliver => "delivered".to_string(),
        Verdict::Reject(r) => format!("rejected-{}", class_of(*r)),
        Verdict::Forward { .. } => "unspecified".to_string(),
    };
    obs.label(format!("outcome-{outcome}"));
    obs.label(format!("base-{kind}"));
    for k in &mkinds {
        obs.label(format!("mut-{k}"));
    }
    if !c.down.is_empty() {
        obs.label("with-down-links");
    }
    if !matches!(c.inject, Inject::Source) {
        obs.label("injected-mid-network");
    }
    if !matches!(c.clock, Clock::Valid) {
        obs.label("clock-off-nominal");
    }
    // non-trivial: at least one AS forwarded, or the packet was delivered, or an authentic packet was refused
    if step >= 1 || matches!(final_ref, Verdict::Deliver) {
        obs.nontrivial(&(format!("{:?}", c.topo), format!("{p:?}"), start_as, start_if, now, dst_ia, format!("{:?}", c.down)));
    }
    if step >= 1 && !matches!(final_ref, Verdict::Deliver) {
        obs.label("rejected-after-forwarding");
    }
    Ok(())
}

// ---- generators -----------------------------------------------------------------------------------

fn use_strategy() -> impl Strategy<Value = UseSpec> {
    (any::<u16>(), any::<u16>(), any::<u16>(), any::<bool>(), prop_oneof![4 => Just(None), 1 => any::<u16>().prop_map(Some)])
        .prop_map(|(seg, lo, hi, cons_dir, peer)| UseSpec { seg, lo, hi, cons_dir, peer })
}

fn base_strategy() -> impl Strategy<Value = Base> {
    prop_oneof![
        3 => (any::<u16>(), any::<u16>(), any::<u16>()).prop_map(|(src, dst, which)| Base::Authentic { src, dst, which }),
        2 => proptest::collection::vec(use_strategy(), 1..=3).prop_map(|uses| Base::Splice { uses }),
    ]
}

fn val16() -> impl Strategy<Value = u16> {
    prop_oneof![Just(0u16), Just(1), Just(2), Just(0xffff), any::<u16>()]
}

fn mut_strategy() -> impl Strategy<Value = Mut> {
    prop_oneof![
        6 => (any::<u16>(), 0u8..5, val16(), 0u8..4).prop_map(|(hop, field, val, mode)| Mut::Hop { hop, field, val, mode }),
        3 => (any::<u16>(), 0u8..5, prop_oneof![Just(0u32), Just(1), any::<u32>()], 0u8..4).prop_map(|(inf, field, val, mode)| Mut::Info { inf, field, val, mode }),
        2 => (0u8..6, 0u8..64, 0u8..4).prop_map(|(field, val, mode)| Mut::Meta { field, val, mode }),
        2 => (0u8..2, any::<bool>()).prop_map(|(i, dir)| Mut::ShiftBoundary { i, dir }),
        1 => (any::<u16>(), any::<u16>()).prop_map(|(a, b)| Mut::SwapHops(a, b)),
        1 => (0u8..3, 0u8..3).prop_map(|(a, b)| Mut::SwapSegs(a, b)),
        1 => any::<u16>().prop_map(Mut::DropHop),
        1 => any::<u16>().prop_map(Mut::DupHop),
        2 => (any::<u16>(), any::<u16>(), any::<u16>(), prop_oneof![3 => Just(None), 1 => any::<u16>().prop_map(Some)]).prop_map(|(hop, seg, idx, peer)| Mut::ForeignHop { hop, seg, idx, peer }),
    ]
}

fn case_strategy(topo: impl Strategy<Value = TopoSpec>) -> impl Strategy<Value = Case> {
    (
        topo,
        prop_oneof![3 => Just(1_700_000_000u32), 1 => 100_000u32..(u32::MAX - 200_000), 1 => (u32::MAX - 200_000)..(u32::MAX - 90_000)],
        any::<u64>(),
        prop_oneof![Just(None), Just(Some(0u8)), Just(Some(255u8)), any::<u8>().prop_map(Some)],
        base_strategy(),
        prop_oneof![5 => Just(vec![]), 5 => proptest::collection::vec(mut_strategy(), 1..=1), 2 => proptest::collection::vec(mut_strategy(), 2..=3)],
        prop_oneof![7 => Just(vec![]), 2 => any::<u16>().prop_map(|k| vec![Down::OnPath(k)]), 1 => proptest::collection::vec(any::<u16>().prop_map(Down::Link), 1..=3)],
        prop_oneof![
            7 => Just(Clock::Valid),
            1 => (1u32..20).prop_map(Clock::BeforeTs),
            2 => (any::<u16>(), -2i8..=2).prop_map(|(hop, delta)| Clock::AtExpiry { hop, delta }),
            1 => (0u32..1000).prop_map(Clock::After),
        ],
        prop_oneof![
            7 => Just(Inject::Source),
            1 => any::<u16>().prop_map(|k| Inject::Mid { k }),
            1 => (any::<u16>(), any::<u16>()).prop_map(|(k, ifsel)| Inject::MidWrongIf { k, ifsel }),
            1 => (any::<u16>(), any::<u16>()).prop_map(|(asn, ifsel)| Inject::Any { asn, ifsel }),
        ],
        prop_oneof![9 => Just(None), 1 => any::<u16>().prop_map(Some)],
    )
        .prop_map(|(topo, ts, bseed, exp, base, muts, down, clock, inject, dst)| Case { topo, ts, bseed, exp, base, muts, down, clock, inject, dst })
}

/// Sweep: every authentic path of every AS pair of one small topology x a fixed list of single
/// corruptions / link states / clock values / injection points.
#[derive(Clone, Debug, Serialize, Deserialize)]
struct Sweep {
    topo: TopoSpec,
    ts: u32,
    bseed: u64,
    exp: Option<u8>,
}

fn sweep_muts(nh: usize, ni: usize) -> Vec<Vec<Mut>> {
    let mut v: Vec<Vec<Mut>> = vec![vec![]];
    let at = |k: usize, n: usize| -> u16 { (((k as u32) << 16) / n as u32 + 1).min(0xffff) as u16 };
    for h in 0..nh {
        let hop = at(h, nh);
        for field in 0..2u8 {
            for (val, mode) in [(0u16, 0u8), (0, 2), (0, 3), (1, 1)] {
                v.push(vec![Mut::Hop { hop, field, val, mode }]);
            }
        }
        v.push(vec![Mut::Hop { hop, field: 2, val: 0, mode: 2 }]);
        v.push(vec![Mut::Hop { hop, field: 2, val: 0, mode: 3 }]);
        for b in 0..6u16 {
            v.push(vec![Mut::Hop { hop, field: 3, val: (b << 8) | 1, mode: 1 }]);
        }
        v.push(vec![Mut::Hop { hop, field: 4, val: 0x80, mode: 1 }]);
        v.push(vec![Mut::DropHop(hop)]);
        v.push(vec![Mut::DupHop(hop)]);
        for h2 in (h + 1)..nh {
            v.push(vec![Mut::SwapHops(hop, at(h2, nh))]);
        }
    }
    for i in 0..ni {
        let inf = at(i, ni);
        v.push(vec![Mut::Info { inf, field: 0, val: 1, mode: 1 }]);
        v.push(vec![Mut::Info { inf, field: 0, val: 0x8000, mode: 1 }]);
        v.push(vec![Mut::Info { inf, field: 1, val: 0, mode: 2 }]);
        v.push(vec![Mut::Info { inf, field: 1, val: 0, mode: 3 }]);
        v.push(vec![Mut::Info { inf, field: 2, val: 0, mode: 0 }]);
        v.push(vec![Mut::Info { inf, field: 3, val: 0, mode: 0 }]);
        v.push(vec![Mut::Info { inf, field: 4, val: 0xff, mode: 0 }]);
    }
    for (field, val, mode) in [(0u8, 0u8, 2u8), (1, 0, 2), (1, 0, 3), (5, 1, 0)] {
        v.push(vec![Mut::Meta { field, val, mode }]);
    }
    for i in 0..ni.saturating_sub(1) {
        v.push(vec![Mut::ShiftBoundary { i: i as u8, dir: true }]);
        v.push(vec![Mut::ShiftBoundary { i: i as u8, dir: false }]);
        v.push(vec![Mut::SwapSegs(i as u8, i as u8 + 1)]);
    }
    v
}

fn check_sweep(s: &Sweep, obs: &mut Obs) -> CheckResult {
    let t = s.topo.build();
    let n = t.ases.len();
    let (core, non_core) = topo::beacons(&t, &BeaconParams { ts: s.ts, seed: s.bseed, exp: s.exp }, 8);
    let mut all = core;
    all.extend(non_core);
    let chains: Vec<Chain> = all.iter().map(|s| s.chain.clone()).collect();
    let at = |k: usize, n: usize| -> u16 { (((k as u32) << 16) / n as u32 + 1).min(0xffff) as u16 };
    for src in 0..n {
        for dst in 0..n {
            if src == dst {
                continue;
            }
            let paths = topo::combine(&all, src, dst);
            for (pi, rp) in paths.iter().enumerate() {
                let (p, _) = mac::plan_path(&chains, &rp.uses);
                let (nh, ni) = (p.hops.len(), p.infos.len());
                let base = Base::Authentic { src: at(src, n), dst: at(dst, n), which: at(pi, paths.len()) };
                let mk = |muts: Vec<Mut>, down: Vec<Down>, clock: Clock, inject: Inject, dsto: Option<u16>| Case { topo: s.topo.clone(), ts: s.ts, bseed: s.bseed, exp: s.exp, base: base.clone(), muts, down, clock, inject, dst: dsto };
                let mut cases = vec![];
                for m in sweep_muts(nh, ni) {
                    cases.push(mk(m, vec![], Clock::Valid, Inject::Source, None));
                }
                for k in 0..rp.links {
                    cases.push(mk(vec![], vec![Down::OnPath(at(k, rp.links))], Clock::Valid, Inject::Source, None));
                }
                for h in 0..nh {
                    for delta in -1i8..=1 {
                        cases.push(mk(vec![], vec![], Clock::AtExpiry { hop: at(h, nh), delta }, Inject::Source, None));
                    }
                }
                cases.push(mk(vec![], vec![], Clock::BeforeTs(1), Inject::Source, None));
                cases.push(mk(vec![], vec![], Clock::After(0), Inject::Source, None));
                for k in 0..rp.links.min(6) {
                    cases.push(mk(vec![], vec![], Clock::Valid, Inject::Mid { k: k as u16 }, None));
                    for ifsel in [0u16, 0x5555, 0xaaaa, 0xffff] {
                        cases.push(mk(vec![], vec![], Clock::Valid, Inject::MidWrongIf { k: k as u16, ifsel }, None));
                    }
                }
                for a in 0..n {
                    for ifsel in [0u16, 0x4000, 0x8000, 0xc000, 0xffff] {
                        cases.push(mk(vec![], vec![], Clock::Valid, Inject::Any { asn: at(a, n), ifsel }, None));
                    }
                    cases.push(mk(vec![], vec![], Clock::Valid, Inject::Source, Some(at(a, n))));
                }
                for c in cases {
                    check(&c, obs).map_err(|f| Fail::new(f.sig.clone(), format!("{} -- inner case: {}", f.msg, serde_json::to_string(&c).unwrap_or_default())))?;
                }
            }
        }
    }
    Ok(())
}


// ---- one-hop and empty paths -------------------------------------------------------------------------

#[derive(Clone, Debug, Serialize, Deserialize)]
struct OhCase {
    topo: TopoSpec,
    /// the link the one-hop path is built for (index), and which end originates
    link: u16,
    from_b: bool,
    ts: u32,
    seg_id: u16,
    exp: u8,
    /// 0 none, 1 MAC byte flipped, 2 egress replaced by another existing interface, 3 egress
    /// replaced by an unknown interface, 4 ExpTime changed after MACing, 5 timestamp changed after
    /// MACing, 6 hop field MACed with another AS's key
    forge: u8,
    fval: u16,
    link_down: bool,
    /// 0 valid, 1 whole second of expiry, 2 expiry + 1 s, 3 long after
    clock: u8,
    /// destination: None = the neighbour, Some(i) = AS i
    dst: Option<u16>,
    /// false: empty path instead of a one-hop path
    onehop: bool,
}

fn check_onehop(c: &OhCase, obs: &mut Obs) -> CheckResult {
    let mut t = c.topo.build();
    if t.links.is_empty() {
        obs.label("no-links");
        return Ok(());
    }
    let n = t.ases.len();
    let li = idx(c.link, t.links.len());
    let l = t.links[li].clone();
    let (a, a_if, b, b_if) = if c.from_b { (l.b, l.b_if, l.a, l.a_if) } else { (l.a, l.a_if, l.b, l.b_if) };
    let dst_as = c.dst.map(|d| idx(d, n)).unwrap_or(b);
    let (src_ia, dst_ia) = (t.ases[a].ia, t.ases[dst_as].ia);
    if !c.onehop {
        // empty path: AS-internal traffic, delivered iff the destination is the local AS
        let pt = p_pocket::to_pocket(&t).map_err(|e| Fail::new("harness:topology-rejected-by-pocketscion", format!("{e:#}")))?;
        let mut buf = mk_packet_with(RPath::Empty, 0, src_ia, dst_ia);
        let (sv, sdesc) = vcore::no_panic("SpecRoutingLogic::route(empty)", || sut_step(&pt, &mut buf, c.ts, src_ia, 0))??.ok_or_else(|| Fail::new("no-verdict", "no step"))?;
        obs.evals(1);
        let want_deliver = dst_ia == src_ia;
        match (&sv, want_deliver) {
            (SutV::Deliver, true) => obs.label("empty-path-delivered"),
            (SutV::Err("nonlocal"), false) => obs.label("empty-path-nonlocal"),
            _ => return Err(Fail::new(format!("empty-path:want-deliver={want_deliver}:sut={}", sv.short()), format!("empty path at {src_ia:x} to {dst_ia:x}: {sdesc}"))),
        }
        if !want_deliver {
            obs.nontrivial(&(src_ia, dst_ia));
        }
        return Ok(());
    }
    // authentic first hop field of AS a over the link, then forged as requested
    let key_a = t.ases[a].key;
    let mut info = rw::RInfo { flags: 1, rsv: 0, seg_id: c.seg_id, ts: c.ts };
    let mut h0 = RHop { flags: 0, exp: c.exp, ing: 0, eg: a_if, mac: mac::hop_mac(&key_a, c.seg_id, c.ts, c.exp, 0, a_if) };
    let forge = c.forge % 7;
    match forge {
        1 => h0.mac[(c.fval >> 8) as usize % 6] ^= (c.fval as u8) | ((c.fval as u8 == 0) as u8),
        2 => {
            let ch: Vec<u16> = if_choices(&t, a).into_iter().filter(|i| *i != 0 && *i != a_if && t.link_at(a, *i).is_some()).collect();
            if !ch.is_empty() {
                h0.eg = ch[idx(c.fval, ch.len())];
            }
        }
        3 => h0.eg = *if_choices(&t, a).last().unwrap(),
        4 => h0.exp = h0.exp.wrapping_add(1 + (c.fval % 255) as u8),
        5 => info.ts = info.ts.wrapping_add(1 + (c.fval as u32 % 1000)),
        6 => {
            let other = t.ases[(a + 1 + idx(c.fval, n - 1)) % n].key;
            h0.mac = mac::hop_mac(&other, c.seg_id, c.ts, c.exp, 0, a_if);
        }
        _ => {}
    }
    if c.link_down {
        if let Some((k, _, _)) = t.link_at(a, h0.eg) {
            t.links[k].up = false;
        }
    }
    let exp_s = (router::hop_expiry_ms(info.ts, h0.exp) / 1000).min(u32::MAX as u64) as u32;
    let now = match c.clock % 4 {
        0 => info.ts.saturating_add(5),
        1 => exp_s,
        2 => exp_s.saturating_add(1),
        _ => exp_s.saturating_add(100_000),
    };
    let pt = p_pocket::to_pocket(&t).map_err(|e| Fail::new("harness:topology-rejected-by-pocketscion", format!("{e:#}")))?;
    let zero = RHop { flags: 0, exp: 0, ing: 0, eg: 0, mac: [0; 6] };
    let mut buf = mk_packet_with(RPath::OneHop { info, hops: [h0, zero] }, 2, src_ia, dst_ia);
    // reference, first AS (packet leaves the AS): authentic, unexpired hop field naming an existing up link
    let authentic = mac::verifies(&key_a, info.seg_id, info.ts, &h0);
    let unexpired = router::hop_expiry_ms(info.ts, h0.exp) >= now as u64 * 1000;
    let link = t.link_at(a, h0.eg);
    let up = link.map(|(k, _, _)| t.links[k].up).unwrap_or(false);
    let mut violated = vec![];
    if !unexpired { violated.push("expired"); }
    if !authentic { violated.push("mac"); }
    if link.is_none() { violated.push("interface"); } else if !up { violated.push("ifdown"); }
    let (sv, sdesc) = vcore::no_panic("SpecRoutingLogic::route(one-hop, egress)", || sut_step(&pt, &mut buf, now, src_ia, 0))??.ok_or_else(|| Fail::new("no-verdict", "no step"))?;
    obs.evals(1);
    let where_ = format!("one-hop path {info:?} {h0:?} leaving AS {src_ia:x} (link {a_if}->{b_if}) now {now} forge {forge}: reference finds violated {violated:?}; simulator {sdesc}");
    match &sv {
        SutV::Forward(eg) => {
            ensure!(link.is_some() && *eg == h0.eg, "one-hop:forwarded-over-nonexistent-link", "{where_}");
            ensure!(up, "one-hop:forwarded-over-down-link", "{where_}");
            ensure!(authentic, "one-hop:forwarded-unauthentic-hop-field", "{where_}");
            ensure!(unexpired, "one-hop:forwarded-expired-hop-field", "{where_}");
        }
        SutV::Drop | SutV::Err(_) => {
            ensure!(!violated.is_empty(), "one-hop:valid-packet-refused", "{where_}");
            if let SutV::Err(cls) = &sv {
                ensure!(violated.contains(cls), "one-hop:error-class-differs", "{where_}");
            }
            obs.label(format!("onehop-refused-{}", violated[0]));
            if forge != 0 || c.link_down || c.clock % 4 != 0 {
                obs.nontrivial(&(format!("{:?}", c.topo), li, c.from_b, forge, c.fval, c.link_down, c.clock % 4));
            }
            return Ok(());
        }
        _ => return Err(Fail::new(format!("one-hop:egress:sut={}", sv.short()), where_)),
    }
    // state after leaving: SegID advanced by the first hop field's MAC
    let (info1, hops1) = match rw::decode_header(&buf).map(|h| h.path) {
        Ok(RPath::OneHop { info, hops }) => (info, hops),
        other => return Err(Fail::new("one-hop:path-unparseable-after-step", format!("{other:?}"))),
    };
    let mut want_info = info;
    want_info.seg_id = mac::beta_step(info.seg_id, &h0.mac);
    ensure!(info1 == want_info && hops1 == [h0, zero], "one-hop:path-state-after-forwarding-differs", "after: {info1:?} {hops1:?}, reference {want_info:?} {:?}; {where_}", [h0, zero]);
    // second AS: fills in its hop field and delivers iff it is the destination
    let (_, nb, nb_if) = link.unwrap();
    let nb_ia = t.ases[nb].ia;
    let (sv2, sdesc2) = vcore::no_panic("SpecRoutingLogic::route(one-hop, ingress)", || sut_step(&pt, &mut buf, now, nb_ia, nb_if))??.ok_or_else(|| Fail::new("no-verdict", "no step"))?;
    obs.evals(1);
    let where2 = format!("{where_}; then at AS {nb_ia:x} ingress {nb_if}, destination {dst_ia:x}: {sdesc2}");
    if nb_ia == dst_ia {
        ensure!(sv2 == SutV::Deliver, format!("one-hop:ingress:want=deliver:sut={}", sv2.short()), "{where2}");
        let (info2, hops2) = match rw::decode_header(&buf).map(|h| h.path) {
            Ok(RPath::OneHop { info, hops }) => (info, hops),
            other => return Err(Fail::new("one-hop:path-unparseable-after-step", format!("{other:?}"))),
        };
        let h1 = RHop { flags: 0, exp: h0.exp, ing: nb_if, eg: 0, mac: mac::hop_mac(&t.ases[nb].key, want_info.seg_id, info.ts, h0.exp, nb_if, 0) };
        ensure!(info2 == want_info && hops2 == [h0, h1], "one-hop:path-state-at-delivery-differs", "delivered: {info2:?} {hops2:?}, reference {want_info:?} {:?}; {where2}", [h0, h1]);
        obs.label("onehop-delivered");
    } else {
        ensure!(matches!(sv2, SutV::Err("nonlocal")), format!("one-hop:ingress:want=err-nonlocal:sut={}", sv2.short()), "{where2}");
        obs.label("onehop-nonlocal");
    }
    // the one-iterator run reaches the same verdict in two steps
    let mut b2 = mk_packet_with(RPath::OneHop { info, hops: [h0, zero] }, 2, src_ia, dst_ia);
    let steps = vcore::no_panic("ScionNetworkSim::iter(one-hop)", || -> Result<usize, Fail> {
        let (view, _) = ScionRawPacketView::try_from_mut_slice(&mut b2).map_err(|e| Fail::new("harness:packet-unparseable", e.to_string()))?;
        let it = ScionNetworkSim::iter::<SpecRoutingLogic>(&pt, view, ScionNetworkTime::from_timestamp_secs(now), IsdAsn(src_ia), 0, false).map_err(|e| Fail::new("sim-iter-refused", format!("{e:#}")))?;
        let mut k = 0;
        for _ in it {
            k += 1;
            ensure!(k <= 4, "unbounded-as-steps", "one-hop path: more than 4 AS steps");
        }
        Ok(k)
    })??;
    ensure!(steps == 2, "one-hop:iterator-steps", "iterator made {steps} steps; {where2}");
    obs.nontrivial(&(format!("{:?}", c.topo), li, c.from_b, c.seg_id, c.exp, dst_ia));
    Ok(())
}

fn onehop_strategy() -> impl Strategy<Value = OhCase> {
    (
        prop_oneof![any::<u16>().prop_map(|i| { let fam = topogen::small_family(); fam[idx(i, fam.len())].clone() }).boxed(), topogen::topo_strategy(3, 4).boxed()],
        any::<u16>(),
        any::<bool>(),
        prop_oneof![3 => Just(1_700_000_000u32), 1 => 1000u32..(u32::MAX - 200_000), 1 => (u32::MAX - 200_000)..(u32::MAX - 90_000)],
        any::<u16>(),
        prop_oneof![Just(0u8), Just(63), Just(255), any::<u8>()],
        prop_oneof![4 => Just(0u8), 6 => 1u8..7],
        any::<u16>(),
        prop_oneof![4 => Just(false), 1 => Just(true)],
        prop_oneof![6 => Just(0u8), 1 => Just(1u8), 1 => Just(2u8), 1 => Just(3u8)],
        prop_oneof![4 => Just(None), 1 => any::<u16>().prop_map(Some)],
        prop_oneof![9 => Just(true), 1 => Just(false)],
    )
        .prop_map(|(topo, link, from_b, ts, seg_id, exp, forge, fval, link_down, clock, dst, onehop)| OhCase { topo, link, from_b, ts, seg_id, exp, forge, fval, link_down, clock, dst, onehop })
}

fn run(ctx: &Ctx) {
    let fam = topogen::small_family();
    let step = ctx.tier.pick(12u64, 1);
    let off = ctx.seed % step;
    ctx.run_enum("authentic-paths-all-single-corruptions", fam.len() as u64, false, |i| {
        (i % step == off).then(|| Sweep { topo: fam[i as usize].clone(), ts: [1_700_000_000u32, 1000, u32::MAX - 100_000][(i % 3) as usize], bseed: i, exp: [None, Some(0), Some(255)][((i / 3) % 3) as usize] })
    }, check_sweep);
    let n = ctx.tier.pick(30_000, 1_500_000);
    ctx.run_prop("random-packets-small-topologies", n, || {
        let fam = topogen::small_family();
        case_strategy(any::<u16>().prop_map(move |i| fam[idx(i, fam.len())].clone()))
    }, check);
    let n = ctx.tier.pick(20_000, 1_000_000);
    ctx.run_prop("random-packets-random-topologies", n, || case_strategy(topogen::topo_strategy(3, 4)), check);
    let n = ctx.tier.pick(10_000, 400_000);
    ctx.run_prop("one-hop-and-empty-paths", n, onehop_strategy, check_onehop);
}

fn post(ctx: &Ctx) {
    ctx.require_label("outcome-delivered", 500);
    ctx.require_label("outcome-rejected-mac", 200);
    ctx.require_label("outcome-rejected-segchange", 50);
    ctx.require_label("outcome-rejected-ifdown", 50);
    ctx.require_label("outcome-rejected-expired", 50);
    ctx.require_label("rejected-after-forwarding", 200);
}

fn main() {
    let subs = [
        Sub { name: "authentic-paths-all-single-corruptions", run, replay: |c, v| c.replay_case::<Sweep>("c13", v, check_sweep) },
        Sub { name: "random-packets-small-topologies", run: |_| {}, replay: |c, v| c.replay_case::<Case>("c13", v, check) },
        Sub { name: "random-packets-random-topologies", run: |_| {}, replay: |c, v| c.replay_case::<Case>("c13", v, check) },
        Sub { name: "one-hop-and-empty-paths", run: |_| {}, replay: |c, v| c.replay_case::<OhCase>("c13", v, check_onehop) },
    ];
    vcore::main(
        "C13",
        "cases = (topology, beacon parameters, packet, link states, clock, injection point). Packets carry standard paths built from authentic hop fields of reference beacons: paths of the reference combinator (authentic) or 1-3 arbitrary (parts of) segments in any order and direction with SegIDs that make each verify on its own (splices), then 0-3 corruptions (hop/info/meta fields incl. reserved bits, boundary shifts, swapped/dropped/duplicated/foreign hop fields), a destination ISD-AS override, links down (on the path or anywhere), a clock relative to timestamps/expiry (whole seconds around each hop's expiry) and injection at the source, mid-path, mid-path through a wrong interface, or at any AS/interface. The sweep sub-check enumerates, for every authentic path of every AS pair of a small topology, a fixed list of every single-field corruption, every on-path link down, clocks at each hop's expiry-1/0/+1 s, and all injection points. Oracle: the packet is stepped through ScionNetworkSim::iter::<SpecRoutingLogic> one AS at a time; at every step the reference router (scionproto processing order, own MAC/expiry/link-type logic) must take the same action (forward over the same interface and leave the same path bytes / deliver / SCMP error of a class the reference finds violated / drop), the next AS and interface must be the link's other end, the whole-iterator run and simulate_traversal must report the same verdict, steps <= hop fields, forwarding only over existing up links, delivery only in the destination AS. Non-trivial = at least one AS forwarded the packet or it was delivered; distinct by (topology, path bytes, injection, clock, link states).",
        &[
            "router alert flags are never set (the reference has no SCMP traceroute model); info-field timestamps in the future and single-hop segments are treated as unspecified (either verdict accepted, counted)",
            "error classes compared up to: interface = unknown/mismatching ingress or egress; when several rules are violated at one AS any of their classes is accepted",
            "one-hop and empty paths: see sub-check list / known findings",
        ],
        &subs,
        post,
    );
}
