//! C14 (part "pocket") — SCMP packets built by sciparse and by the pocketscion simulator:
//! bounded quoting, valid checksums, echo replies, no replies to SCMP errors / malformed SCMP.

use std::sync::{Arc, Mutex};

use p_sciparse::{
    spec::{HostSpec, PathSpec, PayloadSpec, PktSpec, ScmpSpec, SegSpec, fill},
    topogen::{self, TopoSpec},
};
use pocketscion::network::{
    local::{external_as_registry::ExternalAsRegistry, receiver_registry::NetworkReceiverRegistry, receivers::Receiver},
    scion::routing::ScionNetworkTime,
    simulator::NetworkSimulator,
};
use proptest::prelude::*;
use refmodel::{
    mac::{self, Chain},
    router::{self, Reject, Verdict},
    topo::{self, BeaconParams},
    wire::{self as rw, RHeader, RHop, RInfo, RPath, RStd},
};
use sciparse::{core::view::View, identifier::isd_asn::IsdAsn, packet::view::ScionRawPacketView};
use serde::{Deserialize, Serialize};
use vcore::{CheckResult, Ctx, Fail, Obs, Sub, ensure, idx};

// ---- S1: SCMP error packets encoded by sciparse -----------------------------------------------------

#[derive(Clone, Debug, Serialize, Deserialize)]
struct EncCase {
    dst_host: u8,
    src_host: u8,
    /// 0 empty, 1 one-hop, n>=2: standard path with n hop fields (split over up to 3 segments)
    path: u8,
    kind: u8,
    /// offending packet length
    len: usize,
    seed: u64,
}

fn host_of(k: u8, seed: u64) -> HostSpec {
    match k % 3 {
        0 => HostSpec::V4([10, 1, (seed >> 8) as u8, seed as u8]),
        1 => HostSpec::V6({
            let mut a = [0u8; 16];
            a[0] = 0xfd;
            a[15] = seed as u8;
            a[7] = (seed >> 8) as u8;
            a
        }),
        _ => HostSpec::Svc(0x0002),
    }
}

fn path_of(n: u8, seed: u64) -> PathSpec {
    match n {
        0 => PathSpec::Empty,
        1 => PathSpec::OneHop {
            info: RInfo { flags: 1, rsv: 0, seg_id: seed as u16, ts: 1_700_000_000 },
            hops: [RHop { flags: 0, exp: 63, ing: 0, eg: 5, mac: [1, 2, 3, 4, 5, 6] }, RHop { flags: 0, exp: 0, ing: 0, eg: 0, mac: [0; 6] }],
        },
        n => {
            let n = n as usize;
            let lens: Vec<usize> = if n <= 3 { vec![n] } else if n <= 40 { vec![n / 2, n - n / 2] } else { vec![n / 3, n / 3, n - 2 * (n / 3)] };
            let mut k = 0u16;
            let segs = lens
                .into_iter()
                .map(|l| SegSpec {
                    info: RInfo { flags: (seed as u8) & 1, rsv: 0, seg_id: (seed >> 3) as u16, ts: 1_700_000_000 },
                    hops: (0..l)
                        .map(|_| {
                            k += 1;
                            RHop { flags: 0, exp: 63, ing: k, eg: k + 1, mac: [k as u8, 2, 3, 4, 5, 6] }
                        })
                        .collect(),
                })
                .collect();
            PathSpec::Std { curr_inf: 0, curr_hf: 0, segs }
        }
    }
}

fn err_of(kind: u8, len: usize, seed: u64) -> ScmpSpec {
    match kind % 5 {
        0 => ScmpSpec::DestUnreachable { code: (seed % 7) as u8, quote_len: len },
        1 => ScmpSpec::PacketTooBig { mtu: 1280 + (seed % 8000) as u16, quote_len: len },
        2 => ScmpSpec::ParameterProblem { code: [0u8, 16, 33, 35, 48, 51, 52, 53][(seed % 8) as usize], pointer: (seed >> 4) as u16, quote_len: len },
        3 => ScmpSpec::ExtIfDown { ia: 0x0001_ff00_0000_0110, ifid: (seed >> 2) as u16, quote_len: len },
        _ => ScmpSpec::IntConnDown { ia: 0x0001_ff00_0000_0110, ing: seed as u16, eg: (seed >> 16) as u16, quote_len: len },
    }
}

fn check_enc(c: &EncCase, obs: &mut Obs) -> CheckResult {
    let spec = PktSpec {
        tc: 0,
        flow: 1,
        dst_ia: 0x0001_ff00_0000_0111,
        src_ia: 0x0002_ff00_0000_0222,
        dst_host: host_of(c.dst_host, c.seed),
        src_host: host_of(c.src_host, c.seed >> 5),
        path: path_of(c.path, c.seed),
        payload: PayloadSpec::Scmp(err_of(c.kind, c.len, c.seed)),
        seed: c.seed,
    };
    let offending = fill(c.len, c.seed);
    let bytes = vcore::no_panic("ScionScmpPacket::try_encode_to_vec", || spec.to_sut().try_encode_to_vec())?.map_err(|e| Fail::new("scmp-error-not-encodable", format!("{e}; {spec:?}")))?;
    verify_error_packet(&bytes, Some(&offending), "encoded")?;
    // the same packet encoded into a reused buffer that still holds other data
    let mut dirty = vec![0xa5u8; bytes.len() + 7];
    let n = vcore::no_panic("ScionScmpPacket::try_encode", || spec.to_sut().try_encode(&mut dirty))?.map_err(|e| Fail::new("scmp-error-not-encodable-into-buffer", e))?;
    ensure!(dirty[..n] == bytes[..], "encoded:depends-on-buffer-contents", "try_encode into a reused buffer gives other bytes than try_encode_to_vec (first difference at {:?})", dirty[..n].iter().zip(bytes.iter()).position(|(a, b)| a != b));
    let hdr_len = spec.header_len();
    let fixed = 4 + rw::RScmp::fixed_len(bytes[hdr_len]).unwrap_or(4);
    if hdr_len + fixed + c.len > rw::SCMP_ERROR_MAX {
        obs.label("quote-truncated");
        obs.nontrivial(&(c.dst_host % 3, c.src_host % 3, c.path, c.kind % 5, c.len));
    } else {
        obs.label("quote-complete");
    }
    Ok(())
}

/// the four claims about an SCMP error packet, judged by the reference decoder
fn verify_error_packet(bytes: &[u8], offending: Option<&[u8]>, what: &str) -> Result<(RHeader, rw::RScmp), Fail> {
    ensure!(bytes.len() <= rw::SCMP_ERROR_MAX, format!("{what}:scmp-error-longer-than-1232"), "{} bytes", bytes.len());
    let h = rw::decode_header(bytes).map_err(|e| Fail::new(format!("{what}:scmp-error-header-unparseable"), format!("{e:?}")))?;
    ensure!(h.next == rw::SCMP_PROTO, format!("{what}:not-scmp"), "next header {}", h.next);
    let msg = &bytes[h.header_len()..];
    ensure!(msg.len() == h.payload_len as usize, format!("{what}:payload-length-field"), "PayloadLen {} but {} bytes follow the header", h.payload_len, msg.len());
    let s = rw::decode_scmp(msg).ok_or_else(|| Fail::new(format!("{what}:scmp-too-short"), format!("{} bytes", msg.len())))?;
    ensure!(s.is_error(), format!("{what}:not-an-error-message"), "type {}", s.ty);
    ensure!(rw::checksum_verifies(&h, rw::SCMP_PROTO, msg), format!("{what}:scmp-checksum-invalid"), "type {} len {}", s.ty, msg.len());
    let quote = s.tail().ok_or_else(|| Fail::new(format!("{what}:scmp-error-truncated-fixed-part"), format!("type {} body {} bytes", s.ty, s.body.len())))?;
    let Some(offending) = offending else {
        return Ok((h, s));
    };
    ensure!(quote.len() <= offending.len() && quote == &offending[..quote.len()], format!("{what}:quote-is-not-a-prefix-of-the-offending-packet"), "quote {} bytes, offending {} bytes; first difference at {:?}", quote.len(), offending.len(), quote.iter().zip(offending.iter()).position(|(a, b)| a != b));
    // as much as fits
    let room = rw::SCMP_ERROR_MAX - (bytes.len() - quote.len());
    ensure!(quote.len() == offending.len().min(room), format!("{what}:quote-shorter-than-necessary"), "quote {} bytes of {} although {room} would fit", quote.len(), offending.len());
    Ok((h, s))
}

// ---- S2: the simulator end to end ----------------------------------------------------------------------

#[derive(Clone, Debug, Serialize, Deserialize)]
enum Payload {
    Udp { len: u16 },
    /// echo request to the destination host (delivered like any packet)
    Echo { id: u16, seq: u16, len: u16 },
    /// echo request with a router alert on hop `hop` (ingress side if `ingress`)
    RouterEcho { id: u16, seq: u16, len: u16, hop: u16, ingress: bool },
    /// an SCMP error message (type, quote length)
    ScmpError { ty: u8, code: u8, len: u16, bad_checksum: bool },
    /// SCMP cut short / unknown type / wrong checksum
    ScmpMalformed { kind: u8, len: u16 },
}

#[derive(Clone, Debug, Serialize, Deserialize)]
enum Fault {
    None,
    /// hop field `hop`: MAC byte flipped
    Mac { hop: u16 },
    /// the k-th link on the way is down
    LinkDown { k: u16 },
    Expired,
    /// no receiver for the destination host
    NoReceiver,
    /// destination ISD-AS replaced by AS i
    WrongDst { i: u16 },
    /// hop field `hop`: egress interface replaced by an unknown one
    UnknownEgress { hop: u16 },
}

#[derive(Clone, Debug, Serialize, Deserialize)]
struct SimCase {
    topo: TopoSpec,
    ts: u32,
    bseed: u64,
    src: u16,
    dst: u16,
    which: u16,
    payload: Payload,
    fault: Fault,
    /// host address kinds of source / destination (0 v4, 1 v6)
    hosts: (u8, u8),
}

struct Cap {
    ia: u64,
    log: Arc<Mutex<Vec<(u64, Vec<u8>)>>>,
}
impl Receiver for Cap {
    fn receive_packet(&self, packet: &ScionRawPacketView) {
        self.log.lock().unwrap().push((self.ia, packet.as_slice().to_vec()));
    }
}

fn host_bytes(kind: u8, last: u8) -> (u8, Vec<u8>) {
    if kind % 2 == 0 {
        (0x0, vec![10, 0, 0, last])
    } else {
        let mut a = vec![0u8; 16];
        a[0] = 0xfd;
        a[15] = last;
        (0x3, a)
    }
}

fn scmp_msg(h: &RHeader, ty: u8, code: u8, body: &[u8], bad_checksum: bool) -> Vec<u8> {
    let mut m = vec![ty, code, 0, 0];
    m.extend_from_slice(body);
    let mut c = rw::compute_checksum(h, rw::SCMP_PROTO, &m, 2);
    if bad_checksum {
        c ^= 0x0101;
    }
    m[2..4].copy_from_slice(&c.to_be_bytes());
    m
}

fn check_sim(c: &SimCase, obs: &mut Obs) -> CheckResult {
    let mut t = c.topo.build();
    let n = t.ases.len();
    let (src, dst) = (idx(c.src, n), idx(c.dst, n));
    if src == dst {
        obs.label("same-as");
        return Ok(());
    }
    let (core, non_core) = topo::beacons(&t, &BeaconParams { ts: c.ts, seed: c.bseed, exp: Some(200) }, 8);
    let mut all = core;
    all.extend(non_core);
    let chains: Vec<Chain> = all.iter().map(|s| s.chain.clone()).collect();
    let paths: Vec<_> = topo::combine(&all, src, dst).into_iter().filter(|p| p.kind != "peering").collect();
    if paths.is_empty() {
        obs.label("no-path");
        return Ok(());
    }
    let rp = &paths[idx(c.which, paths.len())];
    let (mut p, _) = mac::plan_path(&chains, &rp.uses);
    let nh = p.hops.len();
    let mut now = c.ts.saturating_add(20);
    let mut dst_ia = t.ases[dst].ia;
    let src_ia = t.ases[src].ia;
    let mut have_receiver = true;
    match &c.fault {
        Fault::None => {}
        Fault::Mac { hop } => p.hops[idx(*hop, nh)].mac[3] ^= 0x40,
        Fault::LinkDown { k } => {
            let fw: Vec<_> = rp.hops.iter().filter(|h| h.2 != 0).collect();
            let h = fw[idx(*k, fw.len())];
            let (li, _, _) = t.link_at(h.0, h.2).unwrap();
            t.links[li].up = false;
        }
        Fault::Expired => now = c.ts.saturating_add(201 * 338 + 10),
        Fault::NoReceiver => have_receiver = false,
        Fault::WrongDst { i } => {
            dst_ia = t.ases[idx(*i, n)].ia;
            // a path that continues through the packet's destination AS is left open (see C13)
            if rp.hops.iter().any(|h| t.ases[h.0].ia == dst_ia) {
                obs.label("wrong-dst-on-path-skipped");
                return Ok(());
            }
        }
        Fault::UnknownEgress { hop } => {
            let k = idx(*hop, nh);
            let b = p.infos.len();
            let _ = b;
            // travel-egress field of the hop
            let mut cum = 0usize;
            let mut cons = true;
            for (si, l) in p.seg_len.iter().enumerate() {
                if *l == 0 { break; }
                if k < cum + *l as usize { cons = p.infos[si].cons_dir(); break; }
                cum += *l as usize;
            }
            if cons { p.hops[k].eg = 60001 } else { p.hops[k].ing = 60001 }
        }
    }
    // packet
    let (stl, shost) = host_bytes(c.hosts.0, 1);
    let (dtl, dhost) = host_bytes(c.hosts.1, if have_receiver { 2 } else { 77 });
    let mut alert_at: Option<(usize, bool)> = None;
    if let Payload::RouterEcho { hop, ingress, .. } = &c.payload {
        // router alert on the travel-ingress / travel-egress side of hop k
        let k = idx(*hop, nh);
        let mut cum = 0usize;
        let mut cons = true;
        for (si, l) in p.seg_len.iter().enumerate() {
            if *l == 0 { break; }
            if k < cum + *l as usize { cons = p.infos[si].cons_dir(); break; }
            cum += *l as usize;
        }
        // flags: bit 1 = ConsIngress alert, bit 0 = ConsEgress alert
        let bit = if *ingress == cons { 0x02 } else { 0x01 };
        p.hops[k].flags |= bit;
        alert_at = Some((k, *ingress));
    }
    let path_len = 4 + 8 * p.infos.len() + 12 * nh;
    let mut h = RHeader {
        version: 0, tc: 0, flow: 7, next: rw::UDP_PROTO, hdr_units: ((12 + 16 + dhost.len() + shost.len() + path_len) / 4) as u8, payload_len: 0, path_type: 1,
        dst_tl: dtl, src_tl: stl, rsv: 0, dst_ia, src_ia, dst_host: dhost.clone(), src_host: shost.clone(), path: RPath::Std(p.clone()),
    };
    let (l4, is_scmp_error, is_malformed): (Vec<u8>, bool, bool) = match &c.payload {
        Payload::Udp { len } => {
            let data = fill(*len as usize, c.bseed);
            let mut m = vec![0x13, 0x88, 0x13, 0x89];
            m.extend_from_slice(&((8 + data.len()) as u16).to_be_bytes());
            m.extend_from_slice(&[0, 0]);
            m.extend_from_slice(&data);
            let ck = rw::compute_checksum(&h, rw::UDP_PROTO, &m, 6);
            m[6..8].copy_from_slice(&ck.to_be_bytes());
            (m, false, false)
        }
        Payload::Echo { id, seq, len } | Payload::RouterEcho { id, seq, len, .. } => {
            h.next = rw::SCMP_PROTO;
            let mut body = vec![];
            body.extend_from_slice(&id.to_be_bytes());
            body.extend_from_slice(&seq.to_be_bytes());
            body.extend_from_slice(&fill(*len as usize, c.bseed ^ 5));
            (scmp_msg(&h, 128, 0, &body, false), false, false)
        }
        Payload::ScmpError { ty, code, len, bad_checksum } => {
            h.next = rw::SCMP_PROTO;
            let ty = [1u8, 2, 4, 5, 6, 3, 100, 127][(*ty % 8) as usize];
            let mut body = vec![0u8; rw::RScmp::fixed_len(ty).unwrap_or(4)];
            body.extend_from_slice(&fill(*len as usize, c.bseed ^ 9));
            (scmp_msg(&h, ty, *code, &body, *bad_checksum), true, *bad_checksum)
        }
        Payload::ScmpMalformed { kind, len } => {
            h.next = rw::SCMP_PROTO;
            match kind % 4 {
                // fewer bytes than an SCMP header
                0 => (fill((*len % 4) as usize, c.bseed), false, true),
                // echo request cut inside its fixed part
                1 => (scmp_msg(&h, 128, 0, &fill((*len % 4) as usize, c.bseed), false), false, true),
                // echo request with a wrong checksum
                2 => {
                    let mut body = vec![0, 9, 0, 1];
                    body.extend_from_slice(&fill(*len as usize % 64, c.bseed));
                    (scmp_msg(&h, 128, 0, &body, true), false, true)
                }
                // error message cut inside its fixed part
                _ => (scmp_msg(&h, 5, 0, &fill((*len % 16) as usize, c.bseed), false), true, true),
            }
        }
    };
    h.payload_len = l4.len() as u16;
    let mut bytes = rw::encode_header(&h);
    bytes.extend_from_slice(&l4);
    if bytes.len() > 9216 {
        obs.label("oversize-skipped");
        return Ok(());
    }
    // reference outcome
    let mut rstate = p.clone();
    let mut at = (src, 0u16);
    let mut arrived = bytes.clone(); // packet as it arrives at the AS that takes the decision
    let outcome: Result<usize, (usize, Reject)> = loop {
        // router alert handled before anything else the reference models
        let mut q = rstate.clone();
        match router::process(&t, at.0, at.1, &mut q, dst_ia, now) {
            Verdict::Deliver => break Ok(at.0),
            Verdict::Reject(r) => break Err((at.0, r)),
            Verdict::Forward { next_as, next_if, .. } => {
                rstate = q;
                at = (next_as, next_if);
                let mut hh = h.clone();
                hh.path = RPath::Std(rstate.clone());
                arrived = rw::encode_header(&hh);
                arrived.extend_from_slice(&l4);
            }
        }
    };
    if alert_at.is_some() {
        // the reference router does not model router alerts: only the claims about the reply are checked
        obs.label("router-alert");
    }
    // run the simulator
    let pt = p_pocket::to_pocket(&t).map_err(|e| Fail::new("harness:topology-rejected-by-pocketscion", format!("{e:#}")))?;
    let log = Arc::new(Mutex::new(vec![]));
    let mut reg = NetworkReceiverRegistry::new();
    for a in &t.ases {
        let r: Arc<dyn Receiver> = Arc::new(Cap { ia: a.ia, log: log.clone() });
        // receivers for 10.0.0.0/24 and fd00::/120 only: host .77 does not exist
        reg.add_receiver(IsdAsn(a.ia), "10.0.0.0/26".parse().unwrap(), r.clone()).map_err(|e| Fail::new("harness:receiver", format!("{e:#}")))?;
        reg.add_receiver(IsdAsn(a.ia), "fd00::/122".parse().unwrap(), r).map_err(|e| Fail::new("harness:receiver", format!("{e:#}")))?;
    }
    let ext = ExternalAsRegistry::new();
    vcore::no_panic("NetworkSimulator::dispatch", || {
        let sim = NetworkSimulator::new(&reg, &ext, &pt, false);
        let mut b = bytes.clone();
        let (view, _) = ScionRawPacketView::try_from_mut_slice(&mut b).expect("harness packet parses");
        sim.dispatch(IsdAsn(src_ia), 0, ScionNetworkTime::from_timestamp_secs(now), view);
    })?;
    let got = log.lock().unwrap().clone();
    obs.evals(1);
    let desc = format!("path {} ({} hops) {:x}->{:x} payload {:?} fault {:?}; reference outcome {outcome:?}; receivers got {:?}", rp.kind, nh, src_ia, dst_ia, c.payload, c.fault, got.iter().map(|(ia, b)| (format!("{ia:x}"), b.len())).collect::<Vec<_>>());
    ensure!(got.len() <= 1, "more-than-one-packet-delivered", "{desc}");
    // a router that refuses a transit packet does not validate its SCMP checksum or completeness:
    // only a readable SCMP type below 128 (error message) forbids the reply; for other malformed
    // SCMP either behaviour is accepted
    let _ = is_scmp_error;
    let no_reply_allowed = h.next == rw::SCMP_PROTO && l4.first().map(|t| *t < 128).unwrap_or(false);
    let reply_optional = is_malformed && !no_reply_allowed;
    if let Some((k, ingress)) = alert_at {
        // which AS answers: the one processing hop k, if the packet gets there
        let hop_as: Vec<usize> = rp.hops.iter().map(|h| h.0).collect();
        // dataplane hop k belongs to the AS of the k-th hop field in travel order
        let mut as_of_hop = vec![];
        {
            let mut ai = 0usize;
            let mut cum = 0usize;
            for (si, l) in p.seg_len.iter().enumerate() {
                if *l == 0 { break; }
                for j in 0..*l as usize {
                    if si > 0 && j == 0 { /* crossover: same AS as the previous hop field */ } else if cum + j > 0 { ai += 1; }
                    as_of_hop.push(hop_as[ai.min(hop_as.len() - 1)]);
                }
                cum += *l as usize;
            }
        }
        let answering = as_of_hop[k];
        if let Some((ia, pkt)) = got.first() {
            let hh = rw::decode_header(pkt).map_err(|e| Fail::new("router-echo:reply-unparseable", format!("{e:?}")))?;
            let m = &pkt[hh.header_len()..];
            let s = rw::decode_scmp(m).ok_or_else(|| Fail::new("router-echo:reply-too-short", desc.clone()))?;
            if s.ty == 129 {
                ensure!(*ia == src_ia, "router-echo:reply-delivered-elsewhere", "{desc}");
                ensure!(hh.src_ia == t.ases[answering].ia, "router-echo:answered-by-other-as", "reply from {:x}, alert was for AS {:x}; {desc}", hh.src_ia, t.ases[answering].ia);
                ensure!(hh.dst_ia == src_ia && hh.dst_host == shost && hh.dst_tl == stl, "router-echo:reply-not-addressed-to-requester", "{desc}");
                ensure!(rw::checksum_verifies(&hh, rw::SCMP_PROTO, m), "router-echo:reply-checksum-invalid", "{desc}");
                ensure!(s.body == l4[4..], "router-echo:identifier-sequence-or-data-differ", "request body {:?}, reply body {:?}", &l4[4..l4.len().min(24)], &s.body[..s.body.len().min(20)]);
                obs.label("router-echo-answered");
                obs.nontrivial(&(format!("{:?}", c.topo), src, dst, k, ingress));
                return Ok(());
            }
        }
        // no echo reply: acceptable only if the packet never reached that router's alert side
        obs.label("router-echo-not-answered");
        return Ok(());
    }
    match outcome {
        Ok(d) if have_receiver => {
            // delivered, byte-identical to what the reference router hands over
            ensure!(got.len() == 1 && got[0].0 == t.ases[d].ia, "datagram-not-delivered", "{desc}");
            let mut rp2 = rstate.clone();
            let _ = router::process(&t, d, at.1, &mut rp2, dst_ia, now);
            let mut hh = h.clone();
            hh.path = RPath::Std(rp2);
            let mut want = rw::encode_header(&hh);
            want.extend_from_slice(&l4);
            ensure!(got[0].1 == want, "delivered-packet-differs", "{} vs {} bytes; first difference at {:?}; {desc}", got[0].1.len(), want.len(), got[0].1.iter().zip(want.iter()).position(|(a, b)| a != b));
            obs.label("delivered");
            if is_scmp_error {
                obs.label("scmp-error-reached-receiver");
                obs.nontrivial(&(format!("{:?}", c.topo), src, dst, format!("{:?}", c.payload)));
            }
        }
        other => {
            // a router (or the destination AS's dispatcher) refuses the packet
            let (at_as, class) = match other {
                Ok(d) => (d, "no-receiver"),
                Err((a, Reject::Malformed)) => (a, "drop"),
                Err((a, _)) => (a, "error"),
            };
            if no_reply_allowed || class == "drop" {
                ensure!(got.is_empty(), if no_reply_allowed { format!("reply-to-scmp-error:type-{}", if matches!(l4[0], 1 | 2 | 4 | 5 | 6) { "assigned" } else { "unassigned" }) } else { "reply-to-dropped-packet".to_string() }, "{desc}");
                obs.label(format!("refused-silently:{}", if no_reply_allowed { "scmp-error" } else { "drop" }));
                if no_reply_allowed {
                    obs.nontrivial(&(format!("{:?}", c.topo), src, dst, format!("{:?}{:?}", c.payload, c.fault)));
                }
                return Ok(());
            }
            if got.is_empty() {
                // not claimed by the property: the error is sent over the reversed path, which starts
                // with the hop field that was just refused
                obs.label(if reply_optional { "malformed-scmp-not-answered" } else { "scmp-error-lost-on-the-way-back" });
                return Ok(());
            }
            ensure!(got[0].0 == src_ia, "scmp-error-delivered-elsewhere", "{desc}");
            // the quote shows the packet as the refusing router left it: current-hop pointers, SegIDs
            // and router-alert flags are rewritten during processing (as in the reference router,
            // which also quotes its working copy); compare modulo these fields
            let (mut masked_err, mut masked_arrived) = (got[0].1.clone(), arrived.clone());
            {
                let eh = rw::decode_header(&masked_err).map_err(|e| Fail::new("simulator:scmp-error-header-unparseable", format!("{e:?}")))?;
                let qoff = eh.header_len() + 4 + rw::RScmp::fixed_len(masked_err.get(eh.header_len()).copied().unwrap_or(0)).unwrap_or(4);
                let poff = 12 + 16 + dhost.len() + shost.len();
                let mut offs = vec![poff];
                for i in 0..p.infos.len() {
                    offs.push(poff + 4 + 8 * i + 2);
                    offs.push(poff + 4 + 8 * i + 3);
                }
                for j in 0..nh {
                    offs.push(poff + 4 + 8 * p.infos.len() + 12 * j);
                }
                for o in offs {
                    if let Some(b) = masked_arrived.get_mut(o) { *b = 0; }
                    if let Some(b) = masked_err.get_mut(qoff + o) { *b = 0; }
                }
                // checksum of the error message is verified on the original bytes below
            }
            let (eh, es) = verify_error_packet(&got[0].1, None, "simulator")?;
            {
                // prefix claim on the masked bytes
                let qoff = eh.header_len() + 4 + rw::RScmp::fixed_len(es.ty).unwrap_or(4);
                let quote = &masked_err[qoff..];
                ensure!(quote.len() <= masked_arrived.len() && quote == &masked_arrived[..quote.len()], "simulator:quote-is-not-a-prefix-of-the-offending-packet", "quote {} bytes, offending {} bytes; first difference (path state masked) at {:?}; {desc}", quote.len(), masked_arrived.len(), quote.iter().zip(masked_arrived.iter()).position(|(a, b)| a != b));
                let room = rw::SCMP_ERROR_MAX - qoff;
                ensure!(quote.len() == masked_arrived.len().min(room), "simulator:quote-shorter-than-necessary", "quote {} bytes of {} although {room} would fit; {desc}", quote.len(), masked_arrived.len());
            }
            ensure!(eh.dst_ia == src_ia && eh.dst_host == shost && eh.dst_tl == stl, "scmp-error-not-addressed-to-sender", "{desc}");
            ensure!(eh.src_ia == t.ases[at_as].ia, "scmp-error-from-other-as", "error from {:x}, refused at {:x}; {desc}", eh.src_ia, t.ases[at_as].ia);
            obs.label(format!("scmp-error-type-{}", es.ty));
            if bytes.len() + 100 > rw::SCMP_ERROR_MAX {
                obs.label("scmp-error-quote-truncated");
            }
            obs.nontrivial(&(format!("{:?}", c.topo), src, dst, format!("{:?}{:?}", c.payload, c.fault), c.hosts));
        }
    }
    Ok(())
}

fn sim_strategy() -> impl Strategy<Value = SimCase> {
    let len = || prop_oneof![3 => 0u16..64, 2 => 900u16..1300, 1 => 0u16..8800];
    (
        prop_oneof![any::<u16>().prop_map(|i| { let fam = topogen::small_family(); fam[idx(i, fam.len())].clone() }).boxed(), topogen::topo_strategy(3, 4).boxed()],
        prop_oneof![Just(1_700_000_000u32), 1000u32..(u32::MAX - 200_000)],
        any::<u64>(),
        any::<(u16, u16, u16)>(),
        prop_oneof![
            4 => len().prop_map(|len| Payload::Udp { len }),
            2 => (any::<u16>(), any::<u16>(), len()).prop_map(|(id, seq, len)| Payload::Echo { id, seq, len }),
            2 => (any::<u16>(), any::<u16>(), 0u16..1100, any::<u16>(), any::<bool>()).prop_map(|(id, seq, len, hop, ingress)| Payload::RouterEcho { id, seq, len, hop, ingress }),
            4 => (any::<u8>(), any::<u8>(), len(), prop_oneof![5 => Just(false), 1 => Just(true)]).prop_map(|(ty, code, len, bad_checksum)| Payload::ScmpError { ty, code, len, bad_checksum }),
            2 => (any::<u8>(), any::<u16>()).prop_map(|(kind, len)| Payload::ScmpMalformed { kind, len }),
        ],
        prop_oneof![
            3 => Just(Fault::None),
            2 => any::<u16>().prop_map(|hop| Fault::Mac { hop }),
            2 => any::<u16>().prop_map(|k| Fault::LinkDown { k }),
            1 => Just(Fault::Expired),
            2 => Just(Fault::NoReceiver),
            1 => any::<u16>().prop_map(|i| Fault::WrongDst { i }),
            1 => any::<u16>().prop_map(|hop| Fault::UnknownEgress { hop }),
        ],
        any::<(u8, u8)>(),
    )
        .prop_map(|(topo, ts, bseed, (src, dst, which), payload, fault, hosts)| SimCase { topo, ts, bseed, src, dst, which, payload, fault, hosts })
}

fn run(ctx: &Ctx) {
    // S1: enumerated
    let lens_for = |hdr_budget: usize| -> Vec<usize> {
        let b = rw::SCMP_ERROR_MAX.saturating_sub(hdr_budget);
        let mut v = vec![0usize, 1, 7, 8, 100, 576, 1000, 1231, 1232, 1233, 1500, 4096, 9215, 9216];
        for d in -30i64..=6 {
            v.push((b as i64 + d).max(0) as usize);
        }
        v.sort();
        v.dedup();
        v
    };
    let paths: Vec<u8> = vec![0, 1, 2, 3, 4, 7, 12, 24, 40, 41, 62, 63, 64];
    let mut cases = vec![];
    for dh in 0..3u8 {
        for sh in 0..3u8 {
            for &p in &paths {
                for kind in 0..5u8 {
                    let hl = |k: u8| if k % 3 == 1 { 16 } else { 4 };
                    let plen = match p { 0 => 0, 1 => 32, n => 4 + 12 * n as usize + 8 * if n <= 3 { 1 } else if n <= 40 { 2 } else { 3 } };
                    let hdr = 12 + 16 + hl(dh) + hl(sh) + plen;
                    let fixed = 4 + [4usize, 4, 4, 16, 24][kind as usize];
                    for l in lens_for(hdr + fixed) {
                        cases.push(EncCase { dst_host: dh, src_host: sh, path: p, kind, len: l, seed: (cases.len() as u64).wrapping_mul(0x9e3779b97f4a7c15) ^ ctx.seed });
                    }
                }
            }
        }
    }
    ctx.run_enum("sciparse-error-packets-all-header-sizes", cases.len() as u64, true, |i| Some(cases[i as usize].clone()), check_enc);
    let n = ctx.tier.pick(20_000, 1_000_000);
    ctx.run_prop("sciparse-error-packets-random", n, || (any::<u8>(), any::<u8>(), 0u8..=64, any::<u8>(), prop_oneof![0usize..1400, 0usize..9217], any::<u64>()).prop_map(|(dst_host, src_host, path, kind, len, seed)| EncCase { dst_host, src_host, path, kind, len, seed }), check_enc);
    let n = ctx.tier.pick(12_000, 600_000);
    ctx.run_prop("simulator-end-to-end", n, sim_strategy, check_sim);
}

fn post(ctx: &Ctx) {
    ctx.require_label("quote-truncated", 500);
    ctx.require_label("delivered", 300);
    ctx.require_label("refused-silently:scmp-error", 100);
    ctx.require_label("scmp-error-quote-truncated", 100);
    ctx.require_label("router-echo-answered", 50);
}

fn main() {
    let subs = [
        Sub { name: "sciparse-error-packets-all-header-sizes", run, replay: |c, v| c.replay_case::<EncCase>("c14", v, check_enc) },
        Sub { name: "sciparse-error-packets-random", run: |_| {}, replay: |c, v| c.replay_case::<EncCase>("c14", v, check_enc) },
        Sub { name: "simulator-end-to-end", run: |_| {}, replay: |c, v| c.replay_case::<SimCase>("c14", v, check_sim) },
    ];
    vcore::main(
        "C14",
        "part pocket. (1) SCMP error packets built with sciparse's models (5 error kinds x destination/source host kinds v4/v6/service x empty, one-hop and standard paths of 2..64 hop fields x offending-packet lengths 0..9216 directed at the quoting budget of each header size, plus random ones): the encoded packet, read by the reference decoder, is <= 1232 bytes, its PayloadLen is truthful, its checksum verifies per RFC 1071 over pseudo-header||message, and it quotes exactly the first min(len, room) bytes of the offending packet. (2) Whole simulator (NetworkSimulator::dispatch over a generated topology with capturing receivers in every AS): a packet (UDP, echo request, echo request with a router alert, SCMP error of every type incl. unassigned ones, malformed SCMP) is sent over an authentic path with one fault (MAC, link down, expired, unknown egress, wrong destination AS, no receiver for the host) or none. With the outcome predicted by the reference router: at most one packet reaches any receiver; a deliverable packet (incl. SCMP errors) reaches the destination receiver byte-identical to what the reference router hands over; a refused packet yields at most one SCMP error, delivered at the sender's AS; if one arrives it satisfies (1) with the packet as it arrived at the refusing AS as offending packet (compared modulo the path state routers rewrite: CurrINF/CurrHF, SegIDs, router-alert flags), is addressed to the sender and comes from the refusing AS (an error that is lost on its way back over the reversed path is counted, not claimed); if the refused packet carries a readable SCMP error type (< 128, assigned or not) nothing at all may be sent, for other malformed SCMP payloads either behaviour is accepted; a router-alert echo request is answered by the alerted AS with an echo reply carrying identifier, sequence number and data, addressed to the requester, valid checksum. Non-trivial = truncated quote / SCMP error or malformed SCMP refused / error reply checked / router echo answered.",
        &["peering paths are not used (C13 known finding)", "router alerts are outside the reference router: for those cases only the reply is judged"],
        &subs,
        post,
    );
}
