//! C01 — every path the SDK offers is forwardable end to end, and so is its reverse; a path is
//! offered whenever the control plane's segments can be joined.

use std::collections::BTreeSet;

use p_sciparse::{segconv, topogen::{self, TopoSpec}};
use pocketscion::network::scion::segment::registry::SegmentRegistry;
use proptest::prelude::*;
use refmodel::{
    router,
    topo::{self, BeaconParams, Topo},
    wire as rw,
};
use sciparse::{
    core::view::View,
    dataplane_path::{standard::view::StandardPathView, view::{ScionDpPathView, ScionDpPathViewExt}},
    identifier::isd_asn::IsdAsn,
    path::ScionPath,
};
use serde::{Deserialize, Serialize};
use vcore::{CheckResult, Ctx, Fail, Obs, Sub, ensure};

#[derive(Clone, Debug, Serialize, Deserialize)]
struct Case {
    topo: TopoSpec,
    /// segment timestamp
    ts: u32,
    /// None = all ordered pairs
    pair: Option<(u16, u16)>,
}

fn classify(dp: &rw::RStd, t: &Topo, hops: &[(u64, u16, u16)]) -> &'static str {
    let nseg = dp.infos.len();
    if dp.infos.iter().any(|i| i.peering()) {
        return "peering";
    }
    // a crossover at a non-core AS is a shortcut
    let mut k = 0usize;
    let mut as_pos = 0usize;
    for si in 0..nseg {
        let l = dp.seg_len[si] as usize;
        as_pos += l - 1;
        if si + 1 < nseg {
            let ia = hops.get(as_pos).map(|h| h.0).unwrap_or(0);
            if let Some(ai) = t.as_index(ia) {
                if !t.ases[ai].core {
                    return "shortcut";
                }
            }
        }
        k += l;
    }
    let _ = k;
    match nseg {
        1 => {
            // cut segment (on-path) if the first/last hop field still carries the unused interface
            let first = dp.hops.first().unwrap();
            let last = dp.hops.last().unwrap();
            let cons = dp.infos[0].cons_dir();
            let unused = if cons { first.ing != 0 } else { last.ing != 0 };
            if unused { "on-path" } else { "single-segment" }
        }
        2 => "two-segments",
        _ => "three-segments",
    }
}

fn check(c: &Case, obs: &mut Obs) -> CheckResult {
    let t = c.topo.build();
    let pt = p_pocket::to_pocket(&t).map_err(|e| Fail::new("harness:topology-rejected-by-pocketscion", format!("{e:#}")))?;
    let reg = vcore::no_panic("SegmentRegistry::from_topology", || SegmentRegistry::from_topology(&pt))?;
    let valid_after = chrono::DateTime::from_timestamp(c.ts as i64, 0).unwrap();
    let now = c.ts.saturating_add(30);
    let n = t.ases.len();
    // reference reachability (independent of pocketscion): reference beacons + brute-force combination
    let (rc, rn) = topo::beacons(&t, &BeaconParams { ts: c.ts, seed: 1, exp: Some(255) }, 8);
    let mut all = rc;
    all.extend(rn);
    let pairs: Vec<(usize, usize)> = match c.pair {
        Some((a, b)) => vec![(vcore::idx(a, n), vcore::idx(b, n))],
        None => (0..n).flat_map(|a| (0..n).map(move |b| (a, b))).collect(),
    };
    let mut deferred: Option<Fail> = None;
    for (src, dst) in pairs {
        if src == dst { continue; }
        let (sia, dia) = (IsdAsn(t.ases[src].ia), IsdAsn(t.ases[dst].ia));
        let res = vcore::no_panic("SegmentRegistry::paths", || reg.paths(sia, dia, valid_after, &pt))?;
        let given: Vec<_> = all.iter().filter(|s| s.core || s.last_as() == src || s.last_as() == dst).cloned().collect();
        let joinable = !topo::combine(&given, src, dst).is_empty();
        obs.evals(1);
        let paths: Vec<ScionPath> = match res {
            Ok(p) => p,
            Err(e) => {
                ensure!(!joinable, "lookup-error-though-joinable", "{sia}->{dia}: path lookup failed ({e:#}) although the segments can be joined");
                obs.label("pair-not-joinable");
                continue;
            }
        };
        if joinable {
            ensure!(!paths.is_empty(), "no-path-offered-though-joinable", "{sia}->{dia}: no path offered although the control plane's segments can be joined into a route");
            obs.label("pair-joinable");
        } else {
            obs.label("pair-not-joinable");
        }
        let mut kinds = BTreeSet::new();
        for (pi, p) in paths.iter().enumerate() {
            let r = (|| -> CheckResult {
            let hops = segconv::hops_of(p).ok_or_else(|| Fail::new("metadata-interface-list-malformed", format!("{sia}->{dia} path {pi}")))?;
            let dp_bytes = p.dp_path().as_slice().to_vec();
            let dp = rw::decode_std_path(&dp_bytes).map_err(|e| Fail::new("dataplane-path-unparseable", format!("{e:?}")))?.0;
            let kind = classify(&dp, &t, &hops);
            kinds.insert(kind);
            obs.label(format!("path-{kind}"));
            // forward: each on-path AS verifies with its own key and forwards over the listed interfaces
            let want: Vec<(usize, u16, u16)> = hops.iter().map(|(ia, i, e)| (t.as_index(*ia).unwrap_or(usize::MAX), *i, *e)).collect();
            let mut st = dp.clone();
            let w = router::walk(&t, src, 0, &mut st, dia.0, now);
            ensure!(w.delivered == Some(dst), format!("offered-path-not-forwardable:{kind}"),
                "{sia}->{dia} path {pi} ({kind}) {hops:?}: reference router: rejected={:?} after visiting {:?}; dataplane {dp:?}", w.rejected, w.visited);
            ensure!(w.visited == want, format!("forwarded-over-other-interfaces-than-metadata:{kind}"), "{sia}->{dia} path {pi}: forwarded along {:?}, metadata lists {want:?}", w.visited);
            // reply: the destination reverses the path as received
            let recv_bytes = rw::encode_std_path(&st);
            let view = StandardPathView::try_from_boxed(recv_bytes.clone().into_boxed_slice()).map_err(|e| Fail::new("received-path-unparseable", e.to_string()))?;
            let mut rp = ScionPath::new(sia, dia, ScionDpPathView::Standard(view), p.metadata().cloned(), None);
            vcore::no_panic("ScionPath::try_reverse", || rp.try_reverse())?.map_err(|e| Fail::new(format!("reverse-fails:{kind}"), format!("{sia}->{dia} path {pi}: {e:?}")))?;
            ensure!(rp.src_ia() == dia && rp.dst_ia() == sia, "reverse-endpoints", "reversed path goes {} -> {}", rp.src_ia(), rp.dst_ia());
            let mut rst = rw::decode_std_path(rp.dp_path().as_slice()).map_err(|e| Fail::new("reversed-path-unparseable", format!("{e:?}")))?.0;
            ensure!(rst.curr_hf == 0 && rst.curr_inf == 0, format!("reversed-path-not-at-start:{kind}"), "reversed received path has CurrINF/CurrHF {}/{}", rst.curr_inf, rst.curr_hf);
            let w = router::walk(&t, dst, 0, &mut rst, sia.0, now);
            let mut rwant: Vec<(usize, u16, u16)> = want.iter().rev().map(|(a, i, e)| (*a, *e, *i)).collect();
            if let Some(f) = rwant.first_mut() { f.1 = 0; }
            ensure!(w.delivered == Some(src), format!("reversed-path-not-forwardable:{kind}"),
                "{dia}->{sia} reply over reversed path {pi} ({kind}): rejected={:?} visited={:?}", w.rejected, w.visited);
            ensure!(w.visited == rwant, format!("reply-forwarded-over-other-interfaces:{kind}"), "reply forwarded along {:?}, expected {rwant:?}", w.visited);
            let rhops = segconv::hops_of(&rp);
            let expect_meta: Option<Vec<(u64, u16, u16)>> = Some(hops.iter().rev().map(|(ia, i, e)| (*ia, *e, *i)).collect());
            ensure!(rhops == expect_meta, "reversed-metadata-differs", "reversed metadata {rhops:?}, expected {expect_meta:?}");
            obs.evals(2);
            Ok(())
            })();
            // failures on peering paths (known finding) are reported after the rest of the
            // topology has been checked, so that they do not hide anything else
            match r {
                Ok(()) => {}
                Err(f) if f.sig.ends_with(":peering") => { deferred.get_or_insert(f); }
                Err(f) => return Err(f),
            }
        }
        if kinds.iter().any(|k| matches!(*k, "shortcut" | "peering" | "on-path" | "three-segments")) || paths.len() >= 2 {
            obs.nontrivial(&(&c.topo, src, dst, c.ts));
        }
    }
    match deferred {
        Some(f) => Err(f),
        None => Ok(()),
    }
}

fn run(ctx: &Ctx) {
    let fam = topogen::small_family();
    // quick: a rotating slice of the enumerated family (ECDSA signing of segments dominates)
    let step = ctx.tier.pick(11u64, 1);
    let off = ctx.seed % step;
    ctx.run_enum("small-topologies-all-pairs", fam.len() as u64, step == 1, |i| (i % step == off).then(|| Case { topo: fam[i as usize].clone(), ts: [1u32, 1_700_000_000, u32::MAX - 100_000][(i % 3) as usize], pair: None }), check);
    let n = ctx.tier.pick(400, 6000);
    ctx.run_prop("random-topologies-all-pairs", n, || (topogen::topo_strategy(3, 3), prop_oneof![Just(1_700_000_000u32), 1u32..(u32::MAX - 100_000)]).prop_map(|(topo, ts)| Case { topo, ts, pair: None }), check);
    let n = ctx.tier.pick(1500, 20_000);
    ctx.run_prop("random-large-topologies-one-pair", n, || (topogen::topo_strategy(3, 5), 1_600_000_000u32..1_900_000_000, any::<(u16, u16)>()).prop_map(|(topo, ts, pair)| Case { topo, ts, pair: Some(pair) }), check);
}

fn post(ctx: &Ctx) {
    ctx.require_label("path-shortcut", 20);
    ctx.require_label("path-three-segments", 20);
    ctx.require_label("pair-joinable", 200);
}

fn main() {
    let subs = [
        Sub { name: "small-topologies-all-pairs", run, replay: |c, v| c.replay_case::<Case>("c01", v, check) },
        Sub { name: "random-topologies-all-pairs", run: |_| {}, replay: |c, v| c.replay_case::<Case>("c01", v, check) },
        Sub { name: "random-large-topologies-one-pair", run: |_| {}, replay: |c, v| c.replay_case::<Case>("c01", v, check) },
    ];
    vcore::main(
        "C01",
        "cases = (topology, segment timestamp, AS pair(s)). Topologies as in C04 (enumerated small family - a rotating 1/11 slice per quick run, all in thorough - and random ones up to 3 ISDs / 16 ASes with peering and parallel links, colliding interface numbers, per-AS random keys), converted to a pocketscion ScionTopology; paths come from the repository's own pipeline SegmentRegistry::from_topology(..).paths(src,dst,..) (pocketscion control plane -> signed segments -> SDK combinator) for every ordered AS pair. Oracle 1: each offered path is walked by an independent MAC-verifying reference router over the same topology with each AS's own key and must be delivered at the destination along exactly the interfaces of its metadata; the path as received is reversed with ScionPath::try_reverse and the reply must be delivered back at the source. Oracle 2: if reference beacons of the topology can be joined by the brute-force reference combinator, at least one path must be offered (and no error). Non-trivial = pair with a shortcut/peering/on-path/three-segment path or >= 2 paths; distinct by (topology, pair, timestamp).",
        &["hop expiry fixed by the pipeline (255 units); reference clock = segment timestamp + 30 s", "keys are random per AS, not adversarial"],
        &subs,
        post,
    );
}
