//! C17 — tunnel reassembly emits only intact packets, at most once, in any frame order.
//!
//! Code under test: `anapaya_edge_tun::fragmenting::{Fragmenter, Defragmenter}`.
//!
//! Oracles (all independent of the code under test):
//! * frames are encoded/decoded by this file from the documented header diagram
//!   (stream offset u64 BE, frame offset u16 BE, flags u16 BE with L = bit 15, header 16 bytes);
//! * honest sender: every emitted packet is byte-identical to a sent packet, at most once, only after
//!   all of its frames were delivered, and *must* be emitted (a) when all frames arrived while the
//!   number of packets occupying slots never exceeded Q (policy independent) and (b) when the
//!   documented slot policy (module docs: idle slot, else evict the oldest unless the frame is older
//!   than the oldest -> TooOld) says its slot was not reclaimed;
//! * arbitrary frames: shadow map stream offset -> frames received; every byte of an emitted packet
//!   must have been carried at that position by a received frame of the same stream offset and the
//!   length must be announced by a received LAST frame of it; no panic;
//! * memory: net bytes allocated on the calling thread (counting global allocator) do not grow over
//!   a long hostile sequence.

use std::{
    alloc::{GlobalAlloc, Layout, System},
    cell::Cell,
    collections::{BTreeMap, BTreeSet},
};

use anapaya_edge_tun::fragmenting::{
    DefragmentInsertError, Defragmenter, Fragmenter, MAX_FRAMES, MAX_MTU, MAX_PACKET_SIZE, MIN_MTU,
    proto::FragmentFrameHeader,
};
use proptest::prelude::*;
use serde::{Deserialize, Serialize};
use vcore::{CheckResult, Ctx, Fail, Obs, Sub, idx};

// ------------------------------------------------------------------------------ counting allocator

thread_local! {
    static NET: Cell<i64> = const { Cell::new(0) };
}
struct Counting;
fn bump(d: i64) {
    let _ = NET.try_with(|c| c.set(c.get() + d));
}
fn net_bytes() -> i64 {
    NET.with(|c| c.get())
}
unsafe impl GlobalAlloc for Counting {
    unsafe fn alloc(&self, l: Layout) -> *mut u8 {
        let p = unsafe { System.alloc(l) };
        if !p.is_null() {
            bump(l.size() as i64);
        }
        p
    }
    unsafe fn alloc_zeroed(&self, l: Layout) -> *mut u8 {
        let p = unsafe { System.alloc_zeroed(l) };
        if !p.is_null() {
            bump(l.size() as i64);
        }
        p
    }
    unsafe fn dealloc(&self, p: *mut u8, l: Layout) {
        unsafe { System.dealloc(p, l) };
        bump(-(l.size() as i64));
    }
    unsafe fn realloc(&self, p: *mut u8, l: Layout, new: usize) -> *mut u8 {
        let q = unsafe { System.realloc(p, l, new) };
        if !q.is_null() {
            bump(new as i64 - l.size() as i64);
        }
        q
    }
}
#[global_allocator]
static ALLOC: Counting = Counting;

// ------------------------------------------------------------------------------ wire format (independent)

/// documented constants (module docs of fragmenting.rs); compared with the crate's at start-up
const HDR: usize = 16;
const DOC_MIN_MTU: usize = 272;
const DOC_MAX_MTU: usize = 9000;
const DOC_MAX_FRAMES: usize = 256;
const DOC_MAX_PACKET: usize = 65535;
const LAST: u16 = 0x8000;
const MTUS: [usize; 4] = [DOC_MIN_MTU, DOC_MIN_MTU + 1, 1400, DOC_MAX_MTU];

fn window(mtu: usize) -> usize {
    mtu.clamp(DOC_MIN_MTU, DOC_MAX_MTU) - HDR
}

/// payload byte of the data source `seed` at packet position `pos`; never 0 (fresh buffers are 0)
fn pbyte(seed: u32, pos: u32) -> u8 {
    let mut x = ((seed as u64) << 32) | pos as u64;
    x = x.wrapping_add(0x9E37_79B9_7F4A_7C15).wrapping_mul(0xBF58_476D_1CE4_E5B9);
    x ^= x >> 29;
    x = x.wrapping_mul(0x94D0_49BB_1331_11EB);
    x ^= x >> 32;
    1 + (x % 255) as u8
}

fn enc(so: u64, fo: u16, flags: u16, tail: [u8; 4], payload: impl Iterator<Item = u8>) -> Vec<u8> {
    let mut v = Vec::with_capacity(HDR + payload.size_hint().0);
    v.extend_from_slice(&so.to_be_bytes());
    v.extend_from_slice(&fo.to_be_bytes());
    v.extend_from_slice(&flags.to_be_bytes());
    v.extend_from_slice(&tail);
    v.extend(payload);
    v
}

struct Dec<'a> {
    so: u64,
    fo: usize,
    last: bool,
    payload: &'a [u8],
}
fn dec(b: &[u8]) -> Option<Dec<'_>> {
    if b.len() < HDR {
        return None;
    }
    Some(Dec {
        so: u64::from_be_bytes(b[0..8].try_into().unwrap()),
        fo: u16::from_be_bytes(b[8..10].try_into().unwrap()) as usize,
        last: b[10] & 0x80 != 0,
        payload: &b[HDR..],
    })
}

fn err_kind(e: &DefragmentInsertError) -> &'static str {
    match e {
        DefragmentInsertError::QueueNotAccepting => "queue-not-accepting",
        DefragmentInsertError::InvalidHeader => "invalid-header",
        DefragmentInsertError::InvalidHeaderValue(_, m) => m,
        DefragmentInsertError::OutOfBounds(_) => "out-of-bounds",
        DefragmentInsertError::Duplicate(_) => "duplicate",
        DefragmentInsertError::TooOld(_) => "too-old",
    }
}

/// Failures of one case; the verdict is the failure with the lowest rank so that the families of
/// already described defects never hide another root cause met in the same case.
#[derive(Default)]
struct Fails(Vec<Fail>);
impl Fails {
    fn push(&mut self, sig: impl Into<String>, msg: impl FnOnce() -> String) {
        let sig = sig.into();
        if !self.0.iter().any(|f| f.sig == sig) {
            self.0.push(Fail::new(sig, msg()));
        }
    }
    fn rank(sig: &str) -> u8 {
        if sig.starts_with("panic") {
            0
        } else if sig.starts_with("dup-of-") {
            9
        } else if (sig.starts_with("integrity:position-never-covered:") || sig.starts_with("integrity:value-never-received:")) && !sig.ends_with(":other") {
            8
        } else {
            1
        }
    }
    fn verdict(self) -> CheckResult {
        match self.0.into_iter().min_by_key(|f| Self::rank(&f.sig)) {
            None => Ok(()),
            Some(f) => Err(f),
        }
    }
}

type RecvOut = Result<Option<(u64, Vec<u8>)>, &'static str>;
fn sut_recv(d: &mut Defragmenter, frame: &[u8]) -> Result<RecvOut, Fail> {
    vcore::no_panic("Defragmenter::recv", || match d.recv(frame) {
        Ok(Some(p)) => Ok(Some((p.stream_offset, p.payload.to_vec()))),
        Ok(None) => Ok(None),
        Err(e) => Err(err_kind(&e)),
    })
}

// ------------------------------------------------------------------------------ honest sender core

#[derive(Clone, Copy, Debug)]
struct Pk {
    mtu: usize,
    size: usize,
    seed: u32,
}

#[derive(Default)]
struct HonestStats {
    max_open: usize,
    overflowed: bool,
    cm_claims: u32,
    pm_claims: u32,
    pm_evictions: u32,
    pm_too_old: u32,
    pm_unknown: bool,
    late_dup: bool,
    emissions: u32,
    reordered: bool,
    max_frames: usize,
}

fn honest_core(q: usize, pkts: &[Pk], deliv: &[(usize, usize)], fails: &mut Fails) -> HonestStats {
    let mut st = HonestStats::default();
    if pkts.is_empty() {
        return st;
    }
    // ---- sender: the real Fragmenter, checked against the documented format
    let mut data: Vec<Vec<u8>> = Vec::with_capacity(pkts.len());
    let mut frames: Vec<Vec<Vec<u8>>> = Vec::with_capacity(pkts.len());
    let mut sos: Vec<u64> = Vec::with_capacity(pkts.len());
    let mut fr = Fragmenter::new_unobserved(pkts[0].mtu);
    let mut so_expected = 0u64;
    for p in pkts {
        fr.set_mtu(p.mtu);
        let w = window(p.mtu);
        let d: Vec<u8> = (0..p.size as u32).map(|i| pbyte(p.seed, i)).collect();
        let mut fs: Vec<Vec<u8>> = Vec::new();
        let r = match vcore::no_panic("Fragmenter::send", || fr.send(&d, |f| fs.push(f.to_vec()))) {
            Ok(r) => r,
            Err(f) => {
                fails.0.push(f);
                return st;
            }
        };
        let n = p.size.div_ceil(w);
        let mut ok = r == Ok(so_expected) && fs.len() == n;
        if ok {
            for (i, f) in fs.iter().enumerate() {
                let lo = i * w;
                let hi = (lo + w).min(p.size);
                let want = enc(so_expected, lo as u16, if i + 1 == n { LAST } else { 0 }, [0; 4], d[lo..hi].iter().copied());
                if *f != want || f.len() > p.mtu.clamp(DOC_MIN_MTU, DOC_MAX_MTU) {
                    ok = false;
                    break;
                }
            }
        }
        if !ok {
            fails.push("fragmenter:frames-differ-from-documented-format", || {
                format!("Fragmenter(mtu {}) send({} bytes) -> {:?}, {} frames (expected stream offset {}, {} frames of window {})", p.mtu, p.size, r, fs.len(), so_expected, n, w)
            });
            return st;
        }
        st.max_frames = st.max_frames.max(n);
        sos.push(so_expected);
        so_expected += p.size as u64;
        data.push(d);
        frames.push(fs);
    }
    let so_to_pid: BTreeMap<u64, usize> = sos.iter().enumerate().map(|(i, s)| (*s, i)).collect();

    // ---- receiver under test + models
    let mut d = Defragmenter::new_unobserved(q);
    let np = pkts.len();
    let mut delivered: Vec<Vec<u32>> = frames.iter().map(|f| vec![0; f.len()]).collect();
    let mut distinct: Vec<usize> = vec![0; np];
    let mut emitted: Vec<u32> = vec![0; np];
    // conservative (policy independent) model
    let mut cm_open: BTreeSet<usize> = BTreeSet::new();
    let mut cm_done: Vec<bool> = vec![false; np];
    // documented-policy model: active slots keyed by stream offset
    let mut pm_active: BTreeMap<u64, (usize, Vec<bool>, usize)> = BTreeMap::new();
    let mut pm_completed: Vec<bool> = vec![false; np];
    let mut last_key: Option<(usize, usize)> = None;

    for (stepno, &(p, i)) in deliv.iter().enumerate() {
        if p >= np || i >= frames[p].len() {
            continue;
        }
        let nf = frames[p].len();
        if let Some(k) = last_key
            && (p, i) < k
            && delivered[p][i] == 0
        {
            st.reordered = true;
        }
        last_key = Some((p, i));
        delivered[p][i] += 1;
        let first_time = delivered[p][i] == 1;
        if first_time {
            distinct[p] += 1;
        }
        let mut must_cm = false;
        let mut must_pm = false;
        if nf == 1 {
            // a single-frame packet is complete on arrival and needs no slot beyond this call
            must_cm = first_time;
            if pm_active.len() == q {
                st.pm_unknown = true;
            }
        } else {
            // conservative model
            if cm_done[p] {
                st.late_dup = true; // ghost: may occupy a slot for ever
            }
            cm_open.insert(p);
            if cm_open.len() > q {
                st.overflowed = true;
            }
            st.max_open = st.max_open.max(cm_open.len());
            if !cm_done[p] && distinct[p] == nf {
                cm_done[p] = true;
                cm_open.remove(&p);
                must_cm = !st.overflowed;
            }
            // documented-policy model
            if !st.pm_unknown {
                let so = sos[p];
                if pm_completed[p] {
                    // whether the completed offset is still remembered is not documented
                    st.pm_unknown = true;
                } else {
                    if !pm_active.contains_key(&so) {
                        if pm_active.len() < q {
                            pm_active.insert(so, (p, vec![false; nf], 0));
                        } else {
                            let oldest = *pm_active.keys().next().unwrap();
                            if so < oldest {
                                st.pm_too_old += 1;
                            } else {
                                pm_active.remove(&oldest);
                                st.pm_evictions += 1;
                                pm_active.insert(so, (p, vec![false; nf], 0));
                            }
                        }
                    }
                    if let Some(e) = pm_active.get_mut(&so) {
                        if !e.1[i] {
                            e.1[i] = true;
                            e.2 += 1;
                        }
                        if e.2 == nf {
                            pm_active.remove(&so);
                            pm_completed[p] = true;
                            must_pm = true;
                        }
                    }
                }
            }
        }
        if must_cm {
            st.cm_claims += 1;
        }
        if must_pm {
            st.pm_claims += 1;
        }

        let out = match sut_recv(&mut d, &frames[p][i]) {
            Ok(o) => o,
            Err(f) => {
                fails.0.push(f);
                return st;
            }
        };
        let mut emitted_this = false;
        match &out {
            Ok(Some((so, payload))) => {
                let so = *so;
                st.emissions += 1;
                match so_to_pid.get(&so) {
                    None => fails.push("honest:emitted-unknown-stream-offset", || {
                        format!("step {stepno}: frame {i} of packet {p} made the defragmenter emit stream offset {so}, which no sent packet has")
                    }),
                    Some(&e) => {
                        emitted_this = e == p;
                        if payload.len() != data[e].len() {
                            fails.push("honest:emitted-length-differs", || {
                                format!("step {stepno}: packet {e} (stream offset {so}, {} bytes sent) emitted with {} bytes", data[e].len(), payload.len())
                            });
                        } else if *payload != data[e] {
                            let pos = payload.iter().zip(&data[e]).position(|(a, b)| a != b).unwrap();
                            let from = (0..np).find(|&o| o != e && data[o].get(pos) == Some(&payload[pos]));
                            fails.push("honest:emitted-bytes-differ", || {
                                format!(
                                    "step {stepno}: packet {e} (stream offset {so}, {} bytes) emitted with byte {:#04x} at position {pos}, sent {:#04x}{}",
                                    data[e].len(),
                                    payload[pos],
                                    data[e][pos],
                                    match from {
                                        Some(o) => format!(" (that is the byte packet {o} carries there)"),
                                        None => String::new(),
                                    }
                                )
                            });
                        }
                        if distinct[e] != frames[e].len() {
                            fails.push("honest:emitted-before-all-frames-delivered", || {
                                format!("step {stepno}: packet {e} emitted after {} of its {} frames were delivered", distinct[e], frames[e].len())
                            });
                        }
                        emitted[e] += 1;
                        if emitted[e] == 2 {
                            let n = frames[e].len();
                            let full = delivered[e].iter().all(|&c| c >= 2);
                            let sig = if n == 1 {
                                "dup-of-single-frame-packet"
                            } else if full {
                                "dup-of-multi-frame-packet-after-full-redelivery"
                            } else {
                                "honest:multi-frame-packet-emitted-twice-without-full-redelivery"
                            };
                            fails.push(sig, || {
                                format!(
                                    "step {stepno}: packet {e} ({} bytes, {n} frame(s), stream offset {so}) emitted a second time (per-frame delivery counts {:?})",
                                    data[e].len(),
                                    &delivered[e][..n.min(8)]
                                )
                            });
                        }
                    }
                }
            }
            Ok(None) | Err(_) => {}
        }
        if must_cm && !emitted_this {
            let sig = if nf == 1 { "honest:single-frame-packet-not-emitted" } else { "honest:complete-packet-not-emitted" };
            fails.push(sig, || {
                format!(
                    "step {stepno}: frame {i} completed packet {p} ({} bytes, {nf} frames) while at most {q} packets ever occupied the {q} slots, recv returned {:?}",
                    pkts[p].size,
                    out.as_ref().map(|o| o.as_ref().map(|x| x.0))
                )
            });
        } else if must_pm && !emitted_this {
            fails.push("policy:packet-complete-under-documented-eviction-not-emitted", || {
                format!(
                    "step {stepno}: frame {i} completed packet {p} ({} bytes, {nf} frames) whose slot was not reclaimed under the documented policy (idle slot, else evict oldest unless too old), recv returned {:?}",
                    pkts[p].size,
                    out.as_ref().map(|o| o.as_ref().map(|x| x.0))
                )
            });
        }
    }
    st
}

fn honest_labels(q: usize, st: &HonestStats, obs: &mut Obs) {
    if st.max_open >= 2 {
        obs.label("honest:concurrent>=2");
    }
    if st.max_open > q {
        obs.label("honest:concurrent>Q");
    }
    if st.reordered {
        obs.label("honest:reordered");
    }
    if st.cm_claims > 0 {
        obs.label("honest:must-emit-claimed(policy-free)");
    }
    if st.cm_claims >= 2 && st.max_open >= 2 && !st.overflowed {
        obs.label("honest:all-complete-with-<=Q-open");
    }
    if st.pm_claims > 0 && st.pm_evictions > 0 {
        obs.label("honest:must-emit-claimed-after-eviction");
    }
    if st.pm_too_old > 0 {
        obs.label("honest:too-old-frame");
    }
    if st.late_dup {
        obs.label("honest:dup-after-completion");
    }
    if st.max_frames >= DOC_MAX_FRAMES - 1 {
        obs.label("honest:packet-with->=255-frames");
    }
    if st.emissions == 0 {
        obs.label("honest:nothing-emitted");
    }
}

// ------------------------------------------------------------------------------ honest: exhaustive small set

#[derive(Clone, Debug, Serialize, Deserialize)]
struct ExhCase {
    q: u8,
    /// a completed 3-frame packet is pushed through first (slots hold foreign bytes)
    prelude: bool,
    mtu: u16,
    sizes: Vec<u16>,
    /// (packet, frame) deliveries
    sched: Vec<(u8, u8)>,
}

fn check_exh(c: &ExhCase, obs: &mut Obs) -> CheckResult {
    let mut pkts: Vec<Pk> = Vec::new();
    let mut deliv: Vec<(usize, usize)> = Vec::new();
    let off = usize::from(c.prelude);
    if c.prelude {
        let w = window(c.mtu as usize);
        pkts.push(Pk { mtu: c.mtu as usize, size: (3 * w).min(DOC_MAX_PACKET), seed: 0x5EED });
        deliv.extend([(0, 0), (0, 1), (0, 2)]);
    }
    for (i, s) in c.sizes.iter().enumerate() {
        pkts.push(Pk { mtu: c.mtu as usize, size: (*s).max(1) as usize, seed: 1 + i as u32 });
    }
    deliv.extend(c.sched.iter().map(|&(p, f)| (p as usize + off, f as usize)));
    let mut fails = Fails::default();
    let st = honest_core(c.q.max(1) as usize, &pkts, &deliv, &mut fails);
    honest_labels(c.q as usize, &st, obs);
    obs.evals(deliv.len() as u64);
    if st.reordered && st.max_open >= 2 {
        obs.nontrivial(&(c.q, c.prelude, c.mtu, &c.sizes, &c.sched));
    }
    fails.verdict()
}

fn fact(n: u64) -> u64 {
    (1..=n).product()
}
/// k-th permutation of 0..m (factorial number system)
fn kth_perm(mut k: u64, m: usize) -> Vec<usize> {
    let mut items: Vec<usize> = (0..m).collect();
    let mut out = Vec::with_capacity(m);
    for i in (1..=m as u64).rev() {
        let f = fact(i - 1);
        let j = (k / f) as usize;
        k %= f;
        out.push(items.remove(j));
    }
    out
}

struct ExhDomain {
    cfgs: Vec<(u8, bool, u16, u8, u8)>, // q, prelude, mtu, tail1, tail2
    shapes: Vec<(usize, usize, u64)>,   // n1, n2, count
    per_cfg: u64,
}
impl ExhDomain {
    fn new(thorough: bool) -> Self {
        let mut cfgs = vec![];
        let qs: &[(u8, bool)] = if thorough { &[(1, false), (1, true), (2, false), (2, true), (3, true)] } else { &[(1, false), (1, true), (2, true)] };
        let mtus: &[usize] = if thorough { &MTUS } else { &[DOC_MIN_MTU, 1400] };
        let tails: &[u8] = if thorough { &[0, 1, 2] } else { &[0, 2] };
        for &(q, pre) in qs {
            for &m in mtus {
                for &t1 in tails {
                    for &t2 in tails {
                        cfgs.push((q, pre, m as u16, t1, t2));
                    }
                }
            }
        }
        let mut shapes = vec![];
        let mut per_cfg = 0;
        for n1 in 1..=3usize {
            for n2 in 0..=3usize {
                let m = (n1 + n2) as u64;
                let cnt = fact(m) * (1 + m + m * (m + 1));
                shapes.push((n1, n2, cnt));
                per_cfg += cnt;
            }
        }
        ExhDomain { cfgs, shapes, per_cfg }
    }
    fn total(&self) -> u64 {
        self.cfgs.len() as u64 * self.per_cfg
    }
    fn case(&self, i: u64) -> Option<ExhCase> {
        let (q, prelude, mtu, t1, t2) = self.cfgs[(i / self.per_cfg) as usize];
        let mut r = i % self.per_cfg;
        let mut shape = (0, 0);
        for &(n1, n2, cnt) in &self.shapes {
            if r < cnt {
                shape = (n1, n2);
                break;
            }
            r -= cnt;
        }
        let (n1, n2) = shape;
        if n2 == 0 && t2 != 0 {
            return None; // second tail irrelevant: enumerate once
        }
        let m = n1 + n2;
        let mods = (1 + m + m * (m + 1)) as u64;
        let perm = kth_perm(r / mods, m);
        let md = (r % mods) as usize;
        let frame_of = |x: usize| if x < n1 { (0u8, x as u8) } else { (1u8, (x - n1) as u8) };
        let mut sched: Vec<(u8, u8)> = perm.iter().map(|&x| frame_of(x)).collect();
        if md == 0 {
        } else if md <= m {
            // drop frame md-1
            let victim = frame_of(md - 1);
            sched.retain(|f| *f != victim);
        } else {
            let k = md - 1 - m;
            let which = frame_of(k / (m + 1));
            sched.insert(k % (m + 1), which);
        }
        let w = window(mtu as usize);
        let size = |n: usize, t: u8| ((n - 1) * w + [1, w - 1, w][t as usize]) as u16;
        let mut sizes = vec![size(n1, t1)];
        if n2 > 0 {
            sizes.push(size(n2, t2));
        }
        Some(ExhCase { q, prelude, mtu, sizes, sched })
    }
}

fn run_exh(ctx: &Ctx) {
    let dom = ExhDomain::new(ctx.tier.pick(false, true));
    ctx.run_enum("honest-exhaustive-small", dom.total(), true, |i| dom.case(i), check_exh);
}

// ------------------------------------------------------------------------------ honest: generated schedules

#[derive(Clone, Debug, Serialize, Deserialize)]
struct PkSpec {
    mtu: u16,
    size: u16,
}
#[derive(Clone, Debug, Serialize, Deserialize)]
enum Step {
    /// next undelivered frame (in order) of a packet of the window
    Next(u16),
    /// some undelivered frame of a packet of the window
    Pick(u16, u16),
    /// the next k undelivered frames of a packet of the window
    Burst(u16, u8),
    /// an already delivered frame of any started packet again (also after completion)
    Dup(u16, u16),
    /// all frames of a fully delivered packet once more, in order
    DupAll(u16),
    /// the remaining frames of a packet of the window are lost
    Abandon(u16),
}
#[derive(Clone, Debug, Serialize, Deserialize)]
struct HonestCase {
    q: u8,
    /// number of packets whose frames are in flight at the same time
    conc: u8,
    pkts: Vec<PkSpec>,
    steps: Vec<Step>,
    /// 0: stop; 1: remaining packets one after the other in order; 2: round robin over the window;
    /// 3: one after the other, frames in reverse order
    flush: u8,
}

const MAX_DELIVERIES: usize = 8000;

fn expand_schedule(c: &HonestCase) -> Vec<(usize, usize)> {
    let np = c.pkts.len();
    let nf: Vec<usize> = c.pkts.iter().map(|p| (p.size.max(1) as usize).div_ceil(window(p.mtu as usize))).collect();
    let mut undel: Vec<Vec<usize>> = nf.iter().map(|&n| (0..n).collect()).collect();
    let mut del: Vec<Vec<usize>> = vec![vec![]; np];
    let mut abandoned = vec![false; np];
    let conc = c.conc.max(1) as usize;
    let mut out: Vec<(usize, usize)> = Vec::new();
    let win = |undel: &Vec<Vec<usize>>, abandoned: &Vec<bool>| -> Vec<usize> { (0..np).filter(|&p| !abandoned[p] && !undel[p].is_empty()).take(conc).collect() };
    for s in &c.steps {
        if out.len() >= MAX_DELIVERIES {
            break;
        }
        match *s {
            Step::Next(sel) | Step::Pick(sel, _) | Step::Burst(sel, _) | Step::Abandon(sel) => {
                let w = win(&undel, &abandoned);
                if w.is_empty() {
                    continue;
                }
                let p = w[idx(sel, w.len())];
                match *s {
                    Step::Next(_) => {
                        let i = undel[p].remove(0);
                        del[p].push(i);
                        out.push((p, i));
                    }
                    Step::Pick(_, pick) => {
                        let j = idx(pick, undel[p].len());
                        let i = undel[p].remove(j);
                        del[p].push(i);
                        out.push((p, i));
                    }
                    Step::Burst(_, k) => {
                        for _ in 0..k.max(1) {
                            if undel[p].is_empty() {
                                break;
                            }
                            let i = undel[p].remove(0);
                            del[p].push(i);
                            out.push((p, i));
                        }
                    }
                    _ => abandoned[p] = true,
                }
            }
            Step::Dup(sel, pick) => {
                let started: Vec<usize> = (0..np).filter(|&p| !del[p].is_empty()).collect();
                if started.is_empty() {
                    continue;
                }
                let p = started[idx(sel, started.len())];
                let i = del[p][idx(pick, del[p].len())];
                out.push((p, i));
            }
            Step::DupAll(sel) => {
                let full: Vec<usize> = (0..np).filter(|&p| undel[p].is_empty()).collect();
                if full.is_empty() {
                    continue;
                }
                let p = full[idx(sel, full.len())];
                out.extend((0..nf[p]).map(|i| (p, i)));
            }
        }
    }
    match c.flush {
        1 | 3 => loop {
            let w = win(&undel, &abandoned);
            let Some(&p) = w.first() else { break };
            let mut rest = std::mem::take(&mut undel[p]);
            if c.flush == 3 {
                rest.reverse();
            }
            out.extend(rest.iter().map(|&i| (p, i)));
            if out.len() >= 4 * MAX_DELIVERIES {
                break;
            }
        },
        2 => loop {
            let w = win(&undel, &abandoned);
            if w.is_empty() || out.len() >= 4 * MAX_DELIVERIES {
                break;
            }
            for p in w {
                let i = undel[p].remove(0);
                out.push((p, i));
            }
        },
        _ => {}
    }
    out
}

fn check_honest(c: &HonestCase, obs: &mut Obs) -> CheckResult {
    let q = c.q.max(1) as usize;
    let pkts: Vec<Pk> = c.pkts.iter().enumerate().map(|(i, p)| Pk { mtu: p.mtu as usize, size: p.size.max(1) as usize, seed: 1 + i as u32 }).collect();
    let deliv = expand_schedule(c);
    let mut fails = Fails::default();
    let st = honest_core(q, &pkts, &deliv, &mut fails);
    honest_labels(q, &st, obs);
    for p in &c.pkts {
        let w = window(p.mtu as usize);
        let s = p.size as usize;
        if s == 1 || s == w - 1 || s == w || s == w + 1 || s == 2 * w || s == DOC_MAX_PACKET {
            obs.label("honest:boundary-size");
        }
        if s == DOC_MAX_PACKET {
            obs.label("honest:size-65535");
        }
    }
    obs.evals(deliv.len().max(1) as u64);
    if st.reordered && st.max_open >= 2 {
        obs.nontrivial(&deliv);
    }
    fails.verdict()
}

fn size_from(sel: u8, a: u16, w: usize) -> u16 {
    let maxk = DOC_MAX_PACKET / w;
    let s = match sel {
        0 => 1,
        1 => w - 1,
        2 => w,
        3 => w + 1,
        4 => 2 * w - 1,
        5 => 2 * w,
        6 => 2 * w + 1,
        7 => 3 * w,
        8 => (1 + a as usize % 6) * w + [0usize, 1, w - 1][(a as usize / 8) % 3],
        9 => DOC_MAX_PACKET,
        10 => DOC_MAX_PACKET - 1,
        11 => maxk * w,
        12 => a as usize,
        13 | 14 | 15 => 1 + a as usize % (4 * w),
        16 => 5 * w + 1,
        _ => (1 + a as usize % maxk) * w + 1,
    };
    s.clamp(1, DOC_MAX_PACKET) as u16
}

fn step_strategy() -> impl Strategy<Value = Step> {
    prop_oneof![
        8 => any::<u16>().prop_map(Step::Next),
        8 => (any::<u16>(), any::<u16>()).prop_map(|(a, b)| Step::Pick(a, b)),
        3 => (any::<u16>(), 1u8..=64).prop_map(|(a, k)| Step::Burst(a, k)),
        4 => (any::<u16>(), any::<u16>()).prop_map(|(a, b)| Step::Dup(a, b)),
        2 => any::<u16>().prop_map(Step::DupAll),
        1 => any::<u16>().prop_map(Step::Abandon),
    ]
}

fn honest_strategy() -> impl Strategy<Value = HonestCase> {
    (
        prop::sample::select(vec![1u8, 2, 2, 3, 3, 5, 8]),
        any::<u16>(),
        0u8..6,
        prop::collection::vec((0u8..18, any::<u16>(), 0u8..4), 1..=10),
        prop::collection::vec(step_strategy(), 0..=120),
        prop::sample::select(vec![0u8, 1, 1, 2, 2, 2, 3]),
    )
        .prop_map(|(q, conc_sel, mtu_mode, pk, steps, flush)| {
            // window of 1..=Q+2 packets, Q and Q+1 most likely
            let conc = [q, q + 1, q, q + 1, 1 + idx(conc_sel, q as usize + 2) as u8][idx(conc_sel.rotate_left(5), 5)];
            let pkts = pk
                .into_iter()
                .map(|(sel, a, msel)| {
                    let mtu = match mtu_mode {
                        0..=3 => MTUS[mtu_mode as usize],
                        4 => MTUS[msel as usize],
                        _ => DOC_MIN_MTU + a.rotate_left(7) as usize % (DOC_MAX_MTU - DOC_MIN_MTU + 1),
                    };
                    PkSpec { mtu: mtu as u16, size: size_from(sel, a, window(mtu)) }
                })
                .collect();
            HonestCase { q, conc, pkts, steps, flush }
        })
}

fn run_honest(ctx: &Ctx) {
    let n = ctx.tier.pick(100_000, 3_000_000);
    ctx.run_prop("honest-schedules", n, honest_strategy, check_honest);
}

// ------------------------------------------------------------------------------ hostile frames core

#[derive(Clone, Debug, Serialize, Deserialize)]
enum HF {
    /// header fields + payload of `len` bytes, byte at packet position x = pbyte(seed, x)
    F { so: u64, fo: u16, flags: u16, len: u32, seed: u32 },
    /// arbitrary leading bytes followed by `len` generated bytes
    Raw {
        #[serde(with = "vcore::hexbytes")]
        head: Vec<u8>,
        len: u32,
        seed: u32,
    },
}
impl HF {
    fn bytes(&self) -> Vec<u8> {
        match self {
            HF::F { so, fo, flags, len, seed } => {
                let tail = if seed & 1 == 1 { seed.to_be_bytes() } else { [0; 4] };
                enc(*so, *fo, *flags, tail, (0..*len).map(|j| pbyte(*seed, *fo as u32 + j)))
            }
            HF::Raw { head, len, seed } => {
                let mut v = head.clone();
                v.extend((0..*len).map(|j| pbyte(*seed, j)));
                v
            }
        }
    }
}

#[derive(Default)]
struct HostileStats {
    emitted_multi: u32,
    emitted_single: u32,
    kinds: BTreeSet<&'static str>,
}

/// Feeds `frames` to a Defragmenter with `q` queues; integrity oracle over the whole history.
fn hostile_core(q: usize, frames: &[Vec<u8>], fails: &mut Fails) -> HostileStats {
    let mut st = HostileStats::default();
    let mut d = Defragmenter::new_unobserved(q);
    let mut shadow: BTreeMap<u64, Vec<usize>> = BTreeMap::new();
    for (n, f) in frames.iter().enumerate() {
        let decoded = dec(f);
        if let Some(h) = &decoded {
            shadow.entry(h.so).or_default().push(n);
        }
        let out = match sut_recv(&mut d, f) {
            Ok(o) => o,
            Err(fl) => {
                fails.0.push(fl);
                return st;
            }
        };
        match out {
            Err(k) => {
                st.kinds.insert(k);
            }
            Ok(None) => {
                if decoded.is_none() {
                    fails.push("hostile:short-frame-accepted", || format!("frame {n} of {} bytes (shorter than the header) was accepted", f.len()));
                }
            }
            Ok(Some((so, payload))) => {
                if decoded.as_ref().map(|h| h.last && h.fo == 0).unwrap_or(false) {
                    st.emitted_single += 1;
                } else {
                    st.emitted_multi += 1;
                }
                let empty = vec![];
                let mine = shadow.get(&so).unwrap_or(&empty);
                let hs: Vec<Dec<'_>> = mine.iter().map(|&m| dec(&frames[m]).unwrap()).collect();
                let several_last = {
                    let l: BTreeSet<(usize, usize)> = hs.iter().filter(|h| h.last).map(|h| (h.fo, h.payload.len())).collect();
                    l.len() >= 2
                };
                let empty_last = hs.iter().any(|h| h.last && h.payload.is_empty() && h.fo == payload.len());
                let mid_beyond = hs.iter().any(|h| !h.last && h.fo >= payload.len());
                // a middle frame where the LAST frame announcing this length starts
                let mid_at_last = hs.iter().any(|h| !h.last && hs.iter().any(|l| l.last && l.fo + l.payload.len() == payload.len() && h.fo >= l.fo));
                let class = if mid_beyond {
                    "middle-frame-beyond-announced-end"
                } else if mid_at_last {
                    "middle-frame-at-last-frame-offset"
                } else if empty_last {
                    "empty-last-frame"
                } else if several_last {
                    "several-last-frames"
                } else {
                    "other"
                };
                if !hs.iter().any(|h| h.last && h.fo + h.payload.len() == payload.len()) {
                    fails.push(format!("integrity:length-not-announced-by-a-last-frame:{class}"), || {
                        format!("frame {n}: emitted stream offset {so} with {} bytes; LAST frames received for it announce {:?}", payload.len(), hs.iter().filter(|h| h.last).map(|h| h.fo + h.payload.len()).collect::<Vec<_>>())
                    });
                }
                // 0 = position never covered, 1 = covered by other values only, 2 = value received
                let mut cov = vec![0u8; payload.len()];
                for h in &hs {
                    for (j, b) in h.payload.iter().enumerate() {
                        let pos = h.fo + j;
                        if pos >= cov.len() {
                            break;
                        }
                        if *b == payload[pos] {
                            cov[pos] = 2;
                        } else if cov[pos] == 0 {
                            cov[pos] = 1;
                        }
                    }
                }
                if let Some(pos) = cov.iter().position(|&c| c != 2) {
                    let kind = if cov[pos] == 0 { "position-never-covered" } else { "value-never-received" };
                    let bad = cov.iter().filter(|&&c| c != 2).count();
                    // where do the bytes come from? (diagnostics only)
                    let origin = shadow
                        .iter()
                        .filter(|(s, _)| **s != so)
                        .find(|(_, v)| {
                            v.iter().any(|&m| {
                                let h = dec(&frames[m]).unwrap();
                                pos >= h.fo && pos - h.fo < h.payload.len() && h.payload[pos - h.fo] == payload[pos]
                            })
                        })
                        .map(|(s, _)| *s);
                    fails.push(format!("integrity:{kind}:{class}"), || {
                        format!(
                            "frame {n}: emitted stream offset {so} ({} bytes); {bad} byte(s) were never received in a frame of that stream offset, first at position {pos} = {:#04x}{}; frames received for it (offset,len,last): {:?}",
                            payload.len(),
                            payload[pos],
                            match origin {
                                Some(s) => format!(" (carried there by a frame of stream offset {s})"),
                                None if payload[pos] == 0 => " (untouched buffer)".to_string(),
                                None => String::new(),
                            },
                            hs.iter().take(8).map(|h| (h.fo, h.payload.len(), h.last)).collect::<Vec<_>>()
                        )
                    });
                }
            }
        }
    }
    st
}

fn hostile_labels(frames: &[Vec<u8>], st: &HostileStats, obs: &mut Obs) {
    for k in &st.kinds {
        obs.label(format!("hostile:err:{k}"));
    }
    if st.emitted_multi > 0 {
        obs.label("hostile:emitted-from-slot");
    }
    if st.emitted_single > 0 {
        obs.label("hostile:emitted-single-frame");
    }
    let mut lasts: BTreeMap<u64, BTreeSet<(usize, usize)>> = BTreeMap::new();
    let mut mids: BTreeMap<u64, Vec<usize>> = BTreeMap::new();
    for f in frames {
        match dec(f) {
            None => obs.label("hostile:frame-shorter-than-header"),
            Some(h) => {
                if h.so == u64::MAX {
                    obs.label("hostile:stream-offset-u64max");
                }
                if h.payload.is_empty() {
                    obs.label("hostile:empty-fragment");
                }
                if h.fo + h.payload.len() >= DOC_MAX_PACKET && h.fo > 0 {
                    obs.label("hostile:offset-near-65535");
                }
                if h.last {
                    lasts.entry(h.so).or_default().insert((h.fo, h.payload.len()));
                } else {
                    mids.entry(h.so).or_default().push(h.fo);
                }
            }
        }
    }
    if lasts.values().any(|l| l.len() >= 2) {
        obs.label("hostile:several-last-frames");
    }
    if lasts.iter().any(|(s, l)| l.iter().any(|(fo, len)| mids.get(s).map(|m| m.iter().any(|&x| x >= fo + len)).unwrap_or(false))) {
        obs.label("hostile:middle-frame-beyond-announced-end");
    }
}

/// a completed honest packet that leaves foreign bytes in the slot buffers
fn dirty_prelude() -> &'static Vec<Vec<u8>> {
    static P: std::sync::OnceLock<Vec<Vec<u8>>> = std::sync::OnceLock::new();
    P.get_or_init(|| {
        let so = 0xD1_0000_0000u64;
        let w = 8984usize;
        let size = DOC_MAX_PACKET;
        let n = size.div_ceil(w);
        (0..n)
            .map(|i| {
                let lo = i * w;
                let hi = (lo + w).min(size);
                enc(so, lo as u16, if i + 1 == n { LAST } else { 0 }, [0; 4], (lo..hi).map(|x| pbyte(0xD1D1, x as u32)))
            })
            .collect()
    })
}

#[derive(Clone, Debug, Serialize, Deserialize)]
struct HostileCase {
    q: u8,
    dirty: bool,
    frames: Vec<HF>,
}

fn check_hostile(c: &HostileCase, obs: &mut Obs) -> CheckResult {
    let mut frames: Vec<Vec<u8>> = Vec::new();
    let skip = if c.dirty {
        frames.extend(dirty_prelude().iter().cloned());
        frames.len()
    } else {
        0
    };
    frames.extend(c.frames.iter().map(|f| f.bytes()));
    let mut fails = Fails::default();
    let st = hostile_core(c.q.max(1) as usize, &frames, &mut fails);
    hostile_labels(&frames[skip..], &st, obs);
    obs.evals(frames.len().max(1) as u64);
    if !c.frames.is_empty() {
        obs.nontrivial(&(c.q, c.dirty, &frames[skip..]));
    }
    fails.verdict()
}

// ---- hostile: exhaustive small alphabet

const HW: usize = 256;
/// NOTE: /verif/regressions/C17/stale-*.json refer to these frames by index: append only.
fn small_alphabet() -> Vec<HF> {
    let w = HW as u16;
    let s = 1000u64;
    let t = 5000u64;
    let f = |so, fo, flags, len, seed| HF::F { so, fo, flags, len, seed };
    vec![
        f(s, 0, 0, HW as u32, 10),
        f(s, w, 0, HW as u32, 12),
        f(s, 2 * w, 0, HW as u32, 14),
        f(s, 3 * w, 0, HW as u32, 16),
        f(s, w, LAST, 5, 18),
        f(s, 2 * w, LAST, 5, 20),
        f(s, 2 * w, LAST, 0, 22),
        f(s, w, LAST, HW as u32, 24),
        f(s, 3 * w, LAST, 1, 26),
        f(s, 0, LAST, 7, 28),
        f(t, 0, 0, HW as u32, 30),
        f(t, w, LAST, 3, 32),
        f(s, w, 0, HW as u32 + 1, 34),
    ]
}
#[derive(Clone, Debug, Serialize, Deserialize)]
struct SmallCase {
    q: u8,
    /// indices into the 13-frame alphabet (see small_alphabet)
    seq: Vec<u8>,
}
fn check_small(c: &SmallCase, obs: &mut Obs) -> CheckResult {
    let alpha = small_alphabet();
    // prelude: a complete honest 5-frame packet of another stream offset leaves bytes in the slot
    let mut frames: Vec<Vec<u8>> = (0..5usize)
        .map(|i| enc(0, (i * HW) as u16, if i == 4 { LAST } else { 0 }, [0; 4], (0..HW).map(|j| pbyte(0xD1D1, (i * HW + j) as u32))))
        .collect();
    frames.extend(c.seq.iter().map(|&i| alpha[i as usize % alpha.len()].bytes()));
    let mut fails = Fails::default();
    let st = hostile_core(c.q.max(1) as usize, &frames, &mut fails);
    hostile_labels(&frames[5..], &st, obs);
    obs.evals(frames.len() as u64);
    obs.nontrivial(&(c.q, &c.seq));
    fails.verdict()
}
fn run_small(ctx: &Ctx) {
    let maxlen = ctx.tier.pick(4u32, 5);
    let a = small_alphabet().len() as u64;
    let mut per_q = 0u64;
    for l in 1..=maxlen {
        per_q += a.pow(l);
    }
    ctx.run_enum(
        "hostile-exhaustive-small",
        2 * per_q,
        true,
        |i| {
            let q = 1 + (i / per_q) as u8;
            let mut r = i % per_q;
            let mut len = 1;
            while r >= a.pow(len) {
                r -= a.pow(len);
                len += 1;
            }
            let mut seq = Vec::with_capacity(len as usize);
            for _ in 0..len {
                seq.push((r % a) as u8);
                r /= a;
            }
            Some(SmallCase { q, seq })
        },
        check_small,
    );
}

// ---- hostile: generated structures

const SO_POOL: [u64; 10] = [0, 1, 256, 300, 65536, 1 << 32, u64::MAX - 1, u64::MAX, 1000, 2000];

fn pick_so(sel: u8, r: u16) -> u64 {
    match sel {
        0..=9 => SO_POOL[sel as usize],
        10 => r as u64,
        _ => (r as u64) << 40 | 7,
    }
}
fn pick_w(sel: u8, r: u16) -> usize {
    match sel {
        0 | 1 => 256,
        2 => 257,
        3 => 300,
        4 => 1384,
        5 => 8984,
        6 => 256 + r as usize % (8984 - 256 + 1),
        7 => 255,
        _ => 1 + r as usize % 255,
    }
}

/// one frame that deviates from the honest template (so, w, n frames)
fn extra_frame(kind: u8, a: u16, b: u16, so: u64, w: usize, n: usize, seed: u32) -> HF {
    let cl = |x: usize| x.min(65535) as u16;
    let lens = [0usize, 1, 5, w - 1, w, w + 1, 2 * w, 3 * w];
    let f = |fo: u16, flags: u16, len: usize| HF::F { so, fo, flags, len: len.min(70000) as u32, seed };
    match kind {
        // middle frame at or beyond the announced end
        0 => f(cl((n - 1 + a as usize % 4) * w), 0, w),
        // another LAST frame somewhere else / with another length
        1 => {
            let fo = cl((a as usize % (n + 2)) * w);
            let l = lens[b as usize % lens.len()];
            f(fo, LAST, if b & 0x100 != 0 { DOC_MAX_PACKET - fo as usize } else { l })
        }
        // middle frame with another size
        2 => {
            let w2 = [w + 1, w.saturating_sub(1).max(1), 2 * w, 256, 300][a as usize % 5];
            f(cl((b as usize % (n + 1)) * w2), 0, w2)
        }
        // empty middle fragment
        3 => f([0, cl(w), a][b as usize % 3], 0, 0),
        // empty LAST fragment at a window boundary
        4 => f(cl((1 + a as usize % (n + 1)) * w), LAST, 0),
        // single-frame packet on the same stream offset (fast path)
        5 => f(0, LAST, b as usize % 600),
        // misaligned frames
        6 => f(cl((a as usize % (n + 1)) * w + 1 + b as usize % 3), if b & 0x10 != 0 { LAST } else { 0 }, w),
        // offsets near 65535
        7 => {
            let d = b as usize % 300;
            let fo = cl(DOC_MAX_PACKET - d);
            let l = [0, d, d + 1, w, d.saturating_sub(1)][a as usize % 5];
            f(fo, if a & 0x80 != 0 { LAST } else { 0 }, l)
        }
        // frame index at the bitmask limit
        8 => f(cl((253 + a as usize % 4) * w), if b & 1 != 0 { LAST } else { 0 }, [w, 1, DOC_MAX_PACKET.saturating_sub((253 + a as usize % 4) * w)][b as usize / 2 % 3]),
        // reserved flag bits on an otherwise valid frame of the template
        9 => {
            let i = a as usize % n;
            f(cl(i * w), (if i + 1 == n { LAST } else { 0 }) | (b & 0x7fff), w)
        }
        // arbitrary offset/length
        10 => f(a, if b & 0x8000 != 0 { LAST } else { 0 }, b as usize % 700),
        // huge LAST frames
        _ => {
            let fo = [0, cl(w), cl(2 * w)][a as usize % 3];
            f(fo, LAST, [DOC_MAX_PACKET, DOC_MAX_PACKET + 1, DOC_MAX_PACKET - fo as usize, DOC_MAX_PACKET - fo as usize + 1][b as usize % 4])
        }
    }
}

/// frames of one (possibly inconsistent) packet attempt with sort keys
fn group_strategy() -> impl Strategy<Value = Vec<(u32, HF)>> {
    (
        (0u8..12, any::<u16>(), 0u8..9, any::<u16>()),
        prop_oneof![9 => 1usize..=6, 1 => 200usize..=256],
        0u8..5,
        (any::<u16>(), any::<u16>()),
        prop::collection::vec((0u8..12, any::<u16>(), any::<u16>(), any::<u16>()), 0..=3),
        prop::collection::vec(any::<u16>(), 12),
        (any::<u16>(), 0u8..3),
        any::<u16>(),
    )
        .prop_map(|((so_sel, so_r, w_sel, w_r), n, tail_sel, (keep, dup), extras, keys, (gbase, mode), seedbase)| {
            let so = pick_so(so_sel, so_r);
            let w = pick_w(w_sel, w_r);
            let n = n.min(DOC_MAX_PACKET / w + 1).max(1);
            let tail = [1, w - 1, w, 5, w / 2][tail_sel as usize].max(1);
            let key = |j: usize| -> u32 {
                let k = keys[j % 12] as u32;
                match mode {
                    0 => k,                                        // free interleaving with other groups
                    1 => gbase as u32 + (k >> 4),                  // mostly one group after the other
                    _ => gbase as u32 + (j as u32) * 8 + (k >> 13), // nearly in order
                }
            };
            let mut out: Vec<(u32, HF)> = Vec::new();
            let mut seed = (seedbase as u32) << 12;
            for i in 0..n {
                let fo = i * w;
                if fo > 65535 {
                    break;
                }
                let last = i + 1 == n;
                seed += 2;
                let fr = HF::F { so, fo: fo as u16, flags: if last { LAST } else { 0 }, len: if last { tail } else { w } as u32, seed };
                // frames of big groups are kept; small ones are dropped with probability 1/8 each
                let bit = i % 16;
                let dropped = n <= 16 && keep >> bit & 1 == 1 && keep.rotate_left(3) >> bit & 1 == 1 && keep.rotate_left(7) >> bit & 1 == 1;
                if !dropped {
                    out.push((key(i), fr.clone()));
                }
                if n <= 16 && dup >> bit & 1 == 1 && dup.rotate_left(5) >> bit & 1 == 1 {
                    out.push((key(i + 5), fr));
                }
            }
            for (j, (kind, a, b, k)) in extras.into_iter().enumerate() {
                seed += 2;
                let fr = extra_frame(kind, a, b, so, w, n, seed + (k as u32 & 1));
                out.push((if mode == 0 { k as u32 } else { gbase as u32 + (k as u32 >> 4) + j as u32 }, fr));
            }
            out
        })
}

fn hostile_strategy() -> impl Strategy<Value = HostileCase> {
    (
        prop::sample::select(vec![1u8, 1, 2, 2, 3, 8]),
        any::<bool>(),
        prop::collection::vec(group_strategy(), 1..=4),
        prop::collection::vec((any::<u16>(), prop::collection::vec(any::<u8>(), 0..=16), prop_oneof![1 => Just(0u32), 2 => 0u32..600], any::<u32>()), 0..=2),
    )
        .prop_map(|(q, dirty, groups, raws)| {
            let mut all: Vec<(u32, HF)> = groups.into_iter().flatten().collect();
            all.extend(raws.into_iter().map(|(k, head, len, seed)| (k as u32, HF::Raw { head, len, seed })));
            all.sort_by_key(|x| x.0);
            HostileCase { q, dirty, frames: all.into_iter().map(|x| x.1).collect() }
        })
}

fn run_hostile(ctx: &Ctx) {
    let n = ctx.tier.pick(150_000, 4_000_000);
    ctx.run_prop("hostile-frames", n, hostile_strategy, check_hostile);
}

// ---- hostile: frame sequences decoded from raw bytes (libFuzzer-style byte mutation)

#[derive(Clone, Debug, Serialize, Deserialize)]
struct CodeCase {
    q: u8,
    dirty: bool,
    /// 5 bytes per frame, see decode_code
    #[serde(with = "vcore::hexbytes")]
    code: Vec<u8>,
}
fn decode_code(code: &[u8]) -> Vec<HF> {
    code.chunks_exact(5)
        .enumerate()
        .map(|(n, c)| {
            let so = SO_POOL[(c[0] & 7) as usize].wrapping_add((c[0] >> 6) as u64);
            let w = [256usize, 257, 1384, 8984][(c[3] & 3) as usize];
            let mut k = (c[2] & 0x3f) as usize;
            if c[2] & 0x40 != 0 {
                k *= 4;
            }
            let len = match c[4] >> 5 {
                0 | 1 => w,
                2 => w - 1,
                3 => w + 1,
                4 => (c[4] & 31) as usize,
                5 => 2 * w,
                6 => DOC_MAX_PACKET.saturating_sub(k * w),
                _ => 0,
            };
            let base = (k * w).min(65535);
            let fo = match (c[3] >> 2) & 3 {
                0 | 1 => base,
                2 => (base + 1).min(65535),
                _ => DOC_MAX_PACKET.saturating_sub(len),
            } as u16;
            let mut flags = if c[1] & 0x80 != 0 { LAST } else { 0 };
            if c[1] & 1 != 0 {
                flags |= ((c[1] & 0x7e) as u16) << 4;
            }
            HF::F { so, fo, flags, len: len as u32, seed: 2 * n as u32 + 100 + (c[3] >> 7) as u32 }
        })
        .collect()
}
fn check_code(c: &CodeCase, obs: &mut Obs) -> CheckResult {
    let hc = HostileCase { q: c.q, dirty: c.dirty, frames: decode_code(&c.code) };
    check_hostile(&hc, obs)
}
fn run_code(ctx: &Ctx) {
    let n = ctx.tier.pick(100_000, 3_000_000);
    ctx.run_prop(
        "hostile-bytecode",
        n,
        || {
            (prop::sample::select(vec![1u8, 2, 3]), any::<bool>(), prop::collection::vec(any::<u8>(), 0..=120))
                .prop_map(|(q, dirty, code)| CodeCase { q, dirty, code })
        },
        check_code,
    );
}

// ------------------------------------------------------------------------------ memory

#[derive(Clone, Debug, Serialize, Deserialize)]
struct MemCase {
    q: u8,
    frames: Vec<HF>,
    /// the sequence is replayed this many times with shifted stream offsets
    passes: u16,
}
const MEM_BLOCK: usize = 64;
/// upper bound for the one-time allocations of metric label children (12 error labels)
const MEM_BUDGET: i64 = 32 * 1024;

fn check_memory(c: &MemCase, obs: &mut Obs) -> CheckResult {
    let mut base: Vec<Vec<u8>> = c.frames.iter().map(|f| f.bytes()).collect();
    if base.is_empty() {
        return Ok(());
    }
    let passes = c.passes.max(2) as usize;
    let mut d = Defragmenter::new_unobserved(c.q.max(1) as usize);
    let mut seen: [&'static str; 24] = [""; 24];
    let mut nseen = 0usize;
    let start = net_bytes();
    let mut block_start = start;
    let mut block_new_kind = false;
    let mut in_block = 0usize;
    let mut total_frames = 0u64;
    let mut emitted = 0u64;
    let mut worst: Option<(usize, i64)> = None;
    for pass in 0..passes {
        if pass > 0 {
            // shift the stream offsets (deterministic): same shapes, fresh packets
            for f in base.iter_mut() {
                if f.len() >= 8 {
                    let so = u64::from_be_bytes(f[0..8].try_into().unwrap()).wrapping_add(0x1_0000_0001);
                    f[0..8].copy_from_slice(&so.to_be_bytes());
                }
            }
        }
        for f in &base {
            let r = vcore::no_panic("Defragmenter::recv", || match d.recv(f) {
                Ok(Some(_)) => Ok(true),
                Ok(None) => Ok(false),
                Err(e) => Err(err_kind(&e)),
            })?;
            match r {
                Ok(true) => emitted += 1,
                Ok(false) => {}
                Err(k) => {
                    if !seen[..nseen].iter().any(|s| std::ptr::eq(*s, k) || *s == k) && nseen < seen.len() {
                        seen[nseen] = k;
                        nseen += 1;
                        block_new_kind = true;
                    }
                }
            }
            total_frames += 1;
            in_block += 1;
            if in_block == MEM_BLOCK {
                let now = net_bytes();
                let delta = now - block_start;
                if delta > 0 && !block_new_kind && worst.is_none() {
                    worst = Some((total_frames as usize, delta));
                }
                block_start = now;
                block_new_kind = false;
                in_block = 0;
            }
        }
    }
    let growth = net_bytes() - start;
    drop(d);
    obs.evals(total_frames);
    obs.label("memory:sequence");
    if emitted > 0 {
        obs.label("memory:with-emissions");
    }
    if nseen >= 4 {
        obs.label("memory:>=4-error-kinds");
    }
    obs.nontrivial(&(c.q, base.len(), &base[0], passes));
    if let Some((at, delta)) = worst {
        return Err(Fail::new(
            "memory:allocation-grew-without-new-error-kind",
            format!("net allocated bytes grew by {delta} in the {MEM_BLOCK} frames before frame {at} although no new error kind (metric label) appeared"),
        ));
    }
    if growth > MEM_BUDGET {
        return Err(Fail::new(
            "memory:total-growth-exceeds-budget",
            format!("net allocated bytes grew by {growth} over {total_frames} frames (budget {MEM_BUDGET} for one-time metric label children)"),
        ));
    }
    Ok(())
}
fn run_memory(ctx: &Ctx) {
    let n = ctx.tier.pick(2_000, 40_000);
    ctx.run_prop(
        "memory",
        n,
        || {
            (prop::sample::select(vec![1u8, 2, 3, 8]), prop::collection::vec(group_strategy(), 2..=8), 24u16..=48).prop_map(|(q, groups, passes)| {
                let mut all: Vec<(u32, HF)> = groups.into_iter().flatten().collect();
                all.sort_by_key(|x| x.0);
                MemCase { q, frames: all.into_iter().map(|x| x.1).collect(), passes }
            })
        },
        check_memory,
    );
}

// ------------------------------------------------------------------------------ main

fn post(ctx: &Ctx) {
    let consts_ok = MIN_MTU == DOC_MIN_MTU && MAX_MTU == DOC_MAX_MTU && MAX_FRAMES == DOC_MAX_FRAMES && MAX_PACKET_SIZE == DOC_MAX_PACKET && FragmentFrameHeader::SIZE == HDR;
    if !consts_ok {
        ctx.inconclusive("the crate's MIN_MTU/MAX_MTU/MAX_FRAMES/MAX_PACKET_SIZE/header size differ from the documented values this check was built for");
    }
    let t = ctx.tier.pick(1u64, 20);
    ctx.require_label("honest:concurrent>=2", 5_000 * t);
    ctx.require_label("honest:concurrent>Q", 2_000 * t);
    ctx.require_label("honest:all-complete-with-<=Q-open", 2_000 * t);
    ctx.require_label("honest:must-emit-claimed-after-eviction", 500 * t);
    ctx.require_label("honest:dup-after-completion", 2_000 * t);
    ctx.require_label("honest:packet-with->=255-frames", 300 * t);
    ctx.require_label("honest:size-65535", 300 * t);
    ctx.require_label("hostile:emitted-from-slot", 5_000 * t);
    ctx.require_label("hostile:several-last-frames", 5_000 * t);
    ctx.require_label("hostile:middle-frame-beyond-announced-end", 5_000 * t);
    ctx.require_label("hostile:stream-offset-u64max", 2_000 * t);
    ctx.require_label("hostile:empty-fragment", 5_000 * t);
    ctx.require_label("hostile:offset-near-65535", 2_000 * t);
    ctx.require_label("hostile:frame-shorter-than-header", 1_000 * t);
    ctx.require_label("memory:with-emissions", 100 * t);
    ctx.require_label("memory:>=4-error-kinds", 100 * t);
}

fn main() {
    let subs = [
        Sub { name: "honest-exhaustive-small", run: run_exh, replay: |c, v| c.replay_case::<ExhCase>("honest-exhaustive-small", v, check_exh) },
        Sub { name: "honest-schedules", run: run_honest, replay: |c, v| c.replay_case::<HonestCase>("honest-schedules", v, check_honest) },
        Sub { name: "hostile-exhaustive-small", run: run_small, replay: |c, v| c.replay_case::<SmallCase>("hostile-exhaustive-small", v, check_small) },
        Sub { name: "hostile-frames", run: run_hostile, replay: |c, v| c.replay_case::<HostileCase>("hostile-frames", v, check_hostile) },
        Sub { name: "hostile-bytecode", run: run_code, replay: |c, v| c.replay_case::<CodeCase>("hostile-bytecode", v, check_code) },
        Sub { name: "memory", run: run_memory, replay: |c, v| c.replay_case::<MemCase>("memory", v, check_memory) },
    ];
    vcore::main(
        "C17",
        "cases = frame delivery schedules fed to a fresh Defragmenter with Q in {1,2,3,5,8} queues. Honest: packets of boundary-directed sizes (1, W-1, W, W+1, 2W, .., 65535; W = MTU-16) for MTUs {272, 273, 1400, 9000} are cut by the real Fragmenter (its frames are compared with the documented wire format) and delivered under schedules built from steps (next/any undelivered frame of one of the <= Q+2 packets in flight, bursts, duplicates also after completion, re-delivery of a whole packet, abandoned packets), plus the exhaustive set of all orders of the frames of <= 2 packets x <= 3 frames with one optional drop or duplicate at every position. Oracle: emitted packet byte-identical to the sent packet with that stream offset, only after all its frames were delivered, at most once; must be emitted when its last missing frame arrives while never more than Q packets occupied slots (policy-free), and when the documented slot policy (idle slot, else evict the oldest unless older than the oldest) did not reclaim its slot. Hostile: frame sequences from generated structures (honest templates with drops/duplicates plus deviating frames: middle frames beyond the announced end, several LAST frames, empty fragments, other frame sizes, misalignment, offsets near 65535, index >= 255, reserved flag bits, stream offsets incl. u64::MAX and reuse), from a 5-byte-per-frame byte code, raw short frames, and all sequences of <= 4 (thorough 5) frames over a 13-frame alphabet; oracle: shadow map stream offset -> received frames, every emitted byte was carried at its position by a received frame of the same stream offset, the length is announced by a received LAST frame of it, no panic. Memory: net bytes allocated on the calling thread stay constant over 24-48 replays of a hostile sequence with shifted stream offsets (growth only tolerated in a 64-frame block where a new error kind = metric label first appears, 32 KiB in total). Non-trivial = honest schedule with a reordered delivery and >= 2 packets in flight, or any hostile sequence.",
        &[
            "queue count 0 is not generated (Defragmenter::new(0) is a configuration error: select_queue would index an empty Vec)",
            "Defragmenter::recv reads Instant::now() only to update a histogram once per second; no oracle depends on it",
            "the stream offset never wraps in honest schedules (a fresh Fragmenter starts at 0; at most 10 packets)",
            "single-frame packets are assumed to need no reassembly slot (emitted by the call that receives them)",
        ],
        &subs,
        post,
    );
}
