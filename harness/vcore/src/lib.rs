//! vcore — engine shared by all property checks.
//!
//! * seeding: every random choice comes from a proptest `TestRunner` seeded from
//!   `VERIF_SEED` ⊕ hash(sub-check name, shard index)
//! * fixed work: tiers are case counts, never wall time
//! * counting: evaluations, distinct non-trivial cases (hash set), class histogram, samples
//! * failures: shrunk by proptest, written as a JSON replay file, reported as
//!   `VIOLATION property=<id> replay=<path>`; failures whose signature is listed as an open
//!   entry of /verif/known_findings.json are counted, announced once as `KNOWN-FINDING:` and
//!   the search continues
//! * evidence: /verif/evidence/<id>.json rewritten by every run

pub mod guard;

use std::{
    collections::{BTreeMap, HashSet},
    fmt::Debug,
    hash::{Hash, Hasher},
    panic::{AssertUnwindSafe, catch_unwind},
    path::PathBuf,
    sync::{
        Mutex,
        atomic::{AtomicBool, AtomicU64, Ordering},
    },
    time::Instant,
};

pub use hex;
pub use proptest;
use proptest::{
    strategy::{Strategy, ValueTree},
    test_runner::{Config, RngSeed, TestCaseError, TestError, TestRunner},
};
pub use serde;
use serde::{Serialize, de::DeserializeOwned};
pub use serde_json;
use serde_json::{Value, json};

pub const VERIF_ROOT: &str = "/verif";

#[derive(Clone, Copy, Debug, PartialEq, Eq)]
pub enum Tier {
    Quick,
    Thorough,
}
impl Tier {
    pub fn pick<T>(self, quick: T, thorough: T) -> T {
        match self {
            Tier::Quick => quick,
            Tier::Thorough => thorough,
        }
    }
    pub fn name(self) -> &'static str {
        match self {
            Tier::Quick => "quick",
            Tier::Thorough => "thorough",
        }
    }
}

/// A property violation found by an oracle.
#[derive(Clone, Debug)]
pub struct Fail {
    /// Narrow, structural signature of *what* failed (used for known-finding matching and
    /// to keep shrinking on one root cause).
    pub sig: String,
    /// Human readable detail.
    pub msg: String,
}
impl Fail {
    pub fn new(sig: impl Into<String>, msg: impl Into<String>) -> Self {
        Fail {
            sig: sig.into(),
            msg: msg.into(),
        }
    }
}
pub type CheckResult = Result<(), Fail>;

#[macro_export]
macro_rules! ensure {
    ($cond:expr, $sig:expr, $($fmt:tt)+) => {
        if !($cond) {
            return Err($crate::Fail::new($sig, format!($($fmt)+)));
        }
    };
}

/// Per-case observations made by a check function.
#[derive(Default)]
pub struct Obs {
    labels: Vec<String>,
    nontrivial: Vec<u64>,
    evals: u64,
    /// extra sample payloads the check wants to expose (class, value)
    extra_samples: Vec<(String, Value)>,
}
impl Obs {
    /// classify the case (histogram in evidence)
    pub fn label(&mut self, l: impl Into<String>) {
        self.labels.push(l.into());
    }
    /// mark the case (or a sub-item of it) as non-trivial; `key` decides distinctness
    pub fn nontrivial<K: Hash>(&mut self, key: &K) {
        self.nontrivial.push(hash64(key));
    }
    /// the case performed `n` oracle evaluations (default: 1 per case)
    pub fn evals(&mut self, n: u64) {
        self.evals += n;
    }
    pub fn sample(&mut self, class: impl Into<String>, v: Value) {
        if self.extra_samples.len() < 4 {
            self.extra_samples.push((class.into(), v));
        }
    }
}

pub fn hash64<K: Hash + ?Sized>(k: &K) -> u64 {
    // FNV-1a based, deterministic across runs (DefaultHasher::new() is SipHash with fixed keys,
    // deterministic too, but we do not depend on that).
    struct Fnv(u64);
    impl Hasher for Fnv {
        fn finish(&self) -> u64 {
            self.0
        }
        fn write(&mut self, bytes: &[u8]) {
            for b in bytes {
                self.0 ^= *b as u64;
                self.0 = self.0.wrapping_mul(0x100000001b3);
            }
        }
    }
    let mut h = Fnv(0xcbf29ce484222325);
    k.hash(&mut h);
    // final avalanche
    let mut x = h.finish();
    x ^= x >> 33;
    x = x.wrapping_mul(0xff51afd7ed558ccd);
    x ^= x >> 33;
    x
}

#[derive(Default)]
struct Stats {
    evaluations: u64,
    cases: u64,
    nontrivial: HashSet<u64>,
    labels: BTreeMap<String, u64>,
    samples: BTreeMap<String, Vec<Value>>,
    known_hits: BTreeMap<String, (u64, Value)>,
    subs: Vec<Value>,
}

impl Stats {
    fn merge(&mut self, obs: Obs, case_json: &dyn Fn() -> Value) {
        let st = self;
        st.cases += 1;
        st.evaluations += obs.evals.max(1);
        for h in obs.nontrivial {
            st.nontrivial.insert(h);
        }
        let mut want_sample: Vec<String> = Vec::new();
        if obs.labels.is_empty() {
            *st.labels.entry("unlabelled".into()).or_default() += 1;
        }
        for l in obs.labels {
            match st.labels.get_mut(&l) {
                Some(n) => *n += 1,
                None => {
                    st.labels.insert(l.clone(), 1);
                }
            }
            if !st.samples.contains_key(&l) && st.samples.len() < 40 {
                want_sample.push(l);
            }
        }
        if !want_sample.is_empty() {
            let v = clip(case_json());
            for l in want_sample {
                st.samples.entry(l).or_default().push(v.clone());
            }
        }
        for (c, v) in obs.extra_samples {
            if st.samples.get(&c).map(|v| v.len()).unwrap_or(0) < 2 && st.samples.len() < 48 {
                st.samples.entry(c).or_default().push(clip(v));
            }
        }
    }
}

#[derive(Clone, Debug)]
pub struct KnownFinding {
    pub property: String,
    pub signature: String,
    pub what: String,
    pub status: String,
}

pub struct Violation {
    pub sub: String,
    pub sig: String,
    pub msg: String,
    pub replay: String,
}

pub struct Ctx {
    pub prop: &'static str,
    pub tier: Tier,
    pub seed: u64,
    pub strict: bool,
    pub only: Option<String>,
    start: Instant,
    stats: Mutex<Stats>,
    known: Vec<KnownFinding>,
    announced: Mutex<HashSet<String>>,
    violations: Mutex<Vec<Violation>>,
    inconclusive: Mutex<Vec<String>>,
    pub rule: Mutex<String>,
    pub assumptions: Mutex<Vec<String>>,
    pub exhaustive_parts: Mutex<Vec<String>>,
    pub extra: Mutex<BTreeMap<String, Value>>,
}

thread_local! {
    static LAST_PANIC: std::cell::RefCell<Option<(String, String)>> = const { std::cell::RefCell::new(None) };
    static QUIET_PANIC: std::cell::Cell<bool> = const { std::cell::Cell::new(false) };
}

fn install_panic_hook() {
    let prev = std::panic::take_hook();
    std::panic::set_hook(Box::new(move |info| {
        let loc = info
            .location()
            .map(|l| format!("{}:{}", l.file(), l.line()))
            .unwrap_or_default();
        let msg = if let Some(s) = info.payload().downcast_ref::<&str>() {
            s.to_string()
        } else if let Some(s) = info.payload().downcast_ref::<String>() {
            s.clone()
        } else {
            "<non-string panic>".to_string()
        };
        if QUIET_PANIC.with(|q| q.get()) {
            LAST_PANIC.with(|p| *p.borrow_mut() = Some((loc, msg)));
        } else {
            prev(info);
        }
    }));
}

/// Run `f`, turning a panic into a `Fail` with a signature built from the panic location's file
/// name and the (digit-normalised) message prefix.
pub fn no_panic<T>(what: &str, f: impl FnOnce() -> T) -> Result<T, Fail> {
    let was = QUIET_PANIC.with(|q| q.replace(true));
    let r = catch_unwind(AssertUnwindSafe(f));
    QUIET_PANIC.with(|q| q.set(was));
    match r {
        Ok(v) => Ok(v),
        Err(_) => {
            let (loc, msg) = LAST_PANIC
                .with(|p| p.borrow_mut().take())
                .unwrap_or_default();
            let file = loc.rsplit('/').next().unwrap_or("").split(':').next().unwrap_or("");
            let norm: String = msg
                .chars()
                .take(48)
                .map(|c| if c.is_ascii_digit() { '#' } else { c })
                .collect();
            Err(Fail::new(
                format!("panic:{what}:{file}:{norm}"),
                format!("panic in {what} at {loc}: {msg}"),
            ))
        }
    }
}

fn mix(seed: u64, name: &str, shard: u64) -> u64 {
    hash64(&(seed, name, shard))
}

impl Ctx {
    pub fn from_env(prop: &'static str) -> (Ctx, Option<PathBuf>) {
        let mut tier = match std::env::var("VERIF_TIER").ok().as_deref() {
            Some("thorough") => Tier::Thorough,
            _ => Tier::Quick,
        };
        let seed = std::env::var("VERIF_SEED")
            .ok()
            .and_then(|s| s.trim().parse::<i128>().ok())
            .map(|v| v as u64)
            .unwrap_or(0);
        let mut replay = None;
        let mut only = None;
        let mut strict = false;
        let mut args = std::env::args().skip(1);
        while let Some(a) = args.next() {
            match a.as_str() {
                "--tier" => {
                    tier = match args.next().as_deref() {
                        Some("thorough") => Tier::Thorough,
                        _ => Tier::Quick,
                    }
                }
                "--replay" => replay = args.next().map(PathBuf::from),
                "--only" => only = args.next(),
                "--strict" => strict = true,
                _ => {}
            }
        }
        let known = load_known(prop);
        (
            Ctx {
                prop,
                tier,
                seed,
                strict,
                only,
                start: Instant::now(),
                stats: Mutex::new(Stats::default()),
                known,
                announced: Mutex::new(HashSet::new()),
                violations: Mutex::new(Vec::new()),
                inconclusive: Mutex::new(Vec::new()),
                rule: Mutex::new(String::new()),
                assumptions: Mutex::new(Vec::new()),
                exhaustive_parts: Mutex::new(Vec::new()),
                extra: Mutex::new(BTreeMap::new()),
            },
            replay,
        )
    }

    pub fn threads(&self) -> usize {
        std::env::var("VERIF_THREADS")
            .ok()
            .and_then(|s| s.parse().ok())
            .unwrap_or_else(|| {
                std::thread::available_parallelism()
                    .map(|n| n.get())
                    .unwrap_or(8)
                    .min(16)
            })
    }

    pub fn set_rule(&self, r: &str) {
        *self.rule.lock().unwrap() = r.to_string();
    }
    pub fn assume(&self, a: &str) {
        self.assumptions.lock().unwrap().push(a.to_string());
    }
    pub fn extra(&self, k: &str, v: Value) {
        self.extra.lock().unwrap().insert(k.to_string(), v);
    }
    pub fn inconclusive(&self, why: impl Into<String>) {
        self.inconclusive.lock().unwrap().push(why.into());
    }
    pub fn wants(&self, sub: &str) -> bool {
        self.only.as_deref().map(|o| o == sub).unwrap_or(true)
    }

    fn is_known_open(&self, sig: &str) -> Option<&KnownFinding> {
        if self.strict {
            return None;
        }
        self.known.iter().find(|k| {
            k.status == "open"
                && (k.signature == sig
                    || (k.signature.ends_with('*')
                        && sig.starts_with(&k.signature[..k.signature.len() - 1])))
        })
    }

    fn absorb(&self, local: Stats) {
        let mut st = self.stats.lock().unwrap();
        st.cases += local.cases;
        st.evaluations += local.evaluations;
        st.nontrivial.extend(local.nontrivial);
        for (l, n) in local.labels {
            *st.labels.entry(l).or_default() += n;
        }
        for (c, vs) in local.samples {
            for v in vs {
                if st.samples.get(&c).map(|x| x.len()).unwrap_or(0) < 2 && (st.samples.len() < 40 || st.samples.contains_key(&c)) {
                    st.samples.entry(c.clone()).or_default().push(v);
                }
            }
        }
    }

    fn known_hit(&self, k: &KnownFinding, case: &dyn Fn() -> Value) {
        {
            let mut st = self.stats.lock().unwrap();
            match st.known_hits.get_mut(&k.signature) {
                Some(e) => e.0 += 1,
                None => {
                    st.known_hits.insert(k.signature.clone(), (1, clip(case())));
                }
            }
        }
        let mut ann = self.announced.lock().unwrap();
        if ann.insert(k.signature.clone()) {
            println!(
                "KNOWN-FINDING: property={} {} [signature {}]",
                self.prop, k.what, k.signature
            );
        }
    }

    fn violation(&self, sub: &str, fail: &Fail, case: Value) {
        let dir = format!("{VERIF_ROOT}/replays/{}", self.prop);
        let _ = std::fs::create_dir_all(&dir);
        let mut doc = json!({"property": self.prop, "sub": sub, "signature": fail.sig, "message": fail.msg, "case": case});
        // which binary of a multi-part property wrote this (read back by ./check --replay)
        if let Ok(part) = std::env::var("VERIF_PART") {
            doc["part"] = json!(part);
        }
        let text = serde_json::to_string_pretty(&doc).unwrap();
        let h = hash64(&text);
        let sigfile: String = fail
            .sig
            .chars()
            .map(|c| if c.is_ascii_alphanumeric() { c } else { '_' })
            .take(60)
            .collect();
        let path = format!("{dir}/{sub}-{sigfile}-{:08x}.json", h as u32);
        let _ = std::fs::write(&path, text);
        println!("VIOLATION property={} replay={}", self.prop, path);
        println!("  sub-check: {sub}\n  signature: {}\n  detail: {}", fail.sig, fail.msg);
        self.violations.lock().unwrap().push(Violation {
            sub: sub.to_string(),
            sig: fail.sig.clone(),
            msg: fail.msg.clone(),
            replay: path,
        });
    }

    fn sub_done(&self, name: &str, cases: u64, exhaustive: bool, wall: f64) {
        let mut st = self.stats.lock().unwrap();
        st.subs.push(json!({"name": name, "cases": cases, "exhaustive": exhaustive, "wall_s": (wall*100.0).round()/100.0}));
        if exhaustive {
            self.exhaustive_parts.lock().unwrap().push(name.to_string());
        }
        eprintln!("[{}] sub-check {name}: {cases} cases in {wall:.1}s", self.prop);
    }

    /// Random (proptest) exploration of one sub-check, sharded over threads.
    pub fn run_prop<C, S, F>(
        &self,
        name: &str,
        total_cases: u32,
        strat: impl Fn() -> S + Sync,
        check: F,
    ) where
        S: Strategy<Value = C>,
        C: Debug + Serialize + Clone,
        F: Fn(&C, &mut Obs) -> CheckResult + Sync,
    {
        if !self.wants(name) {
            return;
        }
        let t0 = Instant::now();
        let shards = self.threads().min(total_cases.max(1) as usize).max(1);
        let per = (total_cases as usize).div_ceil(shards) as u32;
        let done = AtomicU64::new(0);
        std::thread::scope(|sc| {
            for shard in 0..shards {
                let strat = &strat;
                let check = &check;
                let done = &done;
                std::thread::Builder::new().stack_size(256 << 20).spawn_scoped(sc, move || {
                    let cfg = Config {
                        cases: per,
                        failure_persistence: None,
                        rng_seed: RngSeed::Fixed(mix(self.seed, name, shard as u64)),
                        max_shrink_iters: 4000,
                        max_shrink_time: 0,
                        fork: false,
                        timeout: 0,
                        verbose: 0,
                        max_global_rejects: 1 << 20,
                        ..Config::default()
                    };
                    let mut runner = TestRunner::new(cfg);
                    let failed = AtomicBool::new(false);
                    let first_sig: Mutex<Option<String>> = Mutex::new(None);
                    // the failure as first observed (case and verdict), reported if the shrunk case
                    // does not reproduce the same signature
                    let first_fail: Mutex<Option<(Value, Fail)>> = Mutex::new(None);
                    let local: std::cell::RefCell<Stats> = std::cell::RefCell::new(Stats::default());
                    let s = strat();
                    let res = runner.run(&s, |case| {
                        let shrinking = failed.load(Ordering::Relaxed);
                        let mut obs = Obs::default();
                        let r = match no_panic(name, || check(&case, &mut obs)) {
                            Ok(r) => r,
                            Err(p) => Err(p),
                        };
                        match r {
                            Ok(()) => {
                                if !shrinking {
                                    local.borrow_mut().merge(obs, &|| serde_json::to_value(&case).unwrap_or(Value::Null));
                                }
                                Ok(())
                            }
                            Err(f) => {
                                if let Some(k) = self.is_known_open(&f.sig) {
                                    if !shrinking {
                                        obs.labels.push(format!("known:{}", k.signature));
                                        local.borrow_mut().merge(obs, &|| serde_json::to_value(&case).unwrap_or(Value::Null));
                                        self.known_hit(k, &|| serde_json::to_value(&case).unwrap_or(Value::Null));
                                    }
                                    return Ok(());
                                }
                                let mut fs = first_sig.lock().unwrap();
                                match &*fs {
                                    None => {
                                        *fs = Some(f.sig.clone());
                                        *first_fail.lock().unwrap() = Some((serde_json::to_value(&case).unwrap_or(Value::Null), Fail::new(f.sig.clone(), f.msg.clone())));
                                        failed.store(true, Ordering::Relaxed);
                                        Err(TestCaseError::fail(f.sig))
                                    }
                                    Some(s0) if *s0 == f.sig => Err(TestCaseError::fail(f.sig)),
                                    // a different root cause met while shrinking: do not wander
                                    Some(_) => Ok(()),
                                }
                            }
                        }
                    });
                    match res {
                        Ok(()) => {}
                        Err(TestError::Fail(_, minimal)) => {
                            let mut obs = Obs::default();
                            let want = first_sig.lock().unwrap().clone().unwrap_or_default();
                            let rerun = match no_panic(name, || check(&minimal, &mut obs)) {
                                Ok(Err(f)) | Err(f) => Some(f),
                                Ok(Ok(())) => None,
                            };
                            match rerun {
                                Some(f) if f.sig == want => self.violation(name, &f, serde_json::to_value(&minimal).unwrap_or(Value::Null)),
                                // the shrunk case shows something else (or nothing) this time: report the
                                // failure exactly as it was first observed, never a different signature
                                _ => match first_fail.lock().unwrap().take() {
                                    Some((case, f)) => self.violation(name, &f, case),
                                    None => self.violation(name, &Fail::new(want, "failure did not reproduce on the shrunk case"), serde_json::to_value(&minimal).unwrap_or(Value::Null)),
                                },
                            }
                        }
                        Err(TestError::Abort(why)) => {
                            self.inconclusive(format!("{name}: proptest aborted: {why}"));
                        }
                    }
                    let local = local.into_inner();
                    done.fetch_add(local.cases, Ordering::Relaxed);
                    self.absorb(local);
                }).expect("spawn shard");
            }
        });
        self.sub_done(name, done.load(Ordering::Relaxed), false, t0.elapsed().as_secs_f64());
    }

    /// Enumeration of an indexed finite domain (`gen(i)` for i in 0..n), sharded over threads.
    /// `exhaustive` states whether 0..n is the *whole* sub-domain named by `name`.
    pub fn run_enum<C, G, F>(&self, name: &str, n: u64, exhaustive: bool, generate: G, check: F)
    where
        C: Debug + Serialize,
        G: Fn(u64) -> Option<C> + Sync,
        F: Fn(&C, &mut Obs) -> CheckResult + Sync,
    {
        if !self.wants(name) {
            return;
        }
        let t0 = Instant::now();
        let shards = self.threads().min(n.max(1) as usize).max(1) as u64;
        let next = AtomicU64::new(0);
        let done = AtomicU64::new(0);
        let reported: Mutex<HashSet<String>> = Mutex::new(HashSet::new());
        const CHUNK: u64 = 256;
        std::thread::scope(|sc| {
            for _ in 0..shards {
                std::thread::Builder::new().stack_size(256 << 20).spawn_scoped(sc, || {
                    let mut local = Stats::default();
                    loop {
                        let lo = next.fetch_add(CHUNK, Ordering::Relaxed);
                        if lo >= n {
                            break;
                        }
                        for i in lo..(lo + CHUNK).min(n) {
                            let Some(case) = generate(i) else { continue };
                            let mut obs = Obs::default();
                            let r = match no_panic(name, || check(&case, &mut obs)) {
                                Ok(r) => r,
                                Err(p) => Err(p),
                            };
                            done.fetch_add(1, Ordering::Relaxed);
                            match r {
                                Ok(()) => local.merge(obs, &|| serde_json::to_value(&case).unwrap_or(Value::Null)),
                                Err(f) => {
                                    if let Some(k) = self.is_known_open(&f.sig) {
                                        obs.labels.push(format!("known:{}", k.signature));
                                        local.merge(obs, &|| serde_json::to_value(&case).unwrap_or(Value::Null));
                                        self.known_hit(k, &|| serde_json::to_value(&case).unwrap_or(Value::Null));
                                        continue;
                                    }
                                    let mut rep = reported.lock().unwrap();
                                    if rep.len() < 5 && rep.insert(f.sig.clone()) {
                                        drop(rep);
                                        self.violation(name, &f, serde_json::to_value(&case).unwrap_or(Value::Null));
                                    }
                                }
                            }
                        }
                    }
                    self.absorb(local);
                }).expect("spawn shard");
            }
        });
        self.sub_done(name, done.load(Ordering::Relaxed), exhaustive, t0.elapsed().as_secs_f64());
    }

    /// Run a list of explicit cases (regressions, golden corpus).
    pub fn run_list<C, F>(&self, name: &str, cases: &[C], check: F)
    where
        C: Debug + Serialize + Sync,
        F: Fn(&C, &mut Obs) -> CheckResult + Sync,
    {
        self.run_enum(name, cases.len() as u64, false, |i| Some(&cases[i as usize]), |c, o| check(c, o));
    }

    pub fn replay_case<C: DeserializeOwned + Debug>(
        &self,
        name: &str,
        v: &Value,
        check: impl Fn(&C, &mut Obs) -> CheckResult,
    ) -> Option<CheckResult> {
        let case: C = match serde_json::from_value(v.clone()) {
            Ok(c) => c,
            Err(e) => {
                eprintln!("cannot decode replay case for {name}: {e}");
                return None;
            }
        };
        let mut obs = Obs::default();
        let r = match no_panic(name, || check(&case, &mut obs)) {
            Ok(r) => r,
            Err(p) => Err(p),
        };
        Some(r)
    }

    pub fn distinct_nontrivial(&self) -> usize {
        self.stats.lock().unwrap().nontrivial.len()
    }
    pub fn label_count(&self, l: &str) -> u64 {
        self.stats.lock().unwrap().labels.get(l).copied().unwrap_or(0)
    }
    pub fn cases(&self) -> u64 {
        self.stats.lock().unwrap().cases
    }

    /// Generator-health floor: label `l` must have been seen at least `min` times.
    pub fn require_label(&self, l: &str, min: u64) {
        let c = self.label_count(l);
        if c < min && self.only.is_none() {
            self.inconclusive(format!("generator health: class '{l}' seen {c} < {min} times"));
        }
    }

    /// Write evidence and exit with the contract's exit code.
    pub fn finish(self) -> ! {
        let st = self.stats.lock().unwrap();
        let viol = self.violations.lock().unwrap();
        let inc = self.inconclusive.lock().unwrap();
        let mut samples: Vec<Value> = Vec::new();
        for (class, vs) in st.samples.iter() {
            for v in vs {
                samples.push(json!({"class": class, "case": v}));
            }
        }
        let known: Vec<Value> = st
            .known_hits
            .iter()
            .map(|(sig, (n, c))| json!({"signature": sig, "cases_excluded": n, "first_case": c}))
            .collect();
        let excluded: u64 = st.known_hits.values().map(|v| v.0).sum();
        let all_exh = !st.subs.is_empty()
            && st.subs.iter().all(|s| s["exhaustive"].as_bool().unwrap_or(false));
        let mut coverage = json!({
            "evaluations": st.evaluations,
            "cases": st.cases,
            "distinct_nontrivial": st.nontrivial.len(),
            "rule": *self.rule.lock().unwrap(),
            "samples": samples,
            "classes": st.labels,
            "subchecks": st.subs,
            "exhaustive": all_exh,
            "exhaustive_parts": *self.exhaustive_parts.lock().unwrap(),
            "excluded_known": excluded,
            "known_findings_hit": known,
            "violations_detail": viol.iter().map(|v| json!({"sub": v.sub, "signature": v.sig, "message": v.msg, "replay": v.replay})).collect::<Vec<_>>(),
            "inconclusive": *inc,
        });
        for (k, v) in self.extra.lock().unwrap().iter() {
            coverage[k] = v.clone();
        }
        let ev = json!({
            "property_id": self.prop,
            "tier": self.tier.name(),
            "seed": self.seed as i64,
            "level": "exploration",
            "coverage": coverage,
            "assumptions": *self.assumptions.lock().unwrap(),
            "wall_s": (self.start.elapsed().as_secs_f64()*100.0).round()/100.0,
            "violations": viol.len(),
        });
        if self.only.is_none() {
            let dir = format!("{VERIF_ROOT}/evidence");
            let _ = std::fs::create_dir_all(&dir);
            let path = match std::env::var("VERIF_PART") {
                Ok(part) if !part.is_empty() => {
                    let _ = std::fs::create_dir_all(format!("{dir}/parts"));
                    format!("{dir}/parts/{}.{part}.json", self.prop)
                }
                _ => format!("{dir}/{}.json", self.prop),
            };
            let tmp = format!("{path}.tmp");
            std::fs::write(&tmp, serde_json::to_string_pretty(&ev).unwrap()).expect("write evidence");
            std::fs::rename(&tmp, &path).expect("rename evidence");
        }
        eprintln!(
            "[{}] tier={} seed={} cases={} evaluations={} distinct_nontrivial={} known_excluded={} violations={} wall={:.1}s",
            self.prop,
            self.tier.name(),
            self.seed,
            st.cases,
            st.evaluations,
            st.nontrivial.len(),
            excluded,
            viol.len(),
            self.start.elapsed().as_secs_f64()
        );
        let code = if !viol.is_empty() {
            1
        } else if !inc.is_empty() {
            for i in inc.iter() {
                println!("INCONCLUSIVE property={} {}", self.prop, i);
            }
            2
        } else {
            0
        };
        std::process::exit(code);
    }
}

fn clip(v: Value) -> Value {
    let s = v.to_string();
    if s.len() > 1500 {
        let mut cut = 1500;
        while !s.is_char_boundary(cut) {
            cut -= 1;
        }
        Value::String(format!("{}…(clipped, {} bytes)", &s[..cut], s.len()))
    } else {
        v
    }
}

fn load_known(prop: &str) -> Vec<KnownFinding> {
    let path = format!("{VERIF_ROOT}/known_findings.json");
    let Ok(text) = std::fs::read_to_string(&path) else {
        return vec![];
    };
    let Ok(v) = serde_json::from_str::<Value>(&text) else {
        eprintln!("warning: cannot parse {path}");
        return vec![];
    };
    let mut out = vec![];
    if let Some(arr) = v["findings"].as_array() {
        for f in arr {
            if f["property"].as_str() == Some(prop) {
                out.push(KnownFinding {
                    property: prop.to_string(),
                    signature: f["signature"].as_str().unwrap_or("").to_string(),
                    what: f["what"].as_str().unwrap_or("").to_string(),
                    status: f["status"].as_str().unwrap_or("open").to_string(),
                });
            }
        }
    }
    out
}

/// One sub-check of a property binary.
pub struct Sub {
    pub name: &'static str,
    pub run: fn(&Ctx),
    /// re-run one saved case through the same oracle, bypassing proptest
    pub replay: fn(&Ctx, &Value) -> Option<CheckResult>,
}

/// Shared `main` of all property binaries.
pub fn main(prop: &'static str, rule: &str, assumptions: &[&str], subs: &[Sub], post: fn(&Ctx)) -> ! {
    install_panic_hook();
    let (ctx, replay) = Ctx::from_env(prop);
    ctx.set_rule(rule);
    for a in assumptions {
        ctx.assume(a);
    }
    // watchdog: a hang is "inconclusive" (exit 2), never a violation
    let limit = std::env::var("VERIF_WATCHDOG_S")
        .ok()
        .and_then(|s| s.parse::<u64>().ok())
        .unwrap_or(ctx.tier.pick(1500, 6 * 3600));
    std::thread::spawn(move || {
        std::thread::sleep(std::time::Duration::from_secs(limit));
        println!("INCONCLUSIVE property={prop} watchdog after {limit}s");
        std::process::exit(2);
    });
    if let Some(path) = replay {
        let text = std::fs::read_to_string(&path).expect("read replay file");
        let doc: Value = serde_json::from_str(&text).expect("replay file is JSON");
        let subname = doc["sub"].as_str().unwrap_or("");
        let Some(sub) = subs.iter().find(|s| s.name == subname) else {
            eprintln!("unknown sub-check '{subname}' in replay file");
            std::process::exit(2);
        };
        match (sub.replay)(&ctx, &doc["case"]) {
            Some(Ok(())) => {
                println!("replay {}: property holds on this case", path.display());
                std::process::exit(0);
            }
            Some(Err(f)) => {
                if let Some(k) = ctx.is_known_open(&f.sig) {
                    println!("KNOWN-FINDING: property={} {} [signature {}]", prop, k.what, k.signature);
                    println!("  detail: {}", f.msg);
                    std::process::exit(0);
                }
                println!("VIOLATION property={} replay={}", prop, path.display());
                println!("  signature: {}\n  detail: {}", f.sig, f.msg);
                std::process::exit(1);
            }
            None => std::process::exit(2),
        }
    }
    // regression tier: every committed replay of this property (known findings and fixed ones)
    let kdir = format!("{VERIF_ROOT}/regressions/{prop}");
    if let Ok(rd) = std::fs::read_dir(&kdir) {
        let mut files: Vec<_> = rd.filter_map(|e| e.ok()).map(|e| e.path()).collect();
        files.sort();
        let mut n = 0u64;
        for p in files {
            if p.extension().and_then(|e| e.to_str()) != Some("json") {
                continue;
            }
            let Ok(text) = std::fs::read_to_string(&p) else { continue };
            let Ok(doc) = serde_json::from_str::<Value>(&text) else { continue };
            let subname = doc["sub"].as_str().unwrap_or("");
            // a property checked by several binaries shares one directory: files name their part
            if let Some(part) = doc["part"].as_str() {
                if std::env::var("VERIF_PART").map(|p| p != part).unwrap_or(false) {
                    continue;
                }
            }
            let Some(sub) = subs.iter().find(|s| s.name == subname) else {
                ctx.inconclusive(format!("regression file {} names unknown sub-check", p.display()));
                continue;
            };
            if !ctx.wants(subname) {
                continue;
            }
            n += 1;
            match (sub.replay)(&ctx, &doc["case"]) {
                Some(Ok(())) => {}
                Some(Err(f)) => {
                    if let Some(k) = ctx.is_known_open(&f.sig) {
                        ctx.known_hit(k, &|| doc["case"].clone());
                    } else {
                        println!("VIOLATION property={} replay={}", prop, p.display());
                        println!("  sub-check: {subname} (regression)\n  signature: {}\n  detail: {}", f.sig, f.msg);
                        ctx.violations.lock().unwrap().push(Violation {
                            sub: subname.to_string(),
                            sig: f.sig,
                            msg: f.msg,
                            replay: p.display().to_string(),
                        });
                    }
                }
                None => ctx.inconclusive(format!("regression file {} cannot be decoded", p.display())),
            }
        }
        ctx.extra("regressions_replayed", json!(n));
    }
    // run functions filter by name themselves (run_prop / run_enum consult `--only`)
    for s in subs {
        (s.run)(&ctx);
    }
    post(&ctx);
    ctx.finish()
}

/// Helper for drawing one value out of a strategy (used to build fixed corpora from a seed).
pub fn draw<S: Strategy>(s: &S, seed: u64) -> S::Value {
    let mut r = TestRunner::new(Config {
        rng_seed: RngSeed::Fixed(seed),
        failure_persistence: None,
        ..Config::default()
    });
    s.new_tree(&mut r).unwrap().current()
}

/// Monotone index mapping (keeps shrinking convergent): maps a u16 onto 0..len.
pub fn idx(i: u16, len: usize) -> usize {
    if len == 0 {
        0
    } else {
        ((i as usize) * len) >> 16
    }
}

pub fn hexs(b: &[u8]) -> String {
    hex::encode(b)
}
pub fn unhex(s: &str) -> Vec<u8> {
    hex::decode(s).unwrap_or_default()
}

/// serde helper: Vec<u8> as hex string
pub mod hexbytes {
    use serde::{Deserialize, Deserializer, Serializer};
    pub fn serialize<S: Serializer>(v: &Vec<u8>, s: S) -> Result<S::Ok, S::Error> {
        s.serialize_str(&hex::encode(v))
    }
    pub fn deserialize<'de, D: Deserializer<'de>>(d: D) -> Result<Vec<u8>, D::Error> {
        let s = String::deserialize(d)?;
        hex::decode(s).map_err(serde::de::Error::custom)
    }
}
