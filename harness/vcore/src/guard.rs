//! Guard-page buffers: a byte string is placed so that the byte right after it (and the byte
//! right before the page-aligned region) is inaccessible. Any read or write outside the exact
//! slice faults; the SIGSEGV handler writes the current case as a replay file and prints the
//! VIOLATION line (async-signal-safe calls only), then `_exit(1)`.

use std::sync::atomic::{AtomicBool, AtomicPtr, AtomicUsize, Ordering};

const PAGE: usize = 4096;

pub struct GuardBuf {
    base: *mut u8,
    map_len: usize,
    data: *mut u8,
    len: usize,
}
unsafe impl Send for GuardBuf {}

impl GuardBuf {
    /// Allocates room for up to `cap` bytes, followed by a PROT_NONE page and preceded by one.
    pub fn with_capacity(cap: usize) -> GuardBuf {
        let pages = cap.div_ceil(PAGE).max(1);
        let map_len = (pages + 2) * PAGE;
        unsafe {
            let base = libc::mmap(
                std::ptr::null_mut(),
                map_len,
                libc::PROT_READ | libc::PROT_WRITE,
                libc::MAP_PRIVATE | libc::MAP_ANONYMOUS,
                -1,
                0,
            );
            assert!(base != libc::MAP_FAILED, "mmap failed");
            let base = base as *mut u8;
            assert_eq!(libc::mprotect(base as *mut _, PAGE, libc::PROT_NONE), 0);
            assert_eq!(
                libc::mprotect(base.add((pages + 1) * PAGE) as *mut _, PAGE, libc::PROT_NONE),
                0
            );
            GuardBuf {
                base,
                map_len,
                data: base.add(PAGE),
                len: 0,
            }
        }
    }

    fn cap(&self) -> usize {
        self.map_len - 2 * PAGE
    }

    /// Places `bytes` so that the first byte after them is the guard page ("tail" mode).
    pub fn place_tail(&mut self, bytes: &[u8]) -> &mut [u8] {
        assert!(bytes.len() <= self.cap());
        unsafe {
            let end = self.base.add(self.map_len - PAGE);
            self.data = end.sub(bytes.len());
            self.len = bytes.len();
            std::ptr::copy_nonoverlapping(bytes.as_ptr(), self.data, bytes.len());
            std::slice::from_raw_parts_mut(self.data, self.len)
        }
    }

    /// Places `bytes` right after the leading guard page ("head" mode): underflow faults.
    pub fn place_head(&mut self, bytes: &[u8]) -> &mut [u8] {
        assert!(bytes.len() <= self.cap());
        unsafe {
            self.data = self.base.add(PAGE);
            self.len = bytes.len();
            std::ptr::copy_nonoverlapping(bytes.as_ptr(), self.data, bytes.len());
            std::slice::from_raw_parts_mut(self.data, self.len)
        }
    }

    pub fn slice(&self) -> &[u8] {
        unsafe { std::slice::from_raw_parts(self.data, self.len) }
    }
}
impl Drop for GuardBuf {
    fn drop(&mut self) {
        unsafe {
            libc::munmap(self.base as *mut _, self.map_len);
        }
    }
}

// ---- fault reporting -------------------------------------------------------------------------

const SLOT: usize = 1 << 19;
const NSLOTS: usize = 64;
static CASE_BUF: AtomicPtr<u8> = AtomicPtr::new(std::ptr::null_mut());
static CASE_LEN: [AtomicUsize; NSLOTS] = [const { AtomicUsize::new(0) }; NSLOTS];
static NEXT_SLOT: AtomicUsize = AtomicUsize::new(0);
thread_local! {
    static MY_SLOT: std::cell::Cell<usize> = const { std::cell::Cell::new(usize::MAX) };
}
static PATH_BUF: AtomicPtr<u8> = AtomicPtr::new(std::ptr::null_mut());
static LINE_BUF: AtomicPtr<u8> = AtomicPtr::new(std::ptr::null_mut());
static LINE_LEN: AtomicUsize = AtomicUsize::new(0);
static INSTALLED: AtomicBool = AtomicBool::new(false);

extern "C" fn on_fault(_sig: libc::c_int) {
    unsafe {
        let path = PATH_BUF.load(Ordering::Relaxed);
        let slot = MY_SLOT.with(|s| s.get());
        let mut case = CASE_BUF.load(Ordering::Relaxed);
        let mut n = 0;
        if slot < NSLOTS && !case.is_null() {
            case = case.add(slot * SLOT);
            n = CASE_LEN[slot].load(Ordering::Relaxed);
        }
        if !path.is_null() && !case.is_null() {
            let fd = libc::open(
                path as *const libc::c_char,
                libc::O_WRONLY | libc::O_CREAT | libc::O_TRUNC,
                0o644,
            );
            if fd >= 0 {
                libc::write(fd, case as *const _, n);
                libc::close(fd);
            }
        }
        let line = LINE_BUF.load(Ordering::Relaxed);
        let ll = LINE_LEN.load(Ordering::Relaxed);
        if !line.is_null() {
            libc::write(1, line as *const _, ll);
        }
        libc::_exit(1);
    }
}

/// Installs the SIGSEGV/SIGBUS handler; `set_current_case` keeps one slot per thread.
pub fn install_fault_handler(prop: &str, sub: &str) {
    if INSTALLED.swap(true, Ordering::SeqCst) {
        return;
    }
    let dir = format!("{}/replays/{}", crate::VERIF_ROOT, prop);
    let _ = std::fs::create_dir_all(&dir);
    let path = format!("{dir}/{sub}-memory-fault-{}.json\0", std::process::id());
    let line = format!(
        "VIOLATION property={prop} replay={}\n  signature: memory-fault (access outside the exact buffer)\n",
        &path[..path.len() - 1]
    );
    let pb = Box::leak(path.into_bytes().into_boxed_slice());
    PATH_BUF.store(pb.as_mut_ptr(), Ordering::SeqCst);
    let lb = Box::leak(line.into_bytes().into_boxed_slice());
    LINE_LEN.store(lb.len(), Ordering::SeqCst);
    LINE_BUF.store(lb.as_mut_ptr(), Ordering::SeqCst);
    let cb = Box::leak(vec![0u8; SLOT * NSLOTS].into_boxed_slice());
    CASE_BUF.store(cb.as_mut_ptr(), Ordering::SeqCst);
    unsafe {
        // alternate stack so that the handler also runs on stack overflow
        let ss = libc::stack_t {
            ss_sp: Box::leak(vec![0u8; 1 << 16].into_boxed_slice()).as_mut_ptr() as *mut _,
            ss_flags: 0,
            ss_size: 1 << 16,
        };
        libc::sigaltstack(&ss, std::ptr::null_mut());
        let mut sa: libc::sigaction = std::mem::zeroed();
        sa.sa_sigaction = on_fault as *const () as usize;
        sa.sa_flags = libc::SA_ONSTACK;
        libc::sigaction(libc::SIGSEGV, &sa, std::ptr::null_mut());
        libc::sigaction(libc::SIGBUS, &sa, std::ptr::null_mut());
    }
}

/// Records the replay document of the case about to be executed (what the handler will write).
pub fn set_current_case(doc: &str) {
    let p = CASE_BUF.load(Ordering::Relaxed);
    if p.is_null() {
        return;
    }
    let slot = MY_SLOT.with(|s| {
        if s.get() == usize::MAX {
            s.set(NEXT_SLOT.fetch_add(1, Ordering::Relaxed) % NSLOTS);
        }
        s.get()
    });
    let n = doc.len().min(SLOT);
    unsafe {
        std::ptr::copy_nonoverlapping(doc.as_ptr(), p.add(slot * SLOT), n);
    }
    CASE_LEN[slot].store(n, Ordering::Relaxed);
}
