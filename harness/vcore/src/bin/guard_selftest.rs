//! Self-test of the guard-page machinery: reads one byte past a tail-placed buffer and expects
//! the fault handler to print a VIOLATION line and exit(1). Usage: guard_selftest [tail|head|ok]
use vcore::guard::{GuardBuf, install_fault_handler, set_current_case};
fn main() {
    let mode = std::env::args().nth(1).unwrap_or("tail".into());
    install_fault_handler("SELFTEST", "guard");
    set_current_case("{\"selftest\":true}");
    let mut gb = GuardBuf::with_capacity(8192);
    let data = vec![7u8; 100];
    match mode.as_str() {
        "tail" => {
            let s = gb.place_tail(&data);
            let p = s.as_ptr();
            let v = unsafe { std::ptr::read_volatile(p.add(100)) };
            println!("no fault?! read {v}");
        }
        "head" => {
            let s = gb.place_head(&data);
            let p = s.as_ptr();
            let v = unsafe { std::ptr::read_volatile(p.sub(1)) };
            println!("no fault?! read {v}");
        }
        _ => {
            let s = gb.place_tail(&data);
            let v = unsafe { std::ptr::read_volatile(s.as_ptr().add(99)) };
            println!("in-bounds read ok {v}");
        }
    }
}
