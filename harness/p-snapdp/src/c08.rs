//! C08 — SNAP ingress filter: no spoofed source and no unsupported path type enters SCION.
//!
//! The gateway's decision for one datagram received through a client's tunnel
//! (`gateway::verif::ingress_outcome` = `inbound_datagram_check` + `create_scmp_error` with the
//! arguments of the receive loop) is compared with a decision procedure written from the property
//! text on top of the independent header decoder `refmodel::wire`.

use std::net::{IpAddr, Ipv4Addr, Ipv6Addr};

use p_sciparse::spec::{self as sp, PathSpec, PayloadSpec, PktSpec};
use proptest::prelude::*;
use refmodel::wire::{self as rw, RHeader, RPath, RStd};
use sciparse::{address::host_addr::ScionHostAddr, core::view::View as _, packet::view::ScionPacketView};
use serde::{Deserialize, Serialize};
use snap_dataplane::tunnel_gateway::gateway::verif::{IngressOutcome, SEND_BUF_SIZE, ingress_outcome};
use vcore::{CheckResult, Ctx, Fail, Obs, Sub, ensure};

/// Jumbo buffer size of the gateway (quantifier of the property).
const MAX_DGRAM: usize = 9216;

// ------------------------------------------------------------------------------------- case model

#[derive(Clone, Copy, Debug, PartialEq, Eq, Hash, Serialize, Deserialize)]
enum Ip {
    V4([u8; 4]),
    V6([u8; 16]),
}
impl Ip {
    fn to_std(self) -> IpAddr {
        match self {
            Ip::V4(o) => IpAddr::V4(Ipv4Addr::from(o)),
            Ip::V6(o) => IpAddr::V6(Ipv6Addr::from(o)),
        }
    }
    fn bytes(&self) -> &[u8] {
        match self {
            Ip::V4(o) => o,
            Ip::V6(o) => o,
        }
    }
}

fn mapped(v4: [u8; 4]) -> [u8; 16] {
    let mut o = [0u8; 16];
    o[10] = 0xff;
    o[11] = 0xff;
    o[12..].copy_from_slice(&v4);
    o
}

/// How the tunnel peer's address relates to the source host field of the (final) datagram.
/// Resolved by the generator side (`resolve_peer`), never used by the oracle.
#[derive(Clone, Copy, Debug, PartialEq, Eq, Hash, Serialize, Deserialize)]
enum PeerRel {
    /// the IP address spelled by the source host bytes (4 -> v4, 16 -> v6, 8/12 -> v4 of the first four)
    Same,
    /// source host bytes zero-padded / cut to 16 bytes, as IPv6
    SamePadV6,
    /// `Same` with one bit flipped (index mapped onto the address bits)
    BitOff(u16),
    /// other address family built from the same bytes: 0 = leading bytes, 1 = trailing bytes
    OtherFamily(u8),
    /// the IPv4-mapped IPv6 form of an IPv4 source, or the IPv4 address inside a 16-byte source
    Mapped,
    /// unrelated fixed address
    Fixed(Ip),
}

/// Field-directed mutations of exactly the bytes the decision depends on.
#[derive(Clone, Debug, PartialEq, Eq, Hash, Serialize, Deserialize)]
enum Mut {
    /// byte 9: DT/DL/ST/SL
    AddrTypeByte(u8),
    /// byte 8
    PathType(u8),
    /// byte 5
    HdrLen(u8),
    HdrLenDelta(i8),
    /// bytes 6..8
    PayloadLen(u16),
    PayloadLenDelta(i8),
    /// high nibble of byte 0
    Version(u8),
    /// xor one byte of the source host field (position mapped onto the field)
    SrcHostXor { pos: u16, mask: u8 },
    /// rewrite a 16-byte source host as ::ffff:<its last four bytes>
    SrcMakeMapped,
    /// any byte of the header region
    HeaderByte { pos: u16, val: u8 },
    /// set HdrLen to the length the reference decoder computes from the other fields
    FixHdrLen,
    /// keep only a prefix (fraction of the length)
    Truncate(u16),
    TruncateAt(usize),
    /// trailing bytes after the packet
    Append { len: u16, seed: u64 },
}

#[derive(Clone, Debug, Serialize, Deserialize)]
enum Base {
    /// packet spec encoded with the SUT encoder (`sut_enc`) or the reference encoder
    Spec { spec: Box<PktSpec>, sut_enc: bool },
    /// literal bytes followed by `tail_len` deterministic filler bytes
    Bytes {
        #[serde(with = "vcore::hexbytes")]
        head: Vec<u8>,
        tail_len: usize,
        tail_seed: u64,
    },
}

#[derive(Clone, Debug, Serialize, Deserialize)]
struct Case {
    base: Base,
    muts: Vec<Mut>,
    peer: PeerRel,
    /// local address of the gateway socket (source of the SCMP reply)
    local: Ip,
}

// ------------------------------------------------------------------ generator side: materialising

fn expected_path(spec: &PathSpec) -> RPath {
    match spec {
        PathSpec::Empty => RPath::Empty,
        PathSpec::Std { curr_inf, curr_hf, segs } => {
            let mut seg_len = [0u8; 3];
            let mut infos = vec![];
            let mut hops = vec![];
            for (i, s) in segs.iter().enumerate().take(3) {
                seg_len[i] = s.hops.len() as u8;
                infos.push(s.info);
                hops.extend(s.hops.iter().copied());
            }
            RPath::Std(RStd { curr_inf: *curr_inf, curr_hf: *curr_hf, rsv: 0, seg_len, infos, hops })
        }
        PathSpec::OneHop { info, hops } => RPath::OneHop { info: *info, hops: *hops },
        PathSpec::Unsupported { ty, data } => RPath::Other { ty: *ty, data: data.clone() },
    }
}

/// Reference encoding of a spec: header by `refmodel::wire::encode_header`, upper layer built here
/// (UDP / SCMP headers with an RFC 1071 checksum from refmodel).
fn ref_encode(spec: &PktSpec) -> Vec<u8> {
    let (dtl, dhost) = spec.dst_host.wire();
    let (stl, shost) = spec.src_host.wire();
    let (next, mut l4): (u8, Vec<u8>) = match &spec.payload {
        PayloadSpec::Raw { next, len } => (*next, sp::fill((*len).min(MAX_DGRAM), spec.seed)),
        PayloadSpec::Udp { src_port, dst_port, len } => {
            let len = (*len).min(MAX_DGRAM);
            let mut m = vec![];
            m.extend_from_slice(&src_port.to_be_bytes());
            m.extend_from_slice(&dst_port.to_be_bytes());
            m.extend_from_slice(&((8 + len) as u16).to_be_bytes());
            m.extend_from_slice(&[0, 0]);
            m.extend_from_slice(&sp::fill(len, spec.seed));
            (rw::UDP_PROTO, m)
        }
        PayloadSpec::Scmp(s) => {
            let mut m = vec![s.wire_type(), s.code(), 0, 0];
            m.extend_from_slice(&s.fixed_bytes());
            let mut tail = s.tail_len().min(MAX_DGRAM);
            if s.is_error() {
                tail = tail.min(rw::SCMP_ERROR_MAX.saturating_sub(spec.header_len() + m.len()));
            }
            m.extend_from_slice(&sp::fill(tail, spec.seed));
            (rw::SCMP_PROTO, m)
        }
    };
    let h = RHeader {
        version: 0,
        tc: spec.tc,
        flow: spec.flow & 0xfffff,
        next,
        hdr_units: (spec.header_len() / 4) as u8,
        payload_len: l4.len().min(65535) as u16,
        path_type: spec.path.wire_type(),
        dst_tl: dtl,
        src_tl: stl,
        rsv: 0,
        dst_ia: spec.dst_ia,
        src_ia: spec.src_ia,
        dst_host: dhost,
        src_host: shost,
        path: expected_path(&spec.path),
    };
    match next {
        rw::UDP_PROTO => {
            let c = rw::compute_checksum(&h, next, &l4, 6);
            l4[6..8].copy_from_slice(&c.to_be_bytes());
        }
        rw::SCMP_PROTO => {
            let c = rw::compute_checksum(&h, next, &l4, 2);
            l4[2..4].copy_from_slice(&c.to_be_bytes());
        }
        _ => {}
    }
    let mut b = rw::encode_header(&h);
    b.extend_from_slice(&l4);
    b
}

/// (offset, length) of the source host field as laid out by byte 9, if the buffer holds it.
fn src_field(d: &[u8]) -> Option<(usize, usize)> {
    let tl = *d.get(9)?;
    let dl = rw::host_len(tl >> 4);
    let sl = rw::host_len(tl & 0x0f);
    let off = 28 + dl;
    (d.len() >= off + sl).then_some((off, sl))
}

fn apply(d: &mut Vec<u8>, m: &Mut) {
    let set = |d: &mut Vec<u8>, i: usize, v: u8| {
        if let Some(b) = d.get_mut(i) {
            *b = v;
        }
    };
    match m {
        Mut::AddrTypeByte(v) => set(d, 9, *v),
        Mut::PathType(v) => set(d, 8, *v),
        Mut::HdrLen(v) => set(d, 5, *v),
        Mut::HdrLenDelta(dl) => {
            if let Some(b) = d.get(5).copied() {
                d[5] = b.wrapping_add(*dl as u8);
            }
        }
        Mut::PayloadLen(v) => {
            if d.len() >= 8 {
                d[6..8].copy_from_slice(&v.to_be_bytes());
            }
        }
        Mut::PayloadLenDelta(dl) => {
            if d.len() >= 8 {
                let v = u16::from_be_bytes([d[6], d[7]]).wrapping_add(*dl as i16 as u16);
                d[6..8].copy_from_slice(&v.to_be_bytes());
            }
        }
        Mut::Version(v) => {
            if let Some(b) = d.get(0).copied() {
                d[0] = (b & 0x0f) | (v << 4);
            }
        }
        Mut::SrcHostXor { pos, mask } => {
            if let Some((off, len)) = src_field(d) {
                d[off + vcore::idx(*pos, len)] ^= *mask;
            }
        }
        Mut::SrcMakeMapped => {
            if let Some((off, 16)) = src_field(d) {
                for b in &mut d[off..off + 10] {
                    *b = 0;
                }
                d[off + 10] = 0xff;
                d[off + 11] = 0xff;
            }
        }
        Mut::HeaderByte { pos, val } => {
            let hl = d.get(5).map(|u| *u as usize * 4).unwrap_or(0).clamp(12, 1020).min(d.len());
            if hl > 0 {
                let i = vcore::idx(*pos, hl);
                d[i] = *val;
            }
        }
        Mut::FixHdrLen => {
            if let Err(rw::RErr::HdrLen { computed, .. }) = rw::decode_header(d) {
                if computed % 4 == 0 && computed <= 1020 {
                    d[5] = (computed / 4) as u8;
                }
            }
        }
        Mut::Truncate(f) => {
            let n = vcore::idx(*f, d.len() + 1);
            d.truncate(n);
        }
        Mut::TruncateAt(n) => d.truncate(*n),
        Mut::Append { len, seed } => d.extend_from_slice(&sp::fill(*len as usize, *seed)),
    }
}

fn base_bytes(base: &Base) -> Vec<u8> {
    match base {
        Base::Spec { spec, sut_enc } => {
            let by_sut = if *sut_enc { spec.to_sut().try_encode_to_vec().ok() } else { None };
            by_sut.unwrap_or_else(|| ref_encode(spec))
        }
        Base::Bytes { head, tail_len, tail_seed } => {
            let mut d = head.clone();
            d.extend_from_slice(&sp::fill((*tail_len).min(MAX_DGRAM), *tail_seed));
            d
        }
    }
}

fn mutate(mut d: Vec<u8>, muts: &[Mut]) -> Vec<u8> {
    for m in muts {
        apply(&mut d, m);
    }
    d.truncate(MAX_DGRAM);
    d
}

fn materialise(c: &Case) -> Vec<u8> {
    mutate(base_bytes(&c.base), &c.muts)
}

const UNRELATED_V4: [u8; 4] = [198, 51, 100, 7];

fn resolve_peer(d: &[u8], rel: PeerRel) -> Ip {
    if let PeerRel::Fixed(ip) = rel {
        return ip;
    }
    let Some((off, len)) = src_field(d) else {
        return Ip::V4(UNRELATED_V4);
    };
    let s = &d[off..off + len];
    let first4 = || [s[0], s[1], s[2], s[3]];
    let last4 = || [s[len - 4], s[len - 3], s[len - 2], s[len - 1]];
    let pad16 = || {
        let mut o = [0u8; 16];
        o[..len].copy_from_slice(s);
        o
    };
    let same = if len == 16 { Ip::V6(pad16()) } else { Ip::V4(first4()) };
    match rel {
        PeerRel::Same => same,
        PeerRel::SamePadV6 => Ip::V6(pad16()),
        PeerRel::BitOff(i) => match same {
            Ip::V4(mut o) => {
                let bit = vcore::idx(i, 32);
                o[bit / 8] ^= 0x80 >> (bit % 8);
                Ip::V4(o)
            }
            Ip::V6(mut o) => {
                let bit = vcore::idx(i, 128);
                o[bit / 8] ^= 0x80 >> (bit % 8);
                Ip::V6(o)
            }
        },
        PeerRel::OtherFamily(v) => match (len, v & 1) {
            (16, 0) => Ip::V4(first4()),
            (16, _) => Ip::V4(last4()),
            (_, 0) => Ip::V6(pad16()),
            (..) => {
                let mut o = [0u8; 16];
                o[12..].copy_from_slice(&first4());
                Ip::V6(o)
            }
        },
        PeerRel::Mapped => {
            if len == 16 {
                Ip::V4(last4())
            } else {
                Ip::V6(mapped(first4()))
            }
        }
        PeerRel::Fixed(ip) => ip,
    }
}

// ------------------------------------------------------------------------------------- the oracle

#[derive(Clone, Copy, Debug, PartialEq, Eq)]
enum Want {
    Dispatch,
    /// must not be dispatched; the string names the failed clause
    Reject(&'static str),
    /// the statement leaves this open: either verdict is allowed (labelled and counted)
    Either(&'static str),
}

struct Decision {
    want: Want,
    /// reference header, when the datagram parses
    hdr: Option<RHeader>,
}

/// The decision procedure of the property text: dispatch iff (1) the datagram parses as a SCION
/// packet, (2) its source host is an IPv4/IPv6 address equal to the tunnel peer's address, (3) the
/// path type is empty (0) or standard SCION (1).
fn decide(d: &[u8], peer: Ip) -> Decision {
    let Ok(h) = rw::decode_header(d) else {
        return Decision { want: Want::Reject("malformed"), hdr: None };
    };
    // (2) address type table of the SCION header: T=0,L=0 is IPv4, T=0,L=3 is IPv6
    let src: Option<Ip> = match h.src_tl {
        0b0000 => Some(Ip::V4(h.src_host[..].try_into().unwrap())),
        0b0011 => Some(Ip::V6(h.src_host[..].try_into().unwrap())),
        _ => None,
    };
    let path_ok = matches!(h.path_type, 0 | 1);
    let want = match src {
        None => Want::Reject("src-not-ip"),
        Some(src) => {
            let mapped_eq = match (src, peer) {
                (Ip::V4(a), Ip::V6(b)) | (Ip::V6(b), Ip::V4(a)) => mapped(a) == b,
                _ => false,
            };
            if src != peer && !mapped_eq {
                Want::Reject("src-ne-peer")
            } else if !path_ok {
                Want::Reject("path-type")
            } else if mapped_eq {
                // the property does not fix whether a.b.c.d and ::ffff:a.b.c.d are "equal"
                Want::Either("v4-vs-v4-mapped")
            } else if d.len() < h.header_len() + h.payload_len as usize {
                // "parses as a SCION packet": header complete, payload shorter than PayloadLen
                Want::Either("payload-shorter-than-PayloadLen")
            } else if d.len() > h.header_len() + h.payload_len as usize {
                Want::Either("trailing-bytes")
            } else if odd_std_path(&h) {
                // structurally parseable standard path that no router would forward
                Want::Either("std-path-odd")
            } else {
                Want::Dispatch
            }
        }
    };
    Decision { want, hdr: Some(h) }
}

/// standard path whose meta header is inconsistent (no segment, gap in the segment lengths,
/// current pointers outside): parses by length, semantic validity is not part of the statement
fn odd_std_path(h: &RHeader) -> bool {
    match &h.path {
        RPath::Std(p) => {
            let nz = p.seg_len.iter().take_while(|l| **l > 0).count();
            nz == 0 || p.seg_len.iter().skip(nz).any(|l| *l > 0) || p.curr_inf as usize >= nz || p.curr_hf as usize >= p.hops.len()
        }
        _ => false,
    }
}

fn src_class(tl: u8) -> &'static str {
    match tl {
        0b0000 => "v4",
        0b0011 => "v6",
        0b0100 => "svc",
        _ => match tl & 3 {
            0 => "unknown4",
            1 => "unknown8",
            2 => "unknown12",
            _ => "unknown16",
        },
    }
}
fn path_class(t: u8) -> &'static str {
    match t {
        0 => "empty",
        1 => "standard",
        2 => "onehop",
        3 => "epic",
        4 => "colibri",
        _ => "other",
    }
}

/// Checks the SCMP reply produced for a rejected datagram.
fn check_reply(d: &[u8], peer: Ip, local: Ip, dec: &Decision, reply: &[u8], obs: &mut Obs) -> CheckResult {
    ensure!(reply.len() <= SEND_BUF_SIZE, "scmp-reply:exceeds-send-buffer", "reply of {} bytes does not fit the {SEND_BUF_SIZE}-byte send buffer", reply.len());
    ensure!(reply.len() <= rw::SCMP_ERROR_MAX, "scmp-reply:over-1232", "SCMP error reply is {} bytes (> 1232) for a {}-byte datagram", reply.len(), d.len());
    let h = rw::decode_header(reply).map_err(|e| Fail::new("scmp-reply:does-not-parse", format!("independent decoder rejects the reply: {e:?}; reply {}", vcore::hexs(&reply[..reply.len().min(80)]))))?;
    let hl = h.header_len();
    ensure!(hl + h.payload_len as usize == reply.len(), "scmp-reply:payloadlen-untruthful", "reply has {} bytes, header {hl} + PayloadLen {}", reply.len(), h.payload_len);
    ensure!(h.next == rw::SCMP_PROTO, "scmp-reply:not-scmp", "reply next header {} != 202", h.next);
    let l4 = &reply[hl..];
    let m = rw::decode_scmp(l4).ok_or_else(|| Fail::new("scmp-reply:scmp-header-missing", "reply shorter than an SCMP header"))?;
    ensure!(m.ty == 4, "scmp-reply:not-parameter-problem", "reply is SCMP type {} code {}, not ParameterProblem (4)", m.ty, m.code);
    let quote = m.tail().ok_or_else(|| Fail::new("scmp-reply:fixed-part-missing", "ParameterProblem without reserved/pointer"))?;
    // addressed to the tunnel peer
    let want_tl = match peer {
        Ip::V4(_) => 0b0000,
        Ip::V6(_) => 0b0011,
    };
    ensure!(h.dst_tl == want_tl && h.dst_host == peer.bytes(), "scmp-reply:not-addressed-to-peer", "reply destination type {:#06b} host {:02x?}, peer {:?}", h.dst_tl, h.dst_host, peer.to_std());
    if h.src_host == local.bytes() {
        obs.label("reply:src-is-local-addr");
    }
    // quoted bytes: a prefix of the offending datagram, as long as the 1232-byte budget allows.
    // The offending packet is the datagram; when it parses, the SCION packet inside it (header +
    // PayloadLen bytes) is an equally valid reading if the datagram has trailing bytes.
    ensure!(quote.len() <= d.len() && quote == &d[..quote.len()], "scmp-reply:quote-not-a-prefix", "the {} quoted bytes are not a prefix of the {}-byte datagram", quote.len(), d.len());
    let budget = rw::SCMP_ERROR_MAX - hl - 8;
    let mut allowed = vec![d.len().min(budget)];
    if let Some(oh) = &dec.hdr {
        allowed.push((oh.header_len() + oh.payload_len as usize).min(d.len()).min(budget));
    }
    ensure!(allowed.contains(&quote.len()), "scmp-reply:quote-not-maximal", "quoted {} bytes of a {}-byte datagram; reply header {hl} bytes leaves a budget of {budget} (expected one of {allowed:?})", quote.len(), d.len());
    if d.len() > budget {
        obs.label("reply:quote-truncated-to-budget");
    }
    if d.len() + 8 + hl >= rw::SCMP_ERROR_MAX - 2 && d.len() + 8 + hl <= rw::SCMP_ERROR_MAX + 2 {
        obs.label("reply:datagram-at-budget-boundary");
    }
    ensure!(rw::checksum_verifies(&h, rw::SCMP_PROTO, l4), "scmp-reply:checksum-does-not-verify",
        "SCMP checksum {:#06x} does not verify over pseudo-header||message (expected {:#06x}); quote {} bytes", m.checksum, rw::compute_checksum(&h, rw::SCMP_PROTO, l4, 2), quote.len());
    obs.label(format!("reply:code-{}", m.code));
    // informational (the property does not constrain the pointer): does it point into the quote?
    let pointer = u16::from_be_bytes([m.body[2], m.body[3]]) as usize;
    if pointer >= quote.len() && !(pointer == 0 && quote.is_empty()) {
        obs.label("reply:pointer-beyond-quoted-bytes");
    }
    obs.label(if matches!(peer, Ip::V4(_)) { "reply:to-v4-peer" } else { "reply:to-v6-peer" });
    // C14 (no error loops): a datagram that carries an SCMP error message (type < 128, assigned
    // or not) is never answered. Judged in the C14 run of this binary (part "gateway").
    if let Some(oh) = &dec.hdr {
        if oh.next == rw::SCMP_PROTO && oh.payload_len >= 1 && d.get(oh.header_len()).is_some_and(|t| *t < 128) {
            obs.label("reply:to-an-scmp-error-datagram");
            // a datagram the gateway cannot parse as a SCION packet at all (answered with code 16,
            // invalid common header) cannot be recognised as an SCMP error either: not claimed
            ensure!(!as_c14() || m.code == 16, format!("scmp-reply:to-an-scmp-error-datagram:type-{}", if matches!(d[oh.header_len()], 1 | 2 | 4 | 5 | 6) { "assigned" } else { "unassigned" }), "the gateway answered a rejected datagram that carries SCMP error type {} with an SCMP error", d[oh.header_len()]);
        }
    }
    Ok(())
}

/// What the receive loop does with an accepted view (observer metadata + what is dispatched).
fn touch_dispatched(d: &[u8], h: Option<&RHeader>) -> CheckResult {
    let r = vcore::no_panic("dispatch-path", || {
        let (view, _rest) = <ScionPacketView>::try_from_slice(d).ok()?;
        let hd = view.header();
        let _ = (hd.src_ia(), hd.dst_ia());
        let n = hd.header_len() as usize + view.payload().len();
        Some((n, view.as_slice().to_vec()))
    })?;
    if let (Some((n, bytes)), Some(h)) = (r, h) {
        let want = (h.header_len() + h.payload_len as usize).min(d.len());
        ensure!(bytes.len() <= d.len() && bytes[..] == d[..bytes.len()], "dispatched-bytes-not-a-prefix", "dispatched view is not a prefix of the datagram");
        ensure!(bytes.len() == want && n == want, "dispatched-length-differs", "dispatched {} bytes (meta says {n}), header+PayloadLen (clipped to the datagram) is {want}", bytes.len());
    }
    Ok(())
}

fn check_dgram(d: &[u8], peer: Ip, local: Ip, obs: &mut Obs) -> CheckResult {
    let dec = decide(d, peer);
    let local_sut = ScionHostAddr::from(local.to_std());
    let out = vcore::no_panic("ingress_outcome", || ingress_outcome(d, peer.to_std(), local_sut))?;
    if let Some(h) = &dec.hdr {
        obs.nontrivial(&(vcore::hash64(d), peer));
        obs.label(format!("parsed:src-{}", src_class(h.src_tl)));
        obs.label(format!("parsed:path-{}", path_class(h.path_type)));
    }
    let dispatched = matches!(out, IngressOutcome::Dispatch);
    match dec.want {
        Want::Dispatch => {
            obs.label("want:dispatch");
            ensure!(dispatched, "valid-packet-rejected", "datagram parses, source host equals the peer {:?}, path type {} — but it was not dispatched ({out:?})", peer.to_std(), dec.hdr.as_ref().map(|h| h.path_type).unwrap_or(0));
        }
        Want::Reject(why) => {
            obs.label(format!("want:reject:{why}"));
            let detail = dec.hdr.as_ref().map(|h| format!("{}/{}", src_class(h.src_tl), path_class(h.path_type))).unwrap_or_default();
            let sig = match (why, dec.hdr.as_ref()) {
                ("src-not-ip", Some(h)) => format!("dispatched:src-not-ip:{}", src_class(h.src_tl)),
                ("path-type", Some(h)) => format!("dispatched:path-type:{}", path_class(h.path_type)),
                _ => format!("dispatched:{why}"),
            };
            ensure!(!dispatched, sig, "datagram must not enter SCION ({why}; {detail}; peer {:?}) but was dispatched; first bytes {}", peer.to_std(), vcore::hexs(&d[..d.len().min(64)]));
        }
        Want::Either(why) => {
            obs.label(format!("open:{why}:{}", if dispatched { "dispatched" } else { "rejected" }));
        }
    }
    match &out {
        IngressOutcome::Dispatch => touch_dispatched(d, dec.hdr.as_ref())?,
        IngressOutcome::Reply(r) => check_reply(d, peer, local, &dec, r, obs)?,
        IngressOutcome::NoReply => {
            // only SCMP error messages are rejected silently
            let is_err = dec.hdr.as_ref().map(|oh| oh.next == rw::SCMP_PROTO && oh.payload_len >= 1 && d.get(oh.header_len()).is_some_and(|t| *t < 128)).unwrap_or(false);
            ensure!(is_err, "rejected-silently-though-not-an-scmp-error", "datagram rejected without an SCMP reply although it does not carry an SCMP error message");
            obs.label("no-reply:scmp-error-datagram");
        }
        IngressOutcome::ReplyFailed(e) => {
            // "at most one": no reply is acceptable; counted so that it is visible
            obs.label("reply:failed-to-encode");
            obs.sample("reply:failed-to-encode", serde_json::json!({"error": e, "datagram_len": d.len()}));
        }
    }
    Ok(())
}

fn check_case(c: &Case, obs: &mut Obs) -> CheckResult {
    let d = materialise(c);
    let peer = resolve_peer(&d, c.peer);
    check_dgram(&d, peer, c.local, obs)
}

/// one encoded packet, several (mutation, peer relation) variants: amortises the cost of
/// generating the packet spec
#[derive(Clone, Debug, Serialize, Deserialize)]
struct MultiCase {
    base: Base,
    variants: Vec<(Vec<Mut>, PeerRel)>,
    local: Ip,
}

fn check_multi(c: &MultiCase, obs: &mut Obs) -> CheckResult {
    let d0 = base_bytes(&c.base);
    for (muts, rel) in &c.variants {
        let d = mutate(d0.clone(), muts);
        let peer = resolve_peer(&d, *rel);
        check_dgram(&d, peer, c.local, obs)?;
    }
    obs.evals(c.variants.len() as u64);
    Ok(())
}

// --------------------------------------------------------------------------------- exhaustive parts

const LOCALS: [Ip; 2] = [Ip::V4([10, 0, 0, 1]), Ip::V6([0xfd, 0, 0, 0, 0, 0, 0, 0, 0, 0, 0, 0, 0, 0, 0, 1])];

/// valid path bodies for the path kinds of the grids
fn path_body(kind: u8) -> (u8, Vec<u8>) {
    match kind {
        0 => (0, vec![]),
        1 => {
            // one segment, two hop fields
            let p = RStd {
                curr_inf: 0,
                curr_hf: 0,
                rsv: 0,
                seg_len: [2, 0, 0],
                infos: vec![rw::RInfo { flags: 1, rsv: 0, seg_id: 0x1234, ts: 0x6000_0000 }],
                hops: vec![rw::RHop { flags: 0, exp: 63, ing: 0, eg: 2, mac: [1, 2, 3, 4, 5, 6] }, rw::RHop { flags: 0, exp: 63, ing: 5, eg: 0, mac: [6, 5, 4, 3, 2, 1] }],
            };
            (1, rw::encode_std_path(&p))
        }
        2 => (2, sp::fill(32, 77)),
        _ => (5, sp::fill(16, 78)),
    }
}

fn build(tl_byte: u8, dst: &[u8], src: &[u8], path_type: u8, path: &[u8], payload: &[u8]) -> Vec<u8> {
    let h = RHeader {
        version: 0,
        tc: 0,
        flow: 1,
        next: rw::UDP_PROTO,
        hdr_units: ((28 + dst.len() + src.len() + path.len()) / 4) as u8,
        payload_len: payload.len() as u16,
        path_type,
        dst_tl: tl_byte >> 4,
        src_tl: tl_byte & 0x0f,
        rsv: 0,
        dst_ia: 0x0001_ff00_0000_0110,
        src_ia: 0x0001_ff00_0000_0111,
        dst_host: dst.to_vec(),
        src_host: src.to_vec(),
        path: RPath::Other { ty: path_type, data: path.to_vec() },
    };
    let mut b = rw::encode_header(&h);
    b.extend_from_slice(payload);
    b
}

const GRID_RELS: [PeerRel; 9] = [
    PeerRel::Same,
    PeerRel::SamePadV6,
    PeerRel::BitOff(0),
    PeerRel::BitOff(0x4fff),
    PeerRel::BitOff(0xffff),
    PeerRel::OtherFamily(0),
    PeerRel::OtherFamily(1),
    PeerRel::Mapped,
    PeerRel::Fixed(Ip::V4(UNRELATED_V4)),
];

/// all 256 DT/DL/ST/SL bytes x 4 path kinds x 9 peer relations x source fills x 2 local addresses
fn addr_grid_case(i: u64, fills: u64) -> Option<Case> {
    let tl = (i % 256) as u8;
    let mut r = i / 256;
    let kind = (r % 4) as u8;
    r /= 4;
    let rel = GRID_RELS[(r % 9) as usize];
    r /= 9;
    let local = LOCALS[(r % 2) as usize];
    r /= 2;
    let fill = r % fills;
    let dl = rw::host_len(tl >> 4);
    let sl = rw::host_len(tl & 0x0f);
    let mut src = sp::fill(sl, 1000 + fill);
    match fill {
        // 16-byte source in v4-mapped form; 8/12-byte source = an IPv4 address followed by zeros
        1 => {
            if sl == 16 {
                src[..10].fill(0);
                src[10] = 0xff;
                src[11] = 0xff;
            } else {
                src[4..].fill(0);
            }
        }
        // 16-byte source whose first and last four bytes coincide
        2 => {
            if sl == 16 {
                let (a, b) = src.split_at_mut(12);
                b.copy_from_slice(&a[..4]);
            }
        }
        _ => {}
    }
    let dst = sp::fill(dl, 2000 + fill);
    let (pt, body) = path_body(kind);
    let head = build(tl, &dst, &src, pt, &body, &sp::fill(24, 3));
    Some(Case { base: Base::Bytes { head, tail_len: 0, tail_seed: 0 }, muts: vec![], peer: rel, local })
}

/// all 256 path type bytes x 5 path bodies x {v4, v6, mapped-v6 source} x {same, other, mapped peer}
fn path_grid_case(i: u64) -> Option<Case> {
    let pt = (i % 256) as u8;
    let mut r = i / 256;
    let body = match r % 5 {
        0 => vec![],
        1 => path_body(1).1,
        2 => sp::fill(32, 5),
        3 => sp::fill(36, 6),
        _ => sp::fill(240, 7),
    };
    r /= 5;
    let (tl, src): (u8, Vec<u8>) = match r % 3 {
        0 => (0x00, vec![192, 0, 2, 9]),
        1 => (0x33, sp::fill(16, 9)),
        _ => (0x03, mapped([192, 0, 2, 9]).to_vec()),
    };
    r /= 3;
    let rel = [PeerRel::Same, PeerRel::BitOff(0xffff), PeerRel::Mapped][(r % 3) as usize];
    let dst = sp::fill(rw::host_len(tl >> 4), 11);
    let head = build(tl, &dst, &src, pt, &body, &sp::fill(8, 4));
    Some(Case { base: Base::Bytes { head, tail_len: 0, tail_seed: 0 }, muts: vec![], peer: rel, local: LOCALS[(pt & 1) as usize] })
}

/// fixed corpus of valid packets (drawn from the spec strategy with seeds derived from VERIF_SEED)
fn corpus(seed: u64, n: usize) -> Vec<Vec<u8>> {
    let strat = sp::pkt_strategy(false, false);
    let mut out = vec![];
    let mut k = 0u64;
    while out.len() < n && k < 100 * n as u64 {
        let mut spec = vcore::draw(&strat, vcore::hash64(&(seed, "c08-corpus", k)));
        k += 1;
        // keep the packets short enough for a complete truncation sweep, long enough to cross
        // the quoting budget now and then
        match &mut spec.payload {
            PayloadSpec::Raw { len, .. } | PayloadSpec::Udp { len, .. } => *len %= 1400,
            PayloadSpec::Scmp(_) => {}
        }
        if !spec.representable() {
            continue;
        }
        // rotate through the source kinds the decision distinguishes
        let sut_enc = k % 2 == 0;
        let c = Case { base: Base::Spec { spec: Box::new(spec), sut_enc }, muts: vec![], peer: PeerRel::Same, local: LOCALS[0] };
        let d = materialise(&c);
        if d.len() <= 2400 {
            out.push(d);
        }
    }
    out
}

#[derive(Clone, Debug, Serialize, Deserialize)]
struct TruncCase {
    #[serde(with = "vcore::hexbytes")]
    packet: Vec<u8>,
    cut: usize,
    peer: PeerRel,
    local: Ip,
}
fn check_trunc(c: &TruncCase, obs: &mut Obs) -> CheckResult {
    // the peer is resolved on the complete packet: the truncated datagram comes from the same client
    let peer = resolve_peer(&c.packet, c.peer);
    let d = &c.packet[..c.cut.min(c.packet.len())];
    obs.label("truncation");
    check_dgram(d, peer, c.local, obs)
}

// --------------------------------------------------------------------------------------- strategies

fn ip_strategy() -> impl Strategy<Value = Ip> {
    prop_oneof![
        3 => any::<[u8; 4]>().prop_map(Ip::V4),
        3 => any::<[u8; 16]>().prop_map(Ip::V6),
        1 => any::<[u8; 4]>().prop_map(|o| Ip::V6(mapped(o))),
        1 => Just(Ip::V4([0, 0, 0, 0])),
    ]
}

fn rel_strategy() -> impl Strategy<Value = PeerRel> {
    prop_oneof![
        10 => Just(PeerRel::Same),
        1 => Just(PeerRel::SamePadV6),
        4 => any::<u16>().prop_map(PeerRel::BitOff),
        2 => (0u8..2).prop_map(PeerRel::OtherFamily),
        3 => Just(PeerRel::Mapped),
        1 => ip_strategy().prop_map(PeerRel::Fixed),
    ]
}

fn local_strategy() -> impl Strategy<Value = Ip> {
    // the receive loop uses the socket's local IP, 0.0.0.0 when unavailable
    prop_oneof![2 => Just(Ip::V4([0, 0, 0, 0])), 3 => any::<[u8; 4]>().prop_map(Ip::V4), 3 => any::<[u8; 16]>().prop_map(Ip::V6)]
}

fn nibble_byte() -> impl Strategy<Value = u8> {
    // known encodings more often than chance: v4 0000, v6 0011, svc 0100
    let nib = || prop_oneof![3 => Just(0u8), 3 => Just(3u8), 2 => Just(4u8), 4 => 0u8..16];
    (nib(), nib()).prop_map(|(d, s)| (d << 4) | s)
}

fn mut_strategy() -> impl Strategy<Value = Vec<Mut>> {
    let one = prop_oneof![
        4 => nibble_byte().prop_map(Mut::AddrTypeByte),
        2 => any::<u8>().prop_map(Mut::AddrTypeByte),
        4 => prop_oneof![Just(0u8), Just(1), Just(2), Just(3), Just(4), any::<u8>()].prop_map(Mut::PathType),
        2 => any::<u8>().prop_map(Mut::HdrLen),
        2 => prop_oneof![Just(-1i8), Just(1), Just(-2), Just(2), any::<i8>()].prop_map(Mut::HdrLenDelta),
        2 => prop_oneof![Just(0u16), Just(u16::MAX), any::<u16>()].prop_map(Mut::PayloadLen),
        2 => prop_oneof![Just(-1i8), Just(1), any::<i8>()].prop_map(Mut::PayloadLenDelta),
        2 => (0u8..16).prop_map(Mut::Version),
        4 => (any::<u16>(), prop_oneof![Just(1u8), Just(0x80), 1u8..=255]).prop_map(|(pos, mask)| Mut::SrcHostXor { pos, mask }),
        2 => Just(Mut::SrcMakeMapped),
        3 => (any::<u16>(), any::<u8>()).prop_map(|(pos, val)| Mut::HeaderByte { pos, val }),
        2 => any::<u16>().prop_map(Mut::Truncate),
        2 => (prop_oneof![1u16..=8, 1u16..=2000], any::<u64>()).prop_map(|(len, seed)| Mut::Append { len, seed }),
    ];
    // after a mutation that changes the header geometry, usually repair HdrLen so that the
    // decision reaches the address / path stage
    prop_oneof![
        3 => Just(vec![]),
        6 => one.clone().prop_map(|m| vec![m]),
        6 => one.clone().prop_map(|m| vec![m, Mut::FixHdrLen]),
        2 => (one.clone(), one.clone()).prop_map(|(a, b)| vec![a, b, Mut::FixHdrLen]),
        1 => prop::collection::vec(one, 2..=4),
    ]
}

fn mutation_case_strategy() -> impl Strategy<Value = MultiCase> {
    (sp::pkt_strategy(false, false), any::<bool>(), prop::collection::vec((mut_strategy(), rel_strategy()), 4..=4), local_strategy())
        .prop_map(|(spec, sut_enc, variants, local)| MultiCase { base: Base::Spec { spec: Box::new(spec), sut_enc }, variants, local })
}

/// quote budget boundary: datagrams whose length is around 1232 - reply header - 8 for both reply
/// header sizes that occur (v4/v4 36, v4/v6 and v6/v4 48, v6/v6 60)
fn boundary_case_strategy() -> impl Strategy<Value = Case> {
    (sp::pkt_strategy(false, false), any::<bool>(), prop_oneof![Just(36usize), Just(48), Just(60)], -3i32..=3, rel_strategy(), local_strategy(), any::<bool>(), any::<u64>()).prop_map(
        |(mut spec, sut_enc, rh, delta, peer, local, exact_payload_len, seed)| {
            // force a raw payload so that the total length can be chosen freely
            spec.payload = PayloadSpec::Raw { next: 200, len: 0 };
            let target = (rw::SCMP_ERROR_MAX - rh - 8) as i32 + delta;
            let hl = spec.header_len() as i32;
            let mut muts = vec![];
            if target >= hl {
                let len = (target - hl) as usize;
                if exact_payload_len {
                    spec.payload = PayloadSpec::Raw { next: 200, len };
                } else {
                    muts.push(Mut::Append { len: len as u16, seed });
                    muts.push(Mut::PayloadLen(len as u16));
                }
            } else {
                muts.push(Mut::TruncateAt(target.max(0) as usize));
            }
            Case { base: Base::Spec { spec: Box::new(spec), sut_enc }, muts, peer, local }
        },
    )
}

fn random_case_strategy() -> impl Strategy<Value = Case> {
    let tail = prop_oneof![4 => 0usize..=64, 3 => 64usize..=1500, 2 => 1100usize..=1300, 2 => 1500usize..=MAX_DGRAM, 1 => Just(MAX_DGRAM)];
    let head = prop_oneof![
        1 => prop::collection::vec(any::<u8>(), 0..=12),
        4 => prop::collection::vec(any::<u8>(), 12..=96),
        // plausible common header: version 0, known address types, small path type
        5 => (any::<[u8; 4]>(), any::<[u8; 4]>(), 0u8..6, nibble_byte(), prop::collection::vec(any::<u8>(), 0..=120)).prop_map(|(a, b, pt, tl, rest)| {
            let mut h = vec![a[0] & 0x0f, a[1], a[2], a[3], b[0], b[1], b[2], b[3], pt, tl, 0, 0];
            h.extend_from_slice(&rest);
            // keep standard paths short most of the time: PathMeta sits right after the addresses
            let off = 28 + rw::host_len(tl >> 4) + rw::host_len(tl & 0x0f);
            if pt == 1 && h.len() >= off + 4 && (b[3] & 3) != 0 {
                // PathMeta: C(2) CurrHF(6) | RSV(6) Seg0(6) Seg1(6) Seg2(6): Seg0 <= 3, Seg1 = 0, Seg2 <= 3
                h[off + 1] &= 0xfc;
                h[off + 2] = (h[off + 2] & 0x03) << 4;
                h[off + 3] &= 0x03;
            }
            h
        }),
    ];
    let fix = prop_oneof![1 => Just(vec![]), 3 => Just(vec![Mut::FixHdrLen])];
    (head, tail, any::<u64>(), fix, prop_oneof![3 => Just(PeerRel::Same), 1 => rel_strategy()], local_strategy())
        .prop_map(|(head, tail_len, tail_seed, muts, peer, local)| Case { base: Base::Bytes { head, tail_len, tail_seed }, muts, peer, local })
}

// --------------------------------------------------------------------------------------------- run

// (1) exhaustive grids
fn run_addr_grid(ctx: &Ctx) {
    let fills = ctx.tier.pick(3u64, 24);
    ctx.run_enum("addr-type-grid", 256 * 4 * 9 * 2 * fills, true, |i| addr_grid_case(i, fills), check_case);
}
fn run_path_grid(ctx: &Ctx) {
    ctx.run_enum("path-type-grid", 256 * 5 * 3 * 3, true, path_grid_case, check_case);
}

// (2) every truncation point of a corpus of valid packets
fn run_trunc(ctx: &Ctx) {
    let n = ctx.tier.pick(50usize, 400);
    let packets = corpus(ctx.seed, n);
    let rels = [PeerRel::Same, PeerRel::BitOff(0xffff)];
    let mut starts = vec![0u64];
    for p in &packets {
        starts.push(starts.last().unwrap() + (p.len() as u64 + 1) * rels.len() as u64);
    }
    let total = *starts.last().unwrap();
    ctx.extra("truncation_corpus", serde_json::json!({"packets": packets.len(), "bytes": packets.iter().map(|p| p.len()).sum::<usize>()}));
    ctx.run_enum(
        "truncations",
        total,
        true,
        |i| {
            let k = starts.partition_point(|s| *s <= i) - 1;
            let off = i - starts[k];
            let p = &packets[k];
            Some(TruncCase { packet: p.clone(), cut: (off / rels.len() as u64) as usize, peer: rels[(off % rels.len() as u64) as usize], local: LOCALS[k % 2] })
        },
        check_trunc,
    );
}

// (3) field-directed mutations of valid packets
fn run_mutations(ctx: &Ctx) {
    ctx.run_prop("mutations", ctx.tier.pick(600_000, 6_000_000), mutation_case_strategy, check_multi);
}
// (4) datagram lengths around the quoting budget
fn run_boundary(ctx: &Ctx) {
    ctx.run_prop("quote-boundary", ctx.tier.pick(120_000, 1_200_000), boundary_case_strategy, check_case);
}
// (5) random datagrams up to the jumbo buffer size
fn run_random(ctx: &Ctx) {
    ctx.run_prop("random", ctx.tier.pick(1_600_000, 16_000_000), random_case_strategy, check_case);
}

fn post(ctx: &Ctx) {
    for l in [
        "want:dispatch",
        "want:reject:malformed",
        "want:reject:src-not-ip",
        "want:reject:src-ne-peer",
        "want:reject:path-type",
        "parsed:src-v4",
        "parsed:src-v6",
        "parsed:src-svc",
        "parsed:src-unknown4",
        "parsed:src-unknown8",
        "parsed:src-unknown12",
        "parsed:src-unknown16",
        "parsed:path-empty",
        "parsed:path-standard",
        "parsed:path-onehop",
        "parsed:path-other",
        "reply:quote-truncated-to-budget",
        "reply:datagram-at-budget-boundary",
        "reply:to-v4-peer",
        "reply:to-v6-peer",
        "truncation",
    ] {
        ctx.require_label(l, 500);
    }
    ctx.require_label("no-reply:scmp-error-datagram", 200);
    let open: u64 = ["v4-vs-v4-mapped", "payload-shorter-than-PayloadLen", "trailing-bytes", "std-path-odd"]
        .iter()
        .map(|w| ctx.label_count(&format!("open:{w}:dispatched")) + ctx.label_count(&format!("open:{w}:rejected")))
        .sum();
    ctx.extra("either_verdict_cases", serde_json::json!(open));
    ctx.extra("reply_failed_to_encode", serde_json::json!(ctx.label_count("reply:failed-to-encode")));
    if ctx.only.is_none() && ctx.label_count("open:v4-vs-v4-mapped:dispatched") + ctx.label_count("open:v4-vs-v4-mapped:rejected") < 500 {
        ctx.inconclusive("generator health: fewer than 500 (v4, v4-mapped) source/peer pairs");
    }
}

/// The same exploration serves C14's clause "no SCMP error ever triggers a reply" for the gateway:
/// `./check C14` runs this binary as part "gateway".
fn as_c14() -> bool {
    std::env::var("VERIF_PART").as_deref() == Ok("gateway")
}

fn main() {
    let subs = [
        Sub { name: "addr-type-grid", run: run_addr_grid, replay: |c, v| c.replay_case::<Case>("addr-type-grid", v, check_case) },
        Sub { name: "path-type-grid", run: run_path_grid, replay: |c, v| c.replay_case::<Case>("path-type-grid", v, check_case) },
        Sub { name: "truncations", run: run_trunc, replay: |c, v| c.replay_case::<TruncCase>("truncations", v, check_trunc) },
        Sub { name: "mutations", run: run_mutations, replay: |c, v| c.replay_case::<MultiCase>("mutations", v, check_multi) },
        Sub { name: "quote-boundary", run: run_boundary, replay: |c, v| c.replay_case::<Case>("quote-boundary", v, check_case) },
        Sub { name: "random", run: run_random, replay: |c, v| c.replay_case::<Case>("random", v, check_case) },
    ];
    vcore::main(
        if as_c14() { "C14" } else { "C08" },
        "cases = (datagram, tunnel peer address, gateway local address). Datagrams: packet specs (source host v4/v6/v4-mapped v6/service/unknown 4-16 bytes, path empty/standard/one-hop/unknown type, raw/UDP/SCMP payloads) encoded by the reference encoder or the SUT encoder and mutated in exactly the decision bytes (DT/DL/ST/SL byte, path type, HdrLen, PayloadLen, version, source host bytes, truncation, trailing bytes); exhaustive grids over all 256 address-type bytes x 4 path kinds x 9 peer relations and all 256 path-type bytes; every truncation point of a corpus of valid packets; random datagrams up to 9216 B. Peer: the source address, one bit off, other family from the same bytes, v4-mapped form, unrelated. Oracle: refmodel::wire::decode_header + decision procedure of the property text (dispatch iff parses, source host type IPv4/IPv6 and equal to the peer, path type 0 or 1); on rejection at most one reply which must be an SCMP ParameterProblem <= 1232 B <= send buffer, addressed to the peer, quoting the maximal prefix of the datagram, checksum verifying per RFC 1071; no panic. Non-trivial = datagram whose header parses by the reference decoder (decision reaches the address/path stage), distinct by (datagram hash, peer).",
        &[
            "either verdict is allowed (labelled open:*) for: IPv4 source vs IPv4-mapped IPv6 peer of the same address and vice versa; datagram shorter than header+PayloadLen; datagram with bytes after header+PayloadLen; standard path whose meta header is semantically inconsistent but parses by length",
            "the hook gateway::verif::ingress_outcome stands for the Forwarded arm of the receive loop (same calls, same arguments); tunnel decryption and the batched UDP sender are not part of the check",
            "'at most one reply' is structural in the receive loop (one create_scmp_error call per rejected datagram); ReplyFailed (no reply) is accepted and counted",
            "the quoted offending packet may be either the whole datagram or the SCION packet inside it (header+PayloadLen) when the datagram carries trailing bytes",
        ],
        &subs,
        post,
    );
}
