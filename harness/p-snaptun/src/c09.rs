//! C09 — the SNAP tunnel carries traffic only for identities authorised at that moment.
//!
//! SUT: the real `SnapTunServer<ClockedAuthz>`; `ClockedAuthz` forwards every authorisation
//! question to the real `IdentityRegistry` with `now + offset` (offset = virtual clock of the
//! case). Clients are real `ana_gotatun::noise::Tunn` instances, one per (identity, address),
//! driven in-process (no sockets). Oracle: a plain model (identity -> (key, expiry, serial)),
//! evaluated at every observable flow event:
//!   * server returns `Forwarded`                                  (payload reaches the SCION side)
//!   * `handle_outgoing_packet_with_session` returns `Some`         (payload accepted for encryption)
//!   * a client decrypts a non-empty payload emitted by the server (payload reached a client)
//! plus the registry answers `has_authorization` for all identities after every operation.

use std::{
    collections::{HashMap, VecDeque},
    net::SocketAddr,
    sync::{
        Arc, LazyLock, Mutex,
        atomic::{AtomicU64, Ordering},
    },
    time::{Duration, Instant},
};

use ana_gotatun::{
    noise::{Tunn, TunnResult, rate_limiter::RateLimiter},
    packet::{Packet, WgKind},
    x25519,
};
use proptest::prelude::*;
use serde::{Deserialize, Serialize};
use snap_control::server::identity_registry::IdentityRegistry;
use snap_tun::server::{HandleIncomingPacketResult, SnapTunAuthorization, SnapTunServer};
use vcore::{CheckResult, Ctx, Fail, Obs, Sub, ensure, no_panic};

const NK: usize = 2; // token keys
const NI: usize = 3; // client identities
const NA: usize = 2; // client socket addresses
/// guard band (virtual seconds) around every expiry in the composed test
const BAND: i64 = 2;
/// a case whose real duration exceeds this is excluded (the server reads the real clock)
const MAX_REAL_CASE: Duration = Duration::from_millis(1000);

const KEY_NAMES: [&str; NK] = ["jti-0", "jti-1"];

fn addr(a: usize) -> SocketAddr {
    ["192.0.2.10:40000", "192.0.2.20:40001"][a].parse().unwrap()
}
fn server_addr() -> SocketAddr {
    "198.51.100.1:5001".parse().unwrap()
}

struct Keys {
    server_secret: [u8; 32],
    server_pub: x25519::PublicKey,
    client_secret: [[u8; 32]; NI],
    client_pub: [[u8; 32]; NI],
}
static KEYS: LazyLock<Keys> = LazyLock::new(|| {
    let server_secret = [0x42u8; 32];
    let server_pub = x25519::PublicKey::from(&x25519::StaticSecret::from(server_secret));
    let mut client_secret = [[0u8; 32]; NI];
    let mut client_pub = [[0u8; 32]; NI];
    for i in 0..NI {
        client_secret[i] = [0x11 * (i as u8 + 1); 32];
        client_pub[i] = *x25519::PublicKey::from(&x25519::StaticSecret::from(client_secret[i])).as_bytes();
    }
    Keys { server_secret, server_pub, client_secret, client_pub }
});

// ---------------------------------------------------------------------------------------------
// cases
// ---------------------------------------------------------------------------------------------

#[derive(Debug, Clone, PartialEq, Eq, Hash, Serialize, Deserialize)]
enum Op {
    /// control plane: register `id` under token key `key` for `life` seconds
    Register { key: u8, id: u8, life: u16 },
    /// virtual clock advance (seconds)
    Advance { dt: u16 },
    /// IdentityRegistry::remove_expired
    Purge,
    /// client (id, addr) sends a fresh handshake initiation from `addr`; responses are pumped.
    /// `lossy`: what the client sends after the handshake response (keepalive, queued data) is lost
    Handshake {
        id: u8,
        addr: u8,
        #[serde(default)]
        lossy: bool,
    },
    /// client (id, addr) hands a fresh payload to its Tunn; whatever comes out (data packet or an
    /// implicit handshake initiation) is sent to the server from `addr` (or from the other
    /// address when `via_other`)
    DataIn { id: u8, addr: u8, via_other: bool, len: u8 },
    /// the SCION side hands a fresh payload for `addr` to the server.
    /// `lose`: the packet the server emits immediately (if any) is lost in the network
    DataOut {
        addr: u8,
        len: u8,
        #[serde(default)]
        lose: bool,
    },
    /// update_timers on the server (and on all clients)
    Tick,
    /// the network delivers the last data ciphertext seen from `addr` once more
    Redeliver { addr: u8 },
}

#[derive(Debug, Clone, PartialEq, Eq, Hash, Serialize, Deserialize)]
struct Hist {
    ops: Vec<Op>,
}

// ---------------------------------------------------------------------------------------------
// reference model
// ---------------------------------------------------------------------------------------------

#[derive(Clone, Copy, PartialEq, Eq, Debug)]
enum Tri {
    Yes,
    No,
    /// inside the guard band around an expiry: no expectation
    Unknown,
}

#[derive(Clone, Copy, Debug)]
struct MReg {
    key: u8,
    expiry: i64,
    serial: u32,
}

/// The authorisation database as the property states it: at most one identity per key, at most
/// one key per identity, a registration is valid strictly before its expiry.
#[derive(Clone, Debug)]
struct Model {
    reg: [Option<MReg>; NI],
    superseded: [bool; NI],
    now: i64,
    band: i64,
    serial: u32,
}

impl Model {
    fn new(band: i64) -> Self {
        Model { reg: [None; NI], superseded: [false; NI], now: 0, band, serial: 0 }
    }
    fn register(&mut self, key: u8, id: usize, life: i64) {
        for j in 0..NI {
            if j != id && self.reg[j].map(|r| r.key) == Some(key) {
                // a new identity under the same token key supersedes the old one
                self.reg[j] = None;
                self.superseded[j] = true;
            }
        }
        self.serial += 1;
        // the identity's only registration is this one (one key per identity)
        self.reg[id] = Some(MReg { key, expiry: self.now + life, serial: self.serial });
        self.superseded[id] = false;
    }
    fn auth_at(&self, id: usize, t: i64) -> Tri {
        match self.reg[id] {
            None => Tri::No,
            Some(r) => {
                let rem = r.expiry - t;
                if rem >= self.band.max(1) {
                    Tri::Yes
                } else if rem <= -self.band {
                    Tri::No
                } else {
                    Tri::Unknown
                }
            }
        }
    }
    fn auth(&self, id: usize) -> Tri {
        self.auth_at(id, self.now)
    }
    fn why_not(&self, id: usize) -> &'static str {
        match self.reg[id] {
            Some(_) => "lapsed",
            None if self.superseded[id] => "superseded",
            None => "never-registered",
        }
    }
    fn serial_of(&self, id: usize) -> Option<u32> {
        self.reg[id].map(|r| r.serial)
    }
}

// ---------------------------------------------------------------------------------------------
// system under test: real server + real registry behind a virtual clock
// ---------------------------------------------------------------------------------------------

#[derive(Debug, Clone, PartialEq, Eq)]
struct SessTag {
    id: u8,
    serial: u32,
}

struct ClockedAuthz {
    registry: IdentityRegistry,
    offset_s: AtomicU64,
    /// session data registered for each identity (written by the harness at registration)
    tags: Mutex<HashMap<[u8; 32], Arc<SessTag>>>,
    /// real instant read by the harness right before the current history operation started
    op_started: Mutex<Instant>,
    /// authorisation questions the server asked for an instant earlier than `op_started`
    stale_questions: AtomicU64,
    questions: AtomicU64,
}

impl ClockedAuthz {
    fn offset(&self) -> Duration {
        Duration::from_secs(self.offset_s.load(Ordering::SeqCst))
    }
}

impl SnapTunAuthorization for ClockedAuthz {
    type SessionData = SessTag;
    fn is_authorized(&self, now: Instant, identity: &[u8; 32]) -> Option<Arc<SessTag>> {
        // "authorised at that moment": the monotonic clock read by the harness before it called
        // into the server can never be later than a clock reading taken during the call
        self.questions.fetch_add(1, Ordering::Relaxed);
        if now < *self.op_started.lock().unwrap() {
            self.stale_questions.fetch_add(1, Ordering::Relaxed);
        }
        SnapTunAuthorization::is_authorized(&self.registry, now + self.offset(), identity).map(|_| {
            self.tags
                .lock()
                .unwrap()
                .get(identity)
                .cloned()
                .unwrap_or_else(|| Arc::new(SessTag { id: 255, serial: 0 }))
        })
    }
}

fn wg_bytes(k: WgKind) -> Vec<u8> {
    let p: Packet = match k {
        WgKind::HandshakeInit(p) => p.into_bytes(),
        WgKind::HandshakeResp(p) => p.into_bytes(),
        WgKind::CookieReply(p) => p.into_bytes(),
        WgKind::Data(p) => p.into_bytes(),
    };
    p[..].to_vec()
}

struct Run<'a> {
    obs: &'a mut Obs,
    server: SnapTunServer<ClockedAuthz>,
    authz: Arc<ClockedAuthz>,
    clients: Vec<Option<Tunn>>, // id * NA + addr
    m: Model,
    t0: Instant,
    seq: u32,
    /// payloads handed to clients: bytes -> (identity, home address of the client)
    in_payloads: HashMap<Vec<u8>, (usize, usize)>,
    /// payloads handed to the server: bytes -> (target address, accepted by the server)
    out_payloads: HashMap<Vec<u8>, (usize, bool)>,
    /// identity sent a handshake initiation from that address
    attempted: [[bool; NA]; NI],
    /// client (identity, address) received a valid handshake response (or answered a server
    /// initiation) over that address
    completed: [[bool; NA]; NI],
    /// authorisation of the identity was lost after `completed` (what: lapse / supersession)
    lost: [[Option<&'static str>; NA]; NI],
    last_cipher: [Option<Vec<u8>>; NA],
    fwd_count: [u32; NI],
    delivered_count: [u32; NI],
    nontrivial: bool,
    /// packets a client emits right after a handshake response are lost (current op only)
    drop_after_resp: bool,
}

impl<'a> Run<'a> {
    fn new(obs: &'a mut Obs) -> Self {
        let k = &*KEYS;
        let authz = Arc::new(ClockedAuthz {
            registry: IdentityRegistry::new(),
            offset_s: AtomicU64::new(0),
            tags: Mutex::new(HashMap::new()),
            op_started: Mutex::new(Instant::now()),
            stale_questions: AtomicU64::new(0),
            questions: AtomicU64::new(0),
        });
        // the rate limiter never reports load: cookie replies are out of scope
        let rl = Arc::new(RateLimiter::new(&k.server_pub, u64::MAX / 4));
        let server = SnapTunServer::new(x25519::StaticSecret::from(k.server_secret), rl, authz.clone());
        Run {
            obs,
            server,
            authz,
            clients: (0..NI * NA).map(|_| None).collect(),
            m: Model::new(BAND),
            t0: Instant::now(),
            seq: 0,
            in_payloads: HashMap::new(),
            out_payloads: HashMap::new(),
            attempted: [[false; NA]; NI],
            completed: [[false; NA]; NI],
            lost: [[None; NA]; NI],
            last_cipher: [None, None],
            fwd_count: [0; NI],
            delivered_count: [0; NI],
            nontrivial: false,
            drop_after_resp: false,
        }
    }

    fn client(&mut self, id: usize, a: usize) -> &mut Tunn {
        let slot = &mut self.clients[id * NA + a];
        if slot.is_none() {
            let k = &*KEYS;
            let secret = x25519::StaticSecret::from(k.client_secret[id]);
            let public = x25519::PublicKey::from(k.client_pub[id]);
            let rl = Arc::new(RateLimiter::new(&public, u64::MAX / 4));
            *slot = Some(Tunn::new(secret, k.server_pub, None, None, (id * NA + a + 1) as u32, rl, server_addr()));
        }
        slot.as_mut().unwrap()
    }

    fn payload(&mut self, dir: u8, who: u8, a: u8, len: u8) -> Vec<u8> {
        self.seq += 1;
        let mut v = vec![b'C', b'0', b'9', dir, who, a];
        v.extend_from_slice(&self.seq.to_be_bytes());
        let len = (len as usize).max(1);
        for i in 0..len {
            v.push((self.seq as u8).wrapping_mul(31).wrapping_add(i as u8));
        }
        v
    }

    // ---- oracle at the three flow events -------------------------------------------------

    fn flow_allowed(&mut self, dir: &str, id: usize) -> CheckResult {
        self.obs.evals(1);
        match self.m.auth(id) {
            Tri::Yes => Ok(()),
            Tri::Unknown => {
                self.obs.label("guard-band-skip");
                Ok(())
            }
            Tri::No => Err(Fail::new(
                format!("{dir}-for-{}-identity", self.m.why_not(id)),
                format!(
                    "{dir}: identity {id} is {} at virtual time {} s (model registration {:?}) but traffic flowed",
                    self.m.why_not(id),
                    self.m.now,
                    self.m.reg[id]
                ),
            )),
        }
    }

    fn tag_ok(&mut self, dir: &str, tag: &SessTag, id: usize) -> CheckResult {
        ensure!(
            tag.id as usize == id,
            format!("{dir}-attributed-to-other-identity"),
            "{dir}: payload authenticated by identity {id} but session data of identity {} returned",
            tag.id
        );
        if self.m.auth(id) == Tri::Yes {
            ensure!(
                Some(tag.serial) == self.m.serial_of(id),
                format!("{dir}-stale-session-data"),
                "{dir}: session data serial {} returned, current registration of identity {id} is {:?}",
                tag.serial,
                self.m.serial_of(id)
            );
        }
        Ok(())
    }

    fn on_forwarded(&mut self, a: usize, bytes: &[u8], tag: &SessTag) -> CheckResult {
        let Some(&(id, owner)) = self.in_payloads.get(bytes) else {
            return Err(Fail::new(
                "forwarded-bytes-not-encrypted-by-any-client",
                format!("server forwarded {} bytes from address {a} that no client encrypted", bytes.len()),
            ));
        };
        self.flow_allowed("forwarded", id)?;
        self.tag_ok("forwarded", tag, id)?;
        ensure!(
            self.completed[id][a],
            "forwarded-without-handshake-on-address",
            "payload of client ({id},{owner}) forwarded on address {a} where identity {id} never completed a handshake"
        );
        self.fwd_count[id] += 1;
        self.obs.label("forwarded");
        Ok(())
    }

    fn on_client_received(&mut self, id: usize, a: usize, bytes: &[u8]) -> CheckResult {
        let Some(&(dst, accepted)) = self.out_payloads.get(bytes) else {
            return Err(Fail::new(
                "client-decrypted-payload-nobody-sent",
                format!("client ({id},{a}) decrypted {} bytes the SCION side never handed to the server", bytes.len()),
            ));
        };
        self.flow_allowed("out-delivered", id)?;
        ensure!(dst == a, "out-delivered-to-other-address", "payload for address {dst} decrypted by client ({id},{a})");
        ensure!(
            accepted,
            "out-delivered-although-dropped",
            "server returned None for this payload (documented: dropped) but client ({id},{a}) decrypted it"
        );
        self.delivered_count[id] += 1;
        self.obs.label("out-delivered");
        Ok(())
    }

    // ---- network pump ----------------------------------------------------------------------

    /// A packet emitted by the server towards address `a` reaches every client living there.
    fn deliver(&mut self, a: usize, bytes: &[u8], work: &mut VecDeque<(usize, Vec<u8>)>) -> CheckResult {
        for id in 0..NI {
            let mut received: Option<Vec<u8>> = None;
            {
                let Some(c) = self.clients[id * NA + a].as_mut() else { continue };
                let Ok(wg) = Packet::copy_from(bytes).try_into_wg() else { continue };
                let is_resp = matches!(wg, WgKind::HandshakeResp(_));
                let is_init = matches!(wg, WgKind::HandshakeInit(_));
                let mut flush = false;
                match c.handle_incoming_packet(wg) {
                    TunnResult::WriteToNetwork(p) => {
                        if is_resp || is_init {
                            self.completed[id][a] = true;
                            self.attempted[id][a] = true;
                        }
                        flush = is_resp;
                        if is_resp && self.drop_after_resp {
                            self.obs.label("client-packets-after-response-lost");
                        } else {
                            work.push_back((a, wg_bytes(p)));
                        }
                    }
                    TunnResult::WriteToTunnel(p) => {
                        flush = true;
                        if p.is_empty() {
                            self.obs.label("keepalive-at-client");
                        } else {
                            received = Some(p[..].to_vec());
                        }
                    }
                    TunnResult::Done | TunnResult::Err(_) => {}
                }
                if flush {
                    for p in c.get_queued_packets() {
                        let b = wg_bytes(p);
                        self.last_cipher[a] = Some(b.clone());
                        if !(is_resp && self.drop_after_resp) {
                            work.push_back((a, b));
                        }
                    }
                }
            }
            if let Some(p) = received {
                self.on_client_received(id, a, &p)?;
            }
        }
        Ok(())
    }

    fn pump(&mut self, mut work: VecDeque<(usize, Vec<u8>)>) -> CheckResult {
        let mut steps = 0;
        while let Some((a, b)) = work.pop_front() {
            steps += 1;
            if steps > 64 {
                self.obs.label("pump-limit");
                break;
            }
            let mut q: VecDeque<WgKind> = VecDeque::new();
            let server = &mut self.server;
            let res = no_panic("handle_incoming_packet_with_session", || {
                server.handle_incoming_packet_with_session(Packet::copy_from(&b[..]), addr(a), &mut q)
            })?;
            match res {
                HandleIncomingPacketResult::Forwarded { packet, session_data, .. } => {
                    let bytes = packet[..].to_vec();
                    self.on_forwarded(a, &bytes, &session_data)?;
                }
                HandleIncomingPacketResult::Result { result: TunnResult::WriteToTunnel(p) } if !p.is_empty() => {
                    // the gateway drops these (no session attached); not a flow
                    self.obs.label("plain-write-to-tunnel");
                }
                HandleIncomingPacketResult::Result { result: TunnResult::WriteToNetwork(_) } => {
                    self.obs.label("unexpected-write-to-network");
                }
                _ => {}
            }
            for p in q {
                let bytes = wg_bytes(p);
                self.deliver(a, &bytes, &mut work)?;
            }
        }
        Ok(())
    }

    // ---- operations ------------------------------------------------------------------------

    fn apply(&mut self, op: &Op) -> CheckResult {
        match *op {
            Op::Register { key, id, life } => {
                let (key, id) = (key as usize % NK, id as usize % NI);
                self.m.register(key as u8, id, life as i64);
                let serial = self.m.serial_of(id).unwrap();
                self.authz
                    .tags
                    .lock()
                    .unwrap()
                    .insert(KEYS.client_pub[id], Arc::new(SessTag { id: id as u8, serial }));
                let now = Instant::now() + self.authz.offset();
                let authz = &self.authz;
                no_panic("IdentityRegistry::register", || {
                    authz.registry.register(now, KEY_NAMES[key], KEYS.client_pub[id], Duration::from_secs(life as u64))
                })?;
            }
            Op::Advance { dt } => {
                self.m.now += dt as i64;
                self.authz.offset_s.fetch_add(dt as u64, Ordering::SeqCst);
            }
            Op::Purge => {
                // expired registrations are indistinguishable from absent ones in the model
                let now = Instant::now() + self.authz.offset();
                let authz = &self.authz;
                no_panic("IdentityRegistry::remove_expired", || authz.registry.remove_expired(now))?;
            }
            Op::Handshake { id, addr: a, lossy } => {
                let (id, a) = (id as usize % NI, a as usize % NA);
                let init = self.client(id, a).format_handshake_initiation(true);
                self.attempted[id][a] = true;
                if let Some(init) = init {
                    let before = self.completed[id][a];
                    self.completed[id][a] = false;
                    self.drop_after_resp = lossy;
                    let r = self.pump(VecDeque::from([(a, wg_bytes(WgKind::HandshakeInit(init)))]));
                    self.drop_after_resp = false;
                    r?;
                    let done = self.completed[id][a];
                    self.completed[id][a] |= before;
                    let foreign = (0..NI).any(|j| j != id && self.attempted[j][a]);
                    if foreign {
                        self.obs.label("handshake-second-identity-same-address");
                    }
                    match (done, self.m.auth(id)) {
                        (true, _) => self.obs.label("handshake-completed"),
                        // availability only (TODO in server.rs): the address is held by the tunnel of
                        // another identity until that tunnel expires
                        (false, Tri::Yes) if foreign => self.obs.label("handshake-refused-address-held-by-other-identity"),
                        (false, Tri::Yes) => self.obs.label("handshake-refused-though-authorised"),
                        (false, _) => self.obs.label("handshake-refused-unauthorised"),
                    }
                }
            }
            Op::DataIn { id, addr: a, via_other, len } => {
                let (id, a) = (id as usize % NI, a as usize % NA);
                let from = if via_other { (a + 1) % NA } else { a };
                let payload = self.payload(b'i', id as u8, a as u8, len);
                self.in_payloads.insert(payload.clone(), (id, a));
                let lost = if via_other { None } else { self.lost[id][a] };
                if let Some(kind) = lost {
                    self.nontrivial = true;
                    self.obs.label(format!("data-in-after-{kind}"));
                }
                let fwd0 = self.fwd_count[id];
                let out = self.client(id, a).handle_outgoing_packet(Packet::copy_from(&payload[..]));
                if let Some(pkt) = out {
                    if matches!(pkt, WgKind::HandshakeInit(_)) {
                        self.attempted[id][from] = true;
                        self.obs.label("implicit-handshake");
                    }
                    let is_data = matches!(pkt, WgKind::Data(_));
                    let b = wg_bytes(pkt);
                    if is_data {
                        self.last_cipher[from] = Some(b.clone());
                    }
                    self.pump(VecDeque::from([(from, b)]))?;
                }
                let forwarded = self.fwd_count[id] > fwd0;
                if via_other {
                    self.obs.label("data-in-via-other-address");
                } else {
                    match (self.m.auth(id), forwarded, lost.is_some()) {
                        (Tri::No, false, true) => self.obs.label("in-blocked-after-loss"),
                        (Tri::No, false, false) => self.obs.label("in-blocked-unauthorised"),
                        (Tri::Yes, true, true) => self.obs.label("flow-resumed-in"),
                        (Tri::Yes, false, _) if self.completed[id][a] => self.obs.label("in-authorised-not-forwarded"),
                        _ => {}
                    }
                }
            }
            Op::DataOut { addr: a, len, lose } => {
                let a = a as usize % NA;
                let payload = self.payload(b'o', 0xff, a as u8, len);
                let mut lost_any = false;
                for id in 0..NI {
                    if self.completed[id][a] {
                        if let Some(kind) = self.lost[id][a] {
                            lost_any = true;
                            self.nontrivial = true;
                            self.obs.label(format!("data-out-after-{kind}"));
                        }
                    }
                }
                let deliv0: u32 = self.delivered_count.iter().sum();
                // every other length goes through the plain entry point (the one the gateway uses
                // for its own replies); it returns no session data, so it is judged by what the
                // clients can decrypt afterwards
                if len % 2 == 1 {
                    let server = &mut self.server;
                    let r = no_panic("handle_outgoing_packet", || server.handle_outgoing_packet(Packet::copy_from(&payload[..]), addr(a)))?;
                    // None = dropped or queued behind a handshake: the plain entry point does not tell
                    self.out_payloads.insert(payload.clone(), (a, true));
                    self.obs.label(if r.is_some() { "out-plain-accepted" } else { "out-plain-none" });
                    if let Some(pkt) = r.filter(|_| !lose) {
                        let bytes = wg_bytes(pkt);
                        let mut work = VecDeque::new();
                        self.deliver(a, &bytes, &mut work)?;
                        self.pump(work)?;
                    }
                    let delivered = self.delivered_count.iter().sum::<u32>() > deliv0;
                    if delivered && lost_any {
                        self.obs.label("flow-resumed-out");
                    }
                    return Ok(());
                }
                let server = &mut self.server;
                let r = no_panic("handle_outgoing_packet_with_session", || {
                    server.handle_outgoing_packet_with_session(Packet::copy_from(&payload[..]), addr(a))
                })?;
                self.out_payloads.insert(payload.clone(), (a, r.is_some()));
                match r {
                    Some(h) => {
                        let tag = h.session_data.clone();
                        ensure!(
                            (tag.id as usize) < NI,
                            "out-accepted-for-identity-never-registered",
                            "outgoing payload accepted with session data of an identity that never registered"
                        );
                        let id = tag.id as usize;
                        self.flow_allowed("out-accepted", id)?;
                        self.tag_ok("out-accepted", &tag, id)?;
                        ensure!(
                            self.attempted[id][a],
                            "out-accepted-without-handshake-on-address",
                            "outgoing payload for address {a} accepted for identity {id} which never sent a handshake from there"
                        );
                        self.obs.label("out-accepted");
                        if let Some(pkt) = h.network_packet.filter(|_| !lose) {
                            let bytes = wg_bytes(pkt);
                            let mut work = VecDeque::new();
                            self.deliver(a, &bytes, &mut work)?;
                            self.pump(work)?;
                        } else if lose {
                            self.obs.label("out-accepted-packet-lost");
                        } else {
                            self.obs.label("out-accepted-queued");
                        }
                        let delivered = self.delivered_count.iter().sum::<u32>() > deliv0;
                        if delivered && lost_any {
                            self.obs.label("flow-resumed-out");
                        }
                    }
                    None => {
                        let owner_auth = (0..NI).any(|id| self.completed[id][a] && self.m.auth(id) == Tri::Yes);
                        let owner_lost = (0..NI).any(|id| self.completed[id][a] && self.lost[id][a].is_some() && self.m.auth(id) == Tri::No);
                        if owner_lost && !owner_auth {
                            self.obs.label("out-blocked-after-loss");
                        } else if owner_auth {
                            self.obs.label("out-none-though-some-client-authorised");
                        } else {
                            self.obs.label("out-none-no-tunnel-or-unauthorised");
                        }
                    }
                }
            }
            Op::Tick => {
                let server = &mut self.server;
                let out = no_panic("update_timers", || server.update_timers())?;
                let mut work = VecDeque::new();
                for (to, pkt) in out {
                    self.obs.label("tick-emitted-packet");
                    let Some(a) = (0..NA).find(|a| addr(*a) == to) else {
                        return Err(Fail::new("tick-emits-to-unknown-address", format!("update_timers emitted a packet to {to}")));
                    };
                    let bytes = wg_bytes(pkt);
                    self.deliver(a, &bytes, &mut work)?;
                }
                for id in 0..NI {
                    for a in 0..NA {
                        if let Some(c) = self.clients[id * NA + a].as_mut() {
                            if let Ok(Some(p)) = c.update_timers() {
                                work.push_back((a, wg_bytes(p)));
                            }
                        }
                    }
                }
                self.pump(work)?;
            }
            Op::Redeliver { addr: a } => {
                let a = a as usize % NA;
                if let Some(b) = self.last_cipher[a].clone() {
                    self.obs.label("redelivered");
                    self.pump(VecDeque::from([(a, b)]))?;
                }
            }
        }
        Ok(())
    }

    /// registry answers for all identities vs. the model (both directions), and the derived
    /// invariant "at most one identity per key".
    fn probe_registry(&mut self) -> CheckResult {
        // sensitivity experiments only: judge registry defects by the traffic oracle alone
        static NO_PROBE: LazyLock<bool> = LazyLock::new(|| std::env::var_os("VERIF_C09_NO_REGISTRY_PROBE").is_some());
        if *NO_PROBE {
            return Ok(());
        }
        let now = Instant::now() + self.authz.offset();
        let mut n_auth = 0;
        for id in 0..NI {
            let got = self.authz.registry.has_authorization(now, &KEYS.client_pub[id]);
            n_auth += got as usize;
            self.obs.evals(1);
            match self.m.auth(id) {
                Tri::Yes => ensure!(
                    got,
                    "registry-denies-registered-unexpired-identity",
                    "identity {id}: model registration {:?} at virtual time {} s, has_authorization = false",
                    self.m.reg[id],
                    self.m.now
                ),
                Tri::No => ensure!(
                    !got,
                    format!("registry-authorises-{}-identity", self.m.why_not(id)),
                    "identity {id} is {} (model registration {:?}, virtual time {} s), has_authorization = true",
                    self.m.why_not(id),
                    self.m.reg[id],
                    self.m.now
                ),
                Tri::Unknown => self.obs.label("guard-band-skip"),
            }
        }
        ensure!(
            n_auth <= NK,
            "registry-more-authorised-identities-than-keys",
            "{n_auth} identities authorised with only {NK} token keys"
        );
        Ok(())
    }
}

fn check_hist(h: &Hist, obs: &mut Obs) -> CheckResult {
    let mut run = Run::new(obs);
    let mut prev = [Tri::No; NI];
    for (i, op) in h.ops.iter().enumerate() {
        *run.authz.op_started.lock().unwrap() = Instant::now();
        let asked = run.authz.questions.load(Ordering::Relaxed);
        run.apply(op).map_err(|f| Fail::new(f.sig, format!("op #{i} {op:?}: {}", f.msg)))?;
        if run.authz.questions.load(Ordering::Relaxed) > asked {
            run.obs.label("server-asked-authorisation");
        }
        ensure!(
            run.authz.stale_questions.load(Ordering::Relaxed) == 0,
            "authorisation-decided-for-an-earlier-instant",
            "op #{i} {op:?}: the server asked whether an identity is authorised at an instant that lies before the start of this operation (traffic must be authorised at the moment it is carried)"
        );
        if run.t0.elapsed() > MAX_REAL_CASE {
            run.obs.label("excluded-slow-case");
            return Ok(());
        }
        run.probe_registry().map_err(|f| Fail::new(f.sig, format!("after op #{i} {op:?}: {}", f.msg)))?;
        // bookkeeping for the non-trivial rule: loss of authorisation after a completed handshake
        for id in 0..NI {
            let cur = run.m.auth(id);
            if prev[id] != Tri::No && cur == Tri::No {
                let kind = if matches!(op, Op::Register { .. }) { "supersession" } else { "lapse" };
                for a in 0..NA {
                    if run.completed[id][a] {
                        run.lost[id][a] = Some(kind);
                    }
                }
            }
            prev[id] = cur;
        }
    }
    if run.nontrivial {
        run.obs.nontrivial(&h.ops);
        run.obs.label("nontrivial");
    }
    Ok(())
}

// ---------------------------------------------------------------------------------------------
// registry alone, synthetic instants, exact boundary
// ---------------------------------------------------------------------------------------------

#[derive(Debug, Clone, PartialEq, Eq, Hash, Serialize, Deserialize)]
enum ROp {
    Reg { dt: u8, key: u8, id: u8, life: u8 },
    Purge { dt: u8 },
}

#[derive(Debug, Clone, PartialEq, Eq, Hash, Serialize, Deserialize)]
struct RCase {
    /// length of one time unit in nanoseconds (1 s or 1 ns)
    unit_ns: u64,
    ops: Vec<ROp>,
}

fn check_registry(c: &RCase, obs: &mut Obs) -> CheckResult {
    // all instants are base + k * unit; only differences matter, the clock is never compared
    let base = Instant::now();
    let at = |t: i64| base + Duration::from_nanos(c.unit_ns * t as u64);
    let reg = IdentityRegistry::new();
    let mut m = Model::new(0);
    let mut at_boundary = false;
    for (i, op) in c.ops.iter().enumerate() {
        match *op {
            ROp::Reg { dt, key, id, life } => {
                m.now += dt as i64;
                let (key, id) = (key as usize % NK, id as usize % NI);
                m.register(key as u8, id, life as i64);
                let now = at(m.now);
                no_panic("IdentityRegistry::register", || {
                    reg.register(now, KEY_NAMES[key], KEYS.client_pub[id], Duration::from_nanos(c.unit_ns * life as u64))
                })?;
            }
            ROp::Purge { dt } => {
                m.now += dt as i64;
                let now = at(m.now);
                no_panic("IdentityRegistry::remove_expired", || reg.remove_expired(now))?;
            }
        }
        // probe now and the near future (time is monotone: the past is never asked)
        let mut n_auth_now = 0;
        for id in 0..NI {
            for tp in m.now..=m.now + 4 {
                let got = reg.has_authorization(at(tp), &KEYS.client_pub[id]);
                obs.evals(1);
                let want = m.auth_at(id, tp);
                if let Some(r) = m.reg[id] {
                    at_boundary |= r.expiry == tp;
                }
                if tp == m.now {
                    n_auth_now += got as usize;
                }
                match want {
                    Tri::Yes => ensure!(
                        got,
                        "registry-boundary-denied-before-expiry",
                        "after op #{i} {op:?}: identity {id} registered {:?}, probe at t={tp}: not authorised",
                        m.reg[id]
                    ),
                    _ => ensure!(
                        !got,
                        format!("registry-boundary-authorised-{}", if m.reg[id].is_some() { "at-or-after-expiry" } else if m.superseded[id] { "after-supersession" } else { "never-registered" }),
                        "after op #{i} {op:?}: identity {id} registration {:?} superseded={}, probe at t={tp}: authorised",
                        m.reg[id],
                        m.superseded[id]
                    ),
                }
            }
        }
        ensure!(
            n_auth_now <= NK,
            "registry-boundary-more-authorised-identities-than-keys",
            "after op #{i}: {n_auth_now} identities authorised with {NK} keys"
        );
    }
    if at_boundary {
        obs.label("probe-exactly-at-expiry");
        obs.nontrivial(c);
    }
    Ok(())
}

fn ralphabet() -> Vec<ROp> {
    let mut v = vec![];
    for dt in 0..3u8 {
        for key in 0..NK as u8 {
            for id in 0..NI as u8 {
                for life in 0..3u8 {
                    v.push(ROp::Reg { dt, key, id, life });
                }
            }
        }
        v.push(ROp::Purge { dt });
    }
    v
}

// ---------------------------------------------------------------------------------------------
// enumeration
// ---------------------------------------------------------------------------------------------

fn alphabet_full() -> Vec<Op> {
    let mut v = vec![];
    for key in 0..NK as u8 {
        for id in 0..NI as u8 {
            for life in [6u16, 14] {
                v.push(Op::Register { key, id, life });
            }
        }
    }
    v.push(Op::Advance { dt: 8 });
    v.push(Op::Purge);
    for id in 0..NI as u8 {
        for a in 0..NA as u8 {
            v.push(Op::Handshake { id, addr: a, lossy: false });
        }
    }
    for id in 0..NI as u8 {
        for a in 0..NA as u8 {
            v.push(Op::DataIn { id, addr: a, via_other: false, len: 9 });
        }
    }
    for a in 0..NA as u8 {
        v.push(Op::DataOut { addr: a, len: 9, lose: false });
    }
    v.push(Op::Tick);
    v
}

fn alphabet_reduced() -> Vec<Op> {
    let mut v = vec![];
    for key in 0..NK as u8 {
        for id in 0..NI as u8 {
            v.push(Op::Register { key, id, life: 6 });
        }
    }
    v.push(Op::Register { key: 0, id: 0, life: 14 });
    v.push(Op::Advance { dt: 8 });
    v.push(Op::Purge);
    for (id, a) in [(0u8, 0u8), (1, 0), (0, 1)] {
        v.push(Op::Handshake { id, addr: a, lossy: false });
    }
    for (id, a) in [(0u8, 0u8), (1, 0), (0, 1)] {
        v.push(Op::DataIn { id, addr: a, via_other: false, len: 9 });
    }
    for a in 0..NA as u8 {
        v.push(Op::DataOut { addr: a, len: 9, lose: false });
    }
    v.push(Op::Tick);
    v
}

/// number of words of length lo..=hi over an alphabet of size s
fn count_words(s: u64, lo: u32, hi: u32) -> u64 {
    (lo..=hi).map(|l| s.pow(l)).sum()
}

/// i-th word (shortlex order) among the words of length lo..=hi
fn word<T: Clone>(alpha: &[T], lo: u32, hi: u32, mut i: u64) -> Option<Vec<T>> {
    let s = alpha.len() as u64;
    for l in lo..=hi {
        let n = s.pow(l);
        if i < n {
            let mut w = Vec::with_capacity(l as usize);
            for _ in 0..l {
                w.push(alpha[(i % s) as usize].clone());
                i /= s;
            }
            w.reverse();
            return Some(w);
        }
        i -= n;
    }
    None
}

/// Either the whole domain 0..n (exhaustive) or a fixed-size arithmetic slice of it whose phase
/// depends on the seed.
fn run_words(ctx: &Ctx, name_exh: &str, name_slice: &str, alpha: Vec<Op>, lo: u32, hi: u32, slice: Option<u64>) {
    let n = count_words(alpha.len() as u64, lo, hi);
    match slice {
        None => ctx.run_enum(name_exh, n, true, |i| word(&alpha, lo, hi, i).map(|ops| Hist { ops }), check_hist),
        Some(k) => {
            let k = k.min(n);
            let stride = n / k;
            let phase = vcore::hash64(&(ctx.seed, name_slice)) % stride.max(1);
            ctx.run_enum(
                name_slice,
                k,
                false,
                |j| word(&alpha, lo, hi, (phase + j * stride) % n).map(|ops| Hist { ops }),
                check_hist,
            )
        }
    }
}

fn thorough(ctx: &Ctx) -> bool {
    ctx.tier == vcore::Tier::Thorough
}
/// all histories of length <= 3 over the full alphabet (29 symbols): both tiers
fn run_len3(ctx: &Ctx) {
    run_words(ctx, "hist-exh-full-len3", "", alphabet_full(), 0, 3, None);
}
/// length 4 over the full alphabet: exhaustive in thorough, a slice in quick
fn run_len4_exh(ctx: &Ctx) {
    if thorough(ctx) {
        run_words(ctx, "hist-exh-full-len4", "", alphabet_full(), 4, 4, None);
    }
}
fn run_len4_slice(ctx: &Ctx) {
    if !thorough(ctx) {
        run_words(ctx, "", "hist-slice-full-len4", alphabet_full(), 4, 4, Some(QUICK_SLICE_LEN4));
    }
}
/// length 5 over the reduced alphabet (18 symbols)
fn run_len5_exh(ctx: &Ctx) {
    if thorough(ctx) {
        run_words(ctx, "hist-exh-reduced-len5", "", alphabet_reduced(), 5, 5, None);
    }
}
fn run_len5_slice(ctx: &Ctx) {
    if !thorough(ctx) {
        run_words(ctx, "", "hist-slice-reduced-len5", alphabet_reduced(), 5, 5, Some(QUICK_SLICE_LEN5));
    }
}

const QUICK_SLICE_LEN4: u64 = 80_000;
const QUICK_SLICE_LEN5: u64 = 80_000;

// ---------------------------------------------------------------------------------------------
// random histories
// ---------------------------------------------------------------------------------------------

fn life_strategy() -> impl Strategy<Value = u16> {
    prop_oneof![
        6 => prop::sample::select(vec![2u16, 6, 10, 14, 22, 30]),
        1 => 1u16..=40,
    ]
}
fn dt_strategy() -> impl Strategy<Value = u16> {
    prop_oneof![
        6 => prop::sample::select(vec![4u16, 8, 12, 20]),
        1 => 1u16..=15,
    ]
}

fn op_strategy() -> impl Strategy<Value = Op> {
    prop_oneof![
        4 => (0..NK as u8, 0..NI as u8, life_strategy()).prop_map(|(key, id, life)| Op::Register { key, id, life }),
        3 => dt_strategy().prop_map(|dt| Op::Advance { dt }),
        1 => Just(Op::Purge),
        3 => (0..NI as u8, 0..NA as u8, prop::bool::weighted(0.25)).prop_map(|(id, addr, lossy)| Op::Handshake { id, addr, lossy }),
        5 => (0..NI as u8, 0..NA as u8, prop::bool::weighted(0.08), 1u8..48).prop_map(|(id, addr, via_other, len)| Op::DataIn { id, addr, via_other, len }),
        4 => (0..NA as u8, 1u8..48, prop::bool::weighted(0.15)).prop_map(|(addr, len, lose)| Op::DataOut { addr, len, lose }),
        1 => Just(Op::Tick),
        1 => (0..NA as u8).prop_map(|addr| Op::Redeliver { addr }),
    ]
}

/// The rare shape built on purpose: register, handshake, traffic, loss of authorisation (lapse or
/// supersession), traffic, optional re-registration (possibly under the other key / with a shorter
/// lifetime), traffic — with random operations spliced in between.
fn scenario_strategy() -> impl Strategy<Value = Vec<Op>> {
    (
        (0..NK as u8, 0..NI as u8, 0..NA as u8, 1u8..3, prop::sample::select(vec![6u16, 10, 14, 22])),
        (any::<bool>(), any::<bool>(), any::<bool>(), any::<bool>(), prop::sample::select(vec![2u16, 6, 10, 30])),
        prop::collection::vec((any::<u16>(), op_strategy()), 0..12),
        prop::bool::weighted(0.3),
    )
        .prop_map(|((key, id, addr, other, life), (supersede, explicit_hs, resume, other_key, life2), noise, queued)| {
            let other_id = (id + other) % NI as u8;
            let mut ops = vec![Op::Register { key, id, life }];
            if queued {
                // the server is left without a current session and its own initiation is lost:
                // the outbound payload stays queued inside the server's tunnel state
                ops.push(Op::Handshake { id, addr, lossy: true });
                ops.push(Op::DataOut { addr, len: 12, lose: true });
            } else {
                if explicit_hs {
                    ops.push(Op::Handshake { id, addr, lossy: false });
                }
                ops.push(Op::DataIn { id, addr, via_other: false, len: 12 });
                ops.push(Op::DataOut { addr, len: 12, lose: false });
            }
            if supersede {
                ops.push(Op::Register { key, id: other_id, life: 30 });
            } else {
                // next multiple of 4 that leaves the guard band behind
                ops.push(Op::Advance { dt: (life + 2).div_ceil(4) * 4 });
            }
            ops.push(Op::DataIn { id, addr, via_other: false, len: 12 });
            ops.push(Op::DataOut { addr, len: 12, lose: false });
            if resume {
                let k2 = if other_key { (key + 1) % NK as u8 } else { key };
                ops.push(Op::Register { key: k2, id, life: life2 });
                ops.push(Op::DataIn { id, addr, via_other: false, len: 12 });
                ops.push(Op::DataOut { addr, len: 12, lose: false });
            }
            for (pos, op) in noise {
                let at = vcore::idx(pos, ops.len() + 1);
                ops.insert(at, op);
            }
            ops
        })
}

fn hist_strategy() -> impl Strategy<Value = Hist> {
    prop_oneof![
        3 => prop::collection::vec(op_strategy(), 0..=40),
        2 => scenario_strategy(),
    ]
    .prop_map(|ops| Hist { ops })
}

fn run_random(ctx: &Ctx) {
    ctx.run_prop("hist-random", ctx.tier.pick(QUICK_RANDOM, 400_000), hist_strategy, check_hist);
}
const QUICK_RANDOM: u32 = 40_000;

fn run_registry_exh(ctx: &Ctx, name: &str, unit_ns: u64) {
    let alpha = ralphabet();
    let hi = ctx.tier.pick(3, 4);
    let n = count_words(alpha.len() as u64, 0, hi);
    ctx.run_enum(name, n, true, |i| word(&alpha, 0, hi, i).map(|ops| RCase { unit_ns, ops }), check_registry);
}
fn run_registry_s(ctx: &Ctx) {
    run_registry_exh(ctx, "registry-boundary-exh-s", 1_000_000_000);
}
fn run_registry_ns(ctx: &Ctx) {
    run_registry_exh(ctx, "registry-boundary-exh-ns", 1);
}
fn run_registry_random(ctx: &Ctx) {
    let rop = || {
        prop_oneof![
            6 => (0u8..4, 0..NK as u8, 0..NI as u8, 0u8..8).prop_map(|(dt, key, id, life)| ROp::Reg { dt, key, id, life }),
            1 => (0u8..4).prop_map(|dt| ROp::Purge { dt }),
        ]
    };
    ctx.run_prop(
        "registry-boundary-random",
        ctx.tier.pick(20_000, 400_000),
        || (prop::sample::select(vec![1u64, 1_000, 1_000_000_000]), prop::collection::vec(rop(), 0..30)).prop_map(|(unit_ns, ops)| RCase { unit_ns, ops }),
        check_registry,
    );
}

// ---------------------------------------------------------------------------------------------
// registry under concurrent writers (generated thread programs; the OS owns the schedule)
// ---------------------------------------------------------------------------------------------
/// Writer thread `t` owns token key `w<t>` and the two identities `[t+1, 1|2, 0..]`; nobody else
/// touches them. Purger threads call `remove_expired` at an instant at which only the filler
/// registrations (lifetime 0) are expired, so a purge never concerns a writer's identity.
/// Whatever the interleaving, a linearizable registry therefore answers, for writer `t`:
/// right after its own `register(key, id)` returned, `id` is authorised and its other identity
/// is not; after all threads joined, exactly the identity of its last registration is.
#[derive(Debug, Clone, PartialEq, Eq, Hash, Serialize, Deserialize)]
struct CCase {
    /// live filler registrations (make the copy-on-write clone long)
    ballast: u16,
    /// expired filler registrations re-added by every purger round (make the purge a real write)
    expired: u8,
    purgers: u8,
    /// per writer: sequence of (which of its two identities, spin iterations before the call)
    writers: Vec<Vec<(bool, u8)>>,
    /// how often the whole program is run (each repetition is a new schedule)
    reps: u8,
}

fn conc_ident(t: usize, second: bool) -> [u8; 32] {
    let mut id = [0u8; 32];
    id[0] = t as u8 + 1;
    id[1] = 1 + second as u8;
    id
}
fn filler_ident(class: u8, i: usize) -> [u8; 32] {
    let mut id = [0u8; 32];
    id[0] = class;
    id[1] = 0xff;
    id[2..10].copy_from_slice(&(i as u64).to_le_bytes());
    id
}

fn check_registry_concurrent(c: &CCase, obs: &mut Obs) -> CheckResult {
    use std::sync::atomic::AtomicBool;
    let life = Duration::from_secs(100_000);
    let mut overlapped = false;
    for rep in 0..c.reps.max(1) {
        let base = Instant::now();
        let t_purge = base + Duration::from_secs(10);
        let t_probe = base + Duration::from_secs(20);
        let reg = IdentityRegistry::new();
        for i in 0..c.ballast as usize {
            reg.register(base, format!("ballast-{i}"), filler_ident(0xf0, i), life);
        }
        let writers_done = AtomicBool::new(false);
        let purges_during = AtomicU64::new(0);
        let go = std::sync::Barrier::new(c.writers.len() + c.purgers as usize);
        let verdict: Mutex<Option<Fail>> = Mutex::new(None);
        std::thread::scope(|s| {
            let mut hs = vec![];
            for (t, prog) in c.writers.iter().enumerate() {
                let (reg, go, verdict) = (&reg, &go, &verdict);
                hs.push(s.spawn(move || {
                    go.wait();
                    for (k, &(second, spin)) in prog.iter().enumerate() {
                        for _ in 0..spin as u32 * 8 {
                            std::hint::spin_loop();
                        }
                        reg.register(base, format!("w{t}"), conc_ident(t, second), life);
                        let own = reg.has_authorization(t_probe, &conc_ident(t, second));
                        let other = reg.has_authorization(t_probe, &conc_ident(t, !second));
                        if !own || other {
                            let f = if !own {
                                Fail::new(
                                    "registry-concurrent-registration-lost",
                                    format!("rep {rep}: writer {t} op #{k}: register(w{t}, identity {}) returned, the identity is not authorised (unexpired, nobody else uses this key or identity)", 1 + second as u8),
                                )
                            } else {
                                Fail::new(
                                    "registry-concurrent-authorises-superseded-identity",
                                    format!("rep {rep}: writer {t} op #{k}: register(w{t}, identity {}) returned, the identity previously registered under this key is still/again authorised", 1 + second as u8),
                                )
                            };
                            verdict.lock().unwrap().get_or_insert(f);
                            return;
                        }
                    }
                }));
            }
            for p in 0..c.purgers as usize {
                let (reg, go, writers_done, purges_during) = (&reg, &go, &writers_done, &purges_during);
                s.spawn(move || {
                    go.wait();
                    let mut round = 0usize;
                    loop {
                        for i in 0..c.expired as usize {
                            reg.register(base, format!("exp-{p}-{i}"), filler_ident(0xe0 + p as u8, i), Duration::ZERO);
                        }
                        reg.remove_expired(t_purge);
                        round += 1;
                        if writers_done.load(Ordering::Acquire) {
                            break;
                        }
                        purges_during.fetch_add(1, Ordering::Relaxed);
                        if round > 1_000_000 {
                            break;
                        }
                    }
                });
            }
            for h in hs {
                let _ = h.join();
            }
            writers_done.store(true, Ordering::Release);
        });
        obs.evals(c.writers.iter().map(|w| 2 * w.len() as u64).sum::<u64>());
        if let Some(f) = verdict.into_inner().unwrap() {
            return Err(f);
        }
        overlapped |= purges_during.load(Ordering::Relaxed) > 0;
        // quiescent state: exactly the last registration of every writer is authorised
        for (t, prog) in c.writers.iter().enumerate() {
            let Some(&(last, _)) = prog.last() else { continue };
            obs.evals(2);
            ensure!(
                reg.has_authorization(t_probe, &conc_ident(t, last)),
                "registry-concurrent-registration-lost",
                "rep {rep}: after all threads joined: the last registration of writer {t} (identity {}) is not authorised",
                1 + last as u8
            );
            ensure!(
                !reg.has_authorization(t_probe, &conc_ident(t, !last)),
                "registry-concurrent-authorises-superseded-identity",
                "rep {rep}: after all threads joined: writer {t}'s identity {} is authorised though its key was last registered for the other identity (or it never registered)",
                1 + !last as u8
            );
        }
        for i in (0..c.ballast as usize).step_by(97) {
            ensure!(
                reg.has_authorization(t_probe, &filler_ident(0xf0, i)),
                "registry-concurrent-registration-lost",
                "rep {rep}: unexpired ballast registration {i} disappeared"
            );
        }
        for p in 0..c.purgers as usize {
            for i in 0..c.expired as usize {
                ensure!(
                    !reg.has_authorization(t_probe, &filler_ident(0xe0 + p as u8, i)),
                    "registry-concurrent-authorises-lapsed-identity",
                    "rep {rep}: zero-lifetime registration exp-{p}-{i} is authorised"
                );
            }
        }
    }
    let n_ops: usize = c.writers.iter().map(|w| w.len()).sum();
    if c.purgers > 0 && n_ops >= 2 {
        obs.label("concurrent-purger-and-writers");
        if overlapped {
            obs.label("purge-overlapped-writers");
            obs.nontrivial(c);
        }
    }
    if c.writers.len() >= 2 {
        obs.label("concurrent-two-or-more-writers");
    }
    Ok(())
}

fn run_registry_concurrent(ctx: &Ctx) {
    let prog = || prop::collection::vec((any::<bool>(), prop_oneof![3 => Just(0u8), 2 => 0u8..=255]), 1..16);
    ctx.run_prop(
        "registry-concurrent",
        ctx.tier.pick(480, 16_000),
        move || {
            (
                prop_oneof![1 => 0u16..64, 3 => 200u16..1500],
                0u8..4,
                prop_oneof![1 => Just(0u8), 6 => 1u8..=3],
                prop::collection::vec(prog(), 1..=3),
                1u8..=2,
            )
                .prop_map(|(ballast, expired, purgers, writers, reps)| CCase { ballast, expired, purgers, writers, reps })
        },
        check_registry_concurrent,
    );
}

fn post(ctx: &Ctx) {
    if ctx.only.is_some() {
        return;
    }
    // generator health: the flows the property talks about must actually happen, in both
    // directions, before and after a loss of authorisation
    ctx.require_label("forwarded", 10_000);
    ctx.require_label("out-delivered", 5_000);
    ctx.require_label("nontrivial", 5_000);
    ctx.require_label("in-blocked-after-loss", 2_500);
    ctx.require_label("out-blocked-after-loss", 3_500);
    ctx.require_label("flow-resumed-in", 1_000);
    ctx.require_label("flow-resumed-out", 1_000);
    // outbound payload left queued inside the server's tunnel state across a loss of authorisation
    ctx.require_label("out-accepted-packet-lost", 500);
    ctx.require_label("handshake-second-identity-same-address", 5_000);
    ctx.require_label("probe-exactly-at-expiry", 100_000);
    ctx.require_label("purge-overlapped-writers", 300);
    ctx.extra(
        "excluded_cases",
        serde_json::json!({
            "slow_case_excluded": ctx.label_count("excluded-slow-case"),
            "guard_band_skipped_comparisons": ctx.label_count("guard-band-skip"),
        }),
    );
}

fn main() {
    let hist_replay: fn(&Ctx, &serde_json::Value) -> Option<CheckResult> = |c, v| c.replay_case::<Hist>("hist", v, check_hist);
    let reg_replay: fn(&Ctx, &serde_json::Value) -> Option<CheckResult> = |c, v| c.replay_case::<RCase>("registry", v, check_registry);
    let conc_replay: fn(&Ctx, &serde_json::Value) -> Option<CheckResult> = |c, v| {
        // the schedule is not part of the case: a replay runs the thread programme many times
        c.replay_case::<CCase>("registry-concurrent", v, |case, obs| {
            let mut case = case.clone();
            case.reps = 200;
            check_registry_concurrent(&case, obs)
        })
    };
    let subs = [
        Sub { name: "registry-concurrent", run: run_registry_concurrent, replay: conc_replay },
        Sub { name: "registry-boundary-exh-s", run: run_registry_s, replay: reg_replay },
        Sub { name: "registry-boundary-exh-ns", run: run_registry_ns, replay: reg_replay },
        Sub { name: "registry-boundary-random", run: run_registry_random, replay: reg_replay },
        Sub { name: "hist-exh-full-len3", run: run_len3, replay: hist_replay },
        Sub { name: "hist-exh-full-len4", run: run_len4_exh, replay: hist_replay },
        Sub { name: "hist-slice-full-len4", run: run_len4_slice, replay: hist_replay },
        Sub { name: "hist-exh-reduced-len5", run: run_len5_exh, replay: hist_replay },
        Sub { name: "hist-slice-reduced-len5", run: run_len5_slice, replay: hist_replay },
        Sub { name: "hist-random", run: run_random, replay: hist_replay },
    ];
    vcore::main(
        "C09",
        "case = history of operations over 2 token keys x 3 x25519 client identities x 2 client socket addresses: Register(key,identity,lifetime), Advance(dt) of a virtual clock, Purge (remove_expired), Handshake(identity,address) by a real ana_gotatun Tunn client (one per identity and address) against the real SnapTunServer whose authorisation layer is the real IdentityRegistry read at now+virtual offset, DataIn (client encrypts a fresh unique payload; implicit handshake if it has no session), DataOut (server handle_outgoing_packet_with_session towards an address), Tick (update_timers), Redeliver (duplicate/late ciphertext), DataIn through the other address. All server output is delivered to every client living at the target address and client answers are pumped back. Exhaustive: all histories of length <=3 (both tiers) and =4 (thorough; arithmetic slice in quick) over a 29-symbol alphabet (2 keys x 3 ids x lifetimes {6,14}, advance 8, purge, 6 handshakes, 6 data-in, 2 data-out, tick), all histories of length 5 over an 18-symbol reduced alphabet (thorough; slice in quick); random histories up to length 40, 40% of them built around register/handshake/traffic/loss/traffic/re-register/traffic with random operations spliced in. Registry alone with synthetic instants: all histories of <=3 (quick) / <=4 (thorough) operations over {register(dt,key,id,lifetime in 0..2), purge(dt)} with time units of 1 s and 1 ns, probed at now..now+4 for every identity, plus random histories up to 30 operations. Oracle = plain model (identity -> key, expiry, registration serial; a registration under a key held by another identity removes that identity; the latest registration of an identity is its only one): Forwarded => the client that encrypted exactly these bytes has an identity registered and unexpired now, the session data returned is the one registered for that identity, and that client completed a handshake over that address; handle_outgoing Some => same for the identity of the returned session; a client decrypting a non-empty payload => its identity is authorised now, the payload was handed to the server for that address and was not reported dropped; has_authorization == model for every identity after every operation (both directions, strict expiry), never more authorised identities than keys; every authorisation question the server asks carries an instant not earlier than the start of the operation. Registry under concurrent writers (registry-concurrent): 1-3 writer threads, each owning one token key and two identities and running a generated programme of registrations with generated spin delays, 0-3 purger threads (remove_expired at an instant at which only zero-lifetime filler registrations are expired), 0-1500 live ballast registrations; oracle: after its own register() returned a writer finds that identity authorised and its other identity not, and after all threads joined exactly the last registration of every writer is authorised, every ballast entry still is and no zero-lifetime entry is. Non-trivial = history in which an identity loses its authorisation (lapse or supersession) after completing a handshake and a later data operation concerns that identity's address (composed part); registry history with a probe exactly at an expiry instant (registry part); thread programme during which at least one purge ran while writers were still registering (concurrent part).",
        &[
            "the tunnel server is driven from one thread; concurrency is explored for the registry's writers only (sub-check registry-concurrent: generated thread programmes, schedule left to the OS on 16 cores, so a lost update is found with high probability per run, not with certainty; a saved case is replayed 200 times)",
            "the instant the server passes to its authorisation layer must not lie before the harness's own reading of the monotonic clock taken right before the operation (a decision for an earlier instant is a decision for an earlier moment)",
            "the server and ana_gotatun read the real clock: in the composed test all lifetimes/advances are whole seconds, comparisons closer than 2 s to an expiry are skipped (counted as guard-band-skip) and a case whose real duration exceeds 1 s is excluded (counted); the exact strict boundary is checked on IdentityRegistry alone with synthetic instants",
            "WireGuard timers (rekey after 120 s, session rejection after 180 s, tunnel expiry after 540 s, keepalives) run on the real clock and therefore never fire: update_timers is exercised but emits nothing; handshake rate limiting / cookie replies are disabled (limit set to u64::MAX/4)",
            "keepalives (empty payloads) and handshake messages are not payloads in the sense of the property; only non-empty plaintext counts as traffic",
            "liveness (authorised traffic does flow) is not demanded; it is measured by labels and protected by generator-health floors",
        ],
        &subs,
        post,
    );
}
