//! Signature chain of a path segment: tampering operators and the explicit byte-level model.
//!
//! Model. Every authentic signed entry is a record (hb, sig, assoc, key): `assoc` is exactly what
//! its signer covered (segment-info bytes || hb||sig of every preceding entry). In a presented
//! segment the entry at position p must validate IFF some authentic record has exactly its
//! hb and sig bytes, that record's `assoc` equals info' || (hb||sig of entries 0..p of the
//! presented segment), the header announces that length, and the key the verifier resolves for it is
//! the record's signing key. Nothing else is consulted (in particular not the code under test).

use proptest::prelude::*;
use sciparse::{
    reexport::{prost, protobuf},
    segment::SignedPathSegment,
    signed_message::ValidateError,
};
use prost::Message;
use protobuf::crypto::v1 as cr;
use serde::{Deserialize, Serialize};
use vcore::{CheckResult, Fail, Obs, ensure, idx};

use crate::common::*;

#[derive(Clone, Debug, Serialize, Deserialize, PartialEq, Eq, Hash)]
pub enum Op {
    /// the untouched segment (every entry must validate)
    None,
    /// one bit of header_and_body of entry `e`; `serde`: patch the in-memory value through its
    /// serde form instead of the RPC message (the decoded AsEntry then stays the original one)
    FlipHb { e: u16, bit: u16, serde: bool },
    FlipSig { e: u16, bit: u16, serde: bool },
    /// one bit of the segment-info bytes (`serde`: of `info.encoded` directly)
    FlipInfo { bit: u16, serde: bool },
    /// 2..4 flips anywhere (region 0 info, 1 hb, 2 sig)
    MultiFlip { flips: Vec<(u8, u16, u16)> },
    Swap { a: u16, b: u16 },
    DropFirst,
    DropMiddle { i: u16 },
    Truncate { keep: u16 },
    /// a copy of entry `src` inserted at position `at` (at == len: appended)
    InsertCopy { src: u16, at: u16 },
    /// an authentic first entry of another AS appended; `same_info`: it was signed over this
    /// segment's info (as a first entry), else over another segment's info
    AppendForeign { same_info: bool },
    /// the verifier resolves another key for entry `e`
    KeySub { e: u16, other: u8 },
    /// the verifier has no key for entry `e`
    KeyMissing { e: u16 },
    /// entry `e` re-signed by its own key over the right data but announcing a wrong
    /// associated-data length; later entries re-signed honestly over the new bytes
    AdLenLie { e: u16, delta: i8 },
    /// entry `e` replaced by one signed with the attacker's key over the right data;
    /// `trusted`: the verifier resolves the attacker's key for it (then it is authentic)
    Forge { e: u16, trusted: bool },
    /// (r, n-s) in entry `e` (observation only for `e` itself)
    MalleateS { e: u16 },
    /// another encoding of the same (r, s) in entry `e` (observation only for `e` itself)
    SigAltDer { e: u16, kind: u8 },
    /// segment-info bytes re-encoded non-canonically with the same decoded value (observation)
    InfoAlt { kind: u8 },
    /// header_and_body of entry `e` replaced by other bytes that decode to the same header and
    /// body (unknown field appended, the two fields in the other order, a decoy field in front):
    /// these are not the signed bytes, so entry `e` and all later ones must fail
    HbAlt { e: u16, kind: u8 },
}

impl Op {
    pub fn kind(&self) -> &'static str {
        match self {
            Op::None => "none",
            Op::FlipHb { serde: false, .. } => "flip-hb",
            Op::FlipHb { serde: true, .. } => "flip-hb-serde",
            Op::FlipSig { serde: false, .. } => "flip-sig",
            Op::FlipSig { serde: true, .. } => "flip-sig-serde",
            Op::FlipInfo { serde: false, .. } => "flip-info",
            Op::FlipInfo { serde: true, .. } => "flip-info-serde",
            Op::MultiFlip { .. } => "multi-flip",
            Op::Swap { .. } => "swap",
            Op::DropFirst => "drop-first",
            Op::DropMiddle { .. } => "drop-middle",
            Op::Truncate { .. } => "truncate",
            Op::InsertCopy { .. } => "insert-copy",
            Op::AppendForeign { .. } => "append-foreign",
            Op::KeySub { .. } => "key-substitution",
            Op::KeyMissing { .. } => "key-missing",
            Op::AdLenLie { .. } => "assoc-len-lie",
            Op::Forge { trusted: false, .. } => "forge",
            Op::Forge { trusted: true, .. } => "forge-trusted-key",
            Op::MalleateS { .. } => "malleate-s",
            Op::SigAltDer { .. } => "sig-alt-der",
            Op::InfoAlt { .. } => "info-alt-encoding",
            Op::HbAlt { .. } => "hb-alt-encoding",
        }
    }
}

pub fn op_strat() -> impl Strategy<Value = Op> {
    let ix = || any::<u16>();
    prop_oneof![
        6 => (ix(), ix(), any::<bool>()).prop_map(|(e, bit, serde)| Op::FlipHb { e, bit, serde }),
        5 => (ix(), ix(), any::<bool>()).prop_map(|(e, bit, serde)| Op::FlipSig { e, bit, serde }),
        3 => (ix(), any::<bool>()).prop_map(|(bit, serde)| Op::FlipInfo { bit, serde }),
        2 => proptest::collection::vec((0u8..3, ix(), ix()), 2..=4).prop_map(|flips| Op::MultiFlip { flips }),
        3 => (ix(), ix()).prop_map(|(a, b)| Op::Swap { a, b }),
        2 => Just(Op::DropFirst),
        2 => ix().prop_map(|i| Op::DropMiddle { i }),
        2 => ix().prop_map(|keep| Op::Truncate { keep }),
        4 => (ix(), prop_oneof![2 => Just(u16::MAX), 1 => ix()]).prop_map(|(src, at)| Op::InsertCopy { src, at }),
        2 => any::<bool>().prop_map(|same_info| Op::AppendForeign { same_info }),
        3 => (ix(), 0u8..7).prop_map(|(e, other)| Op::KeySub { e, other }),
        1 => ix().prop_map(|e| Op::KeyMissing { e }),
        2 => (ix(), prop_oneof![Just(1i8), Just(-1i8), any::<i8>()]).prop_map(|(e, delta)| Op::AdLenLie { e, delta }),
        2 => (ix(), any::<bool>()).prop_map(|(e, trusted)| Op::Forge { e, trusted }),
        1 => ix().prop_map(|e| Op::MalleateS { e }),
        1 => (ix(), 0u8..4).prop_map(|(e, kind)| Op::SigAltDer { e, kind }),
        1 => (0u8..4).prop_map(|kind| Op::InfoAlt { kind }),
        3 => (ix(), 0u8..4).prop_map(|(e, kind)| Op::HbAlt { e, kind }),
    ]
}

#[derive(Clone, Debug, Serialize, Deserialize)]
pub struct ChainCase {
    pub spec: SegSpec,
    pub ops: Vec<Op>,
}
pub fn chain_strat(lo: usize, hi: usize, nops: usize) -> impl Strategy<Value = ChainCase> {
    (seg_strat(lo, hi), proptest::collection::vec(op_strat(), nops..=nops)).prop_map(|(spec, ops)| ChainCase { spec, ops })
}

/// A presented (possibly tampered) segment.
pub struct Presented {
    pub info: Vec<u8>,
    pub entries: Vec<(Vec<u8>, Vec<u8>)>,
    /// key the verifier resolves for position p (None: it has none)
    pub offered: Vec<Option<usize>>,
    /// positions whose verdict is only observed (signature re-encodings)
    pub observe: Vec<bool>,
    /// records that became authentic through the operator (re-signed / foreign entries)
    pub extra: Vec<Rec>,
    /// first tampered position (for the failure signature)
    pub focus: usize,
    /// patch the serde form of the base value instead of converting from RPC
    pub serde_patch: Option<Vec<(u8, usize, usize)>>,
    /// the whole segment is only observed (non-canonical info encodings)
    pub observe_all: bool,
    pub degenerate: bool,
}

fn flip(v: &mut [u8], bit: usize) {
    v[bit / 8] ^= 0x80 >> (bit % 8);
}

fn resign(hb: &[u8], key: usize, assoc: &[u8], declared: i32, bump_mtu: bool) -> Option<Rec> {
    let hab = cr::HeaderAndBodyInternal::decode(hb).ok()?;
    let mut hdr = cr::Header::decode(&hab.header[..]).ok()?;
    hdr.associated_data_length = declared;
    let mut body = hab.body.clone();
    if bump_mtu {
        let mut b = protobuf::control_plane::v1::AsEntrySignedBody::decode(&body[..]).ok()?;
        b.mtu = b.mtu.wrapping_add(1);
        body = b.encode_to_vec();
    }
    let (nhb, nsig) = ref_sign(&pool().sk[key], &hdr, &body, assoc);
    Some(Rec { hb: nhb, sig: nsig, assoc: assoc.to_vec(), key })
}

/// Applies `op` to the pristine segment.
pub fn apply(b: &Built, op: &Op) -> Presented {
    let n = b.recs.len();
    let mut p = Presented {
        info: b.info.clone(),
        entries: b.recs.iter().map(|r| (r.hb.clone(), r.sig.clone())).collect(),
        offered: b.recs.iter().map(|r| Some(r.key)).collect(),
        observe: vec![false; n],
        extra: vec![],
        focus: 0,
        serde_patch: None,
        observe_all: false,
        degenerate: false,
    };
    let degenerate = |mut p: Presented| {
        p.degenerate = true;
        p
    };
    match op {
        Op::None => {}
        Op::FlipHb { e, bit, serde } | Op::FlipSig { e, bit, serde } => {
            if n == 0 {
                return degenerate(p);
            }
            let e = idx(*e, n);
            let is_hb = matches!(op, Op::FlipHb { .. });
            let len = if is_hb { p.entries[e].0.len() } else { p.entries[e].1.len() };
            if len == 0 {
                return degenerate(p);
            }
            let bit = idx(*bit, len * 8);
            if is_hb {
                flip(&mut p.entries[e].0, bit);
            } else {
                flip(&mut p.entries[e].1, bit);
            }
            p.focus = e;
            if *serde {
                p.serde_patch = Some(vec![(if is_hb { 1 } else { 2 }, e, bit)]);
            }
        }
        Op::FlipInfo { bit, serde } => {
            if p.info.is_empty() {
                return degenerate(p);
            }
            let bit = idx(*bit, p.info.len() * 8);
            flip(&mut p.info, bit);
            if *serde {
                p.serde_patch = Some(vec![(0, 0, bit)]);
            }
        }
        Op::MultiFlip { flips } => {
            let mut focus = n;
            let mut any = false;
            // applying the same flip twice would undo it: keep distinct targets only
            let mut seen = std::collections::BTreeSet::new();
            for (region, e, bit) in flips {
                match region {
                    0 if !p.info.is_empty() => {
                        let bit = idx(*bit, p.info.len() * 8);
                        if seen.insert((0u8, 0usize, bit)) {
                            flip(&mut p.info, bit);
                            focus = 0;
                            any = true;
                        }
                    }
                    1 | 2 if n > 0 => {
                        let e = idx(*e, n);
                        let v = if *region == 1 { &mut p.entries[e].0 } else { &mut p.entries[e].1 };
                        if !v.is_empty() {
                            let bit = idx(*bit, v.len() * 8);
                            if seen.insert((*region, e, bit)) {
                                flip(v, bit);
                                focus = focus.min(e);
                                any = true;
                            }
                        }
                    }
                    _ => {}
                }
            }
            if !any {
                return degenerate(p);
            }
            p.focus = focus.min(n.saturating_sub(1));
        }
        Op::Swap { a, b: bb } => {
            if n < 2 {
                return degenerate(p);
            }
            let a = idx(*a, n);
            let c = (a + 1 + idx(*bb, n - 1)) % n;
            p.entries.swap(a, c);
            p.offered.swap(a, c);
            p.focus = a.min(c);
        }
        Op::DropFirst => {
            if n == 0 {
                return degenerate(p);
            }
            p.entries.remove(0);
            p.offered.remove(0);
            p.observe.remove(0);
        }
        Op::DropMiddle { i } => {
            if n < 3 {
                return degenerate(p);
            }
            let i = 1 + idx(*i, n - 2);
            p.entries.remove(i);
            p.offered.remove(i);
            p.observe.remove(i);
            p.focus = i;
        }
        Op::Truncate { keep } => {
            if n == 0 {
                return degenerate(p);
            }
            let keep = idx(*keep, n);
            p.entries.truncate(keep);
            p.offered.truncate(keep);
            p.observe.truncate(keep);
            p.focus = keep;
        }
        Op::InsertCopy { src, at } => {
            if n == 0 {
                return degenerate(p);
            }
            let src = idx(*src, n);
            let at = if *at == u16::MAX { n } else { idx(*at, n + 1) };
            p.entries.insert(at, p.entries[src].clone());
            p.offered.insert(at, p.offered[src]);
            p.observe.insert(at, false);
            p.focus = at;
        }
        Op::AppendForeign { same_info } => {
            let key = 3 + (n % 3);
            let info = if *same_info { b.info.clone() } else { canonical_info(0x5eed_0001, 0x7777) };
            let spec = SegSpec {
                ts: 0,
                seg_id: 0,
                producer: Producer::Reference { algo: 1, ext: false, no_ts: false, meta: false },
                entries: vec![EntrySpec {
                    local: 0x0042_0000_0000_4242,
                    mtu: 1400,
                    ingress_mtu: 0,
                    hf: Hf { exp: 63, ing: 0, eg: 7 },
                    peers: vec![],
                    key: key as u8,
                    key_id: None,
                    sign_ts: 1,
                    mac_key: 0,
                }],
            };
            let hdr = ref_header(&spec, 0, info.len() as i32);
            let body = ref_body(&spec, 0, false).encode_to_vec();
            let (hb, sig) = ref_sign(&pool().sk[key], &hdr, &body, &info);
            p.extra.push(Rec { hb: hb.clone(), sig: sig.clone(), assoc: info, key });
            p.entries.push((hb, sig));
            p.offered.push(Some(key));
            p.observe.push(false);
            p.focus = n;
        }
        Op::KeySub { e, other } => {
            if n == 0 {
                return degenerate(p);
            }
            let e = idx(*e, n);
            let mut o = *other as usize % POOL;
            if o == b.recs[e].key {
                o = (o + 1) % POOL;
            }
            p.offered[e] = Some(o);
            p.focus = e;
        }
        Op::KeyMissing { e } => {
            if n == 0 {
                return degenerate(p);
            }
            let e = idx(*e, n);
            p.offered[e] = None;
            p.focus = e;
        }
        Op::AdLenLie { e, delta } => {
            if n == 0 {
                return degenerate(p);
            }
            let e = idx(*e, n);
            let delta = if *delta == 0 { 1 } else { *delta as i32 };
            p.entries.truncate(e);
            for i in e..n {
                let assoc = chain_assoc(&p.info, &p.entries);
                let declared = if i == e { assoc.len() as i32 + delta } else { assoc.len() as i32 };
                if i == e && declared == assoc.len() as i32 {
                    return degenerate(apply(b, &Op::None));
                }
                let Some(mut r) = resign(&b.recs[i].hb, b.recs[i].key, &assoc, declared, false) else {
                    return degenerate(apply(b, &Op::None));
                };
                p.entries.push((r.hb.clone(), r.sig.clone()));
                if i == e {
                    // signed over the right bytes, but the announced length is a lie: the record is
                    // kept with an `assoc` nobody can present, so it never counts as authentic
                    r.assoc = vec![];
                    r.key = usize::MAX;
                }
                p.extra.push(r);
            }
            p.focus = e;
        }
        Op::Forge { e, trusted } => {
            if n == 0 {
                return degenerate(p);
            }
            let e = idx(*e, n);
            let assoc = b.recs[e].assoc.clone();
            let Some(r) = resign(&b.recs[e].hb, ATTACKER, &assoc, assoc.len() as i32, true) else {
                return degenerate(p);
            };
            p.entries[e] = (r.hb.clone(), r.sig.clone());
            p.extra.push(r);
            if *trusted {
                p.offered[e] = Some(ATTACKER);
            }
            p.focus = e;
        }
        Op::MalleateS { e } => {
            if n == 0 {
                return degenerate(p);
            }
            let e = idx(*e, n);
            let Some(s) = malleate_s(&p.entries[e].1) else { return degenerate(p) };
            p.entries[e].1 = s;
            p.observe[e] = true;
            p.focus = e;
        }
        Op::SigAltDer { e, kind } => {
            if n == 0 {
                return degenerate(p);
            }
            let e = idx(*e, n);
            let Some(s) = der_alt(&p.entries[e].1, *kind) else { return degenerate(p) };
            p.entries[e].1 = s;
            p.observe[e] = true;
            p.focus = e;
        }
        Op::HbAlt { e, kind } => {
            if n == 0 {
                return degenerate(p);
            }
            let e = idx(*e, n);
            let hb = p.entries[e].0.clone();
            // top-level fields of HeaderAndBodyInternal: 1 = header, 2 = body (length-delimited)
            fn fields(b: &[u8]) -> Option<Vec<(usize, usize)>> {
                let mut out = vec![];
                let mut i = 0usize;
                while i < b.len() {
                    let start = i;
                    let tag = b[i];
                    i += 1;
                    if tag & 7 != 2 || tag & 0x80 != 0 {
                        return None;
                    }
                    let (mut len, mut shift) = (0usize, 0);
                    loop {
                        let c = *b.get(i)?;
                        i += 1;
                        len |= ((c & 0x7f) as usize) << shift;
                        shift += 7;
                        if c & 0x80 == 0 {
                            break;
                        }
                    }
                    i = i.checked_add(len)?;
                    if i > b.len() {
                        return None;
                    }
                    out.push((start, i));
                }
                Some(out)
            }
            let alt = match kind % 4 {
                // unknown varint field 15 appended
                0 => {
                    let mut v = hb.clone();
                    v.extend_from_slice(&[0x78, 0x01]);
                    Some(v)
                }
                // unknown empty length-delimited field 14 appended
                1 => {
                    let mut v = hb.clone();
                    v.extend_from_slice(&[0x72, 0x00]);
                    Some(v)
                }
                // the top-level fields in reverse order
                2 => fields(&hb).filter(|f| f.len() >= 2).map(|f| f.iter().rev().flat_map(|(s, e)| hb[*s..*e].to_vec()).collect()),
                // a decoy (empty) copy of the first field in front: the last occurrence wins
                _ => fields(&hb).filter(|f| !f.is_empty()).map(|_| {
                    let mut v = vec![hb[0], 0x00];
                    v.extend_from_slice(&hb);
                    v
                }),
            };
            let Some(alt) = alt else { return degenerate(p) };
            if alt == hb {
                return degenerate(p);
            }
            p.entries[e].0 = alt;
            p.focus = e;
        }
        Op::InfoAlt { kind } => {
            // same decoded (timestamp, segment id), different bytes
            let mut v = b.info.clone();
            match kind % 4 {
                // unknown varint field 3
                0 => v.extend_from_slice(&[0x18, 0x01]),
                // every field twice (the last occurrence wins: same value); explicit zero id if empty
                1 => {
                    if v.is_empty() {
                        v.extend_from_slice(&[0x10, 0x00]);
                    } else {
                        v.extend_from_slice(&b.info);
                    }
                }
                // over-long varint in the last field
                2 => {
                    if let Some(l) = v.last_mut() {
                        *l |= 0x80;
                        v.push(0x00);
                    } else {
                        v.extend_from_slice(&[0x08, 0x00]);
                    }
                }
                // unknown empty length-delimited field 3
                _ => v.extend_from_slice(&[0x1a, 0x00]),
            }
            p.info = v;
            p.observe_all = true;
        }
    }
    p
}

fn provider(k: Option<usize>) -> impl Fn(&[u8]) -> Result<sciparse::reexport::p256::ecdsa::VerifyingKey, ValidateError> {
    move |_kid: &[u8]| match k {
        Some(k) => Ok(pool().vk[k]),
        None => Err(ValidateError::KeyMissing("the verifier has no key for this entry".into())),
    }
}

fn serde_patched(base: &SignedPathSegment, patch: &[(u8, usize, usize)]) -> Result<SignedPathSegment, Fail> {
    let mut v = serde_json::to_value(base).map_err(|e| Fail::new("serde:to_value", e.to_string()))?;
    for (region, e, bit) in patch {
        let arr = match region {
            0 => &mut v["info"]["encoded"],
            1 => &mut v["as_entries"][*e]["signed"]["header_and_body"],
            _ => &mut v["as_entries"][*e]["signed"]["signature"],
        };
        let cell = &mut arr[bit / 8];
        let Some(x) = cell.as_u64() else {
            return Err(Fail::new("serde:shape", "the serde form of a segment is not the derived one (byte arrays expected)"));
        };
        *cell = serde_json::json!((x as u8) ^ (0x80u8 >> (bit % 8)));
    }
    serde_json::from_value(v).map_err(|e| Fail::new("serde:from_value", format!("patched value does not deserialize: {e}")))
}

/// Evaluates one presented segment against the model. Returns the number of oracle evaluations.
pub fn judge(b: &Built, op: &Op, obs: &mut Obs) -> Result<u64, Fail> {
    let p = apply(b, op);
    let kind = op.kind();
    if p.degenerate {
        obs.label(format!("op:{kind}:degenerate"));
        return Ok(0);
    }
    obs.label(format!("op:{kind}"));
    let n = p.entries.len();
    // ---- model verdicts
    let all: Vec<&Rec> = b.recs.iter().chain(p.extra.iter()).collect();
    let mut expect = vec![false; n];
    for pos in 0..n {
        let actual = chain_assoc(&p.info, &p.entries[..pos]);
        let (hb, sig) = &p.entries[pos];
        expect[pos] = all.iter().any(|r| r.hb == *hb && r.sig == *sig && r.assoc == actual && p.offered[pos] == Some(r.key));
    }
    let all_bytes_authentic = p.info == b.info && p.entries.iter().all(|(hb, sig)| all.iter().any(|r| r.hb == *hb && r.sig == *sig));
    // ---- the code under test
    let sut = match &p.serde_patch {
        Some(patch) => serde_patched(&b.sut, patch)?,
        None => {
            let msg = rpc_segment(&p.info, &p.entries);
            match vcore::no_panic("SignedPathSegment::try_from_rpc", || sut_from_rpc(&msg))? {
                Ok(s) => s,
                Err(e) => {
                    // rejecting the whole message is "validation fails" for a tampered message;
                    // a message made only of authentic bytes must convert
                    ensure!(
                        !all_bytes_authentic || p.observe_all,
                        format!("chain:{kind}:conversion-rejected-authentic-bytes"),
                        "op {op:?}: every entry and the info are authentic bytes, but try_from_rpc fails: {e}"
                    );
                    obs.label(format!("op:{kind}:conversion-rejected"));
                    return Ok(1);
                }
            }
        }
    };
    ensure!(
        sut.as_entries.len() == n,
        format!("chain:{kind}:entry-count"),
        "op {op:?}: presented {n} entries, converted value has {}",
        sut.as_entries.len()
    );
    let mut evals = 0;
    for pos in 0..n {
        let got = vcore::no_panic("SignedAsEntry::validate_signature", || sut.as_entries[pos].validate_signature(provider(p.offered[pos]), &sut))?;
        evals += 1;
        let rel = if pos < p.focus {
            "before-tampered"
        } else if pos == p.focus {
            "tampered-position"
        } else {
            "after-tampered"
        };
        if p.observe_all || p.observe[pos] {
            obs.label(format!("observe:{kind}:{}", if got.is_ok() { "accepted" } else { "rejected" }));
            continue;
        }
        match (&got, expect[pos]) {
            (Ok(()), true) | (Err(_), false) => {}
            (Ok(()), false) => {
                // a flipped signature bit that still encodes the same (r, s) is not a forgery
                if matches!(op, Op::FlipSig { .. }) {
                    let orig = b.recs.iter().find(|r| r.hb == p.entries[pos].0).and_then(|r| der_rs_lenient(&r.sig));
                    if orig.is_some() && orig == der_rs_lenient(&p.entries[pos].1) {
                        obs.label("observe:flip-sig:alternative-encoding-of-same-r-s-accepted");
                        continue;
                    }
                }
                // a second occurrence of bytes that are also present earlier in the segment
                let dup = p.entries[..pos].iter().any(|e| *e == p.entries[pos]);
                let rel = if dup { "duplicate-entry" } else { rel };
                return Err(Fail::new(
                    format!("chain:{kind}:accepted:{rel}"),
                    format!(
                        "op {op:?}: entry at position {pos} of {n} validates, but no authentic record was signed over exactly these bytes (info + entries 0..{pos}) with the offered key {:?}",
                        p.offered[pos]
                    ),
                ));
            }
            (Err(e), true) => {
                return Err(Fail::new(
                    format!("chain:{kind}:rejected-authentic:{rel}"),
                    format!("op {op:?}: entry at position {pos} of {n} is authentic for this position (bytes, preceding entries, info, key) but validation fails: {e}"),
                ));
            }
        }
    }
    if expect.iter().any(|x| !*x) || n != b.recs.len() {
        obs.label("presented:some-entry-must-fail");
    }
    Ok(evals.max(1))
}

/// Pristine checks on a built segment: independent verification of what the API signed, key-id
/// header contents, RPC round trip. Returns evaluations.
pub fn pristine(spec: &SegSpec, b: &Built, _obs: &mut Obs) -> Result<u64, Fail> {
    let p = pool();
    let api = !matches!(spec.producer, Producer::Reference { .. });
    for (i, r) in b.recs.iter().enumerate() {
        match indep_verify(&r.hb, &r.sig, &r.assoc, &p.vk[r.key]) {
            Ok(hdr) => {
                if api {
                    let want = key_id_msg(&spec.entries[i]).map(|k| k.encode_to_vec()).unwrap_or_default();
                    ensure!(
                        hdr.verification_key_id == want,
                        "api-sign:key-id-header",
                        "entry {i}: header key id {:02x?} differs from the encoded VerificationKeyId given to the signer {:02x?}",
                        hdr.verification_key_id,
                        want
                    );
                    ensure!(hdr.signature_algorithm == 1, "api-sign:algorithm", "entry {i}: algorithm {}", hdr.signature_algorithm);
                }
            }
            Err(e) => {
                return Err(Fail::new(
                    if api { "api-sign:not-over-info-and-preceding-entries" } else { "reference-signer:self-check" },
                    format!("entry {i} of {}: independent verification over header_and_body || segment_info || preceding (hb||sig): {e}", b.recs.len()),
                ));
            }
        }
    }
    // canonical info bytes
    ensure!(
        b.info == canonical_info(spec.ts, spec.seg_id),
        "seg-to-rpc:segment-info",
        "segment info bytes {:02x?} are not the encoding of (ts {}, id {})",
        b.info,
        spec.ts,
        spec.seg_id
    );
    // RPC round trip of the value
    let back = vcore::no_panic("SignedPathSegment rpc round trip", || sut_from_rpc(&b.sut.clone().into_rpc()))?
        .map_err(|e| Fail::new("seg-rt:rejected", format!("from_rpc(to_rpc(segment)) fails: {e}")))?;
    ensure!(back == b.sut, "seg-rt:differs", "from_rpc(to_rpc(segment)) differs:\n  before {:?}\n  after  {:?}", b.sut, back);
    if api {
        // decoded entries equal what was put in (modulo MACs, which the API computes)
        for (i, e) in back.as_entries.iter().enumerate() {
            let mut want = sut_entry(spec, i);
            let got = e.entry();
            want.hop_entry.hop_field.mac = got.hop_entry.hop_field.mac;
            for (w, g) in want.peer_entries.iter_mut().zip(got.peer_entries.iter()) {
                w.hop_field.mac = g.hop_field.mac;
            }
            ensure!(*got == want, "seg-rt:entry-content", "entry {i} after the round trip: {got:?}, put in: {want:?}");
        }
        ensure!(
            back.info().timestamp == spec.ts && back.info().segment_id == spec.seg_id,
            "seg-rt:info-content",
            "info after round trip {:?}",
            back.info()
        );
    }
    Ok(b.recs.len() as u64 + 1)
}

pub fn check_chain(c: &ChainCase, obs: &mut Obs) -> CheckResult {
    let b = build(&c.spec)?;
    obs.label(format!("entries:{}", c.spec.entries.len()));
    obs.label(match c.spec.producer {
        Producer::Reference { .. } => "producer:reference",
        Producer::ApiAddEntry => "producer:api-add-entry",
        Producer::ApiNew => "producer:api-new",
        Producer::ApiUnsigned => "producer:api-unsigned-then-sign",
    });
    if c.spec.entries.iter().any(|e| !e.peers.is_empty()) {
        obs.label("with-peer-entries");
    }
    if c.spec.entries.iter().any(|e| e.key_id.is_some()) {
        obs.label("with-key-id");
    }
    let mut evals = pristine(&c.spec, &b, obs)?;
    evals += judge(&b, &Op::None, obs)?;
    // operators hitting a recorded (known) defect end the case: evaluate those last so that they
    // do not mask the other operators of the case
    let mut ops: Vec<&Op> = c.ops.iter().collect();
    ops.sort_by_key(|o| matches!(o, Op::InsertCopy { .. }));
    for op in ops {
        let e = judge(&b, op, obs)?;
        if e > 0 && *op != Op::None {
            obs.nontrivial(&(&c.spec, op));
        }
        evals += e;
    }
    obs.evals(evals);
    Ok(())
}

// ------------------------------------------------------------------ exhaustive bit flips

#[derive(Clone, Debug, Serialize, Deserialize, PartialEq, Eq, Hash)]
pub enum Base {
    Spec(SegSpec),
    /// the real segment of the repository's test `validate_real_path_segment`
    Golden,
}
impl Base {
    pub fn build(&self) -> Result<Built, Fail> {
        match self {
            Base::Spec(s) => build(s),
            Base::Golden => build_golden(),
        }
    }
}

#[derive(Clone, Debug, Serialize, Deserialize)]
pub struct FlipCase {
    pub base: Base,
    /// 0 info, 1 hb, 2 sig
    pub region: u8,
    pub entry: u16,
    pub bit: u32,
    pub serde: bool,
}

pub fn flip_op(c: &FlipCase, b: &Built) -> Option<Op> {
    // exact positions: idx() maps (x*len)>>16, so hand it the smallest pre-image of the wanted index
    let n = b.recs.len();
    let pre = |want: usize, len: usize| -> Option<u16> { (len > 0 && want < len && len <= 65536).then(|| (((want << 16) + len - 1) / len) as u16) };
    let e = c.entry as usize;
    Some(match c.region {
        0 => Op::FlipInfo { bit: pre(c.bit as usize, b.info.len() * 8)?, serde: c.serde },
        1 => Op::FlipHb { e: pre(e, n)?, bit: pre(c.bit as usize, b.recs.get(e)?.hb.len() * 8)?, serde: c.serde },
        _ => Op::FlipSig { e: pre(e, n)?, bit: pre(c.bit as usize, b.recs.get(e)?.sig.len() * 8)?, serde: c.serde },
    })
}

pub fn check_flip(c: &FlipCase, b: &Built, obs: &mut Obs) -> CheckResult {
    let Some(op) = flip_op(c, b) else {
        obs.label("flip:out-of-range");
        return Ok(());
    };
    let e = judge(b, &op, obs)?;
    obs.nontrivial(&(&c.base, c.region, c.entry, c.bit, c.serde));
    obs.evals(e.max(1));
    Ok(())
}
