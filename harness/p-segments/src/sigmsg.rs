//! `SignedMessage::{sign, validate, decode_validated}` taken alone: arbitrary body / metadata /
//! key id / digest algorithm / chunked associated data, signed by the code under test or by the
//! reference signer, then presented with tampering. Model: validation succeeds IFF header_and_body
//! and signature are the signed bytes, the concatenation of the offered chunks equals the signed
//! associated data, the offered length equals the announced one, and the offered key is the
//! signer's.

use std::cell::RefCell;

use proptest::prelude::*;
use sciparse::{
    reexport::{prost, prost_types, protobuf},
    signed_message::{DigestAlgorithm, SignedMessage, ValidateError},
};
use prost::Message;
use protobuf::{control_plane::v1 as cp, crypto::v1 as cr};
use serde::{Deserialize, Serialize};
use vcore::{CheckResult, Fail, Obs, ensure, idx};

use crate::common::*;

#[derive(Clone, Debug, Serialize, Deserialize, PartialEq, Eq, Hash)]
pub enum SmOp {
    None,
    /// same bytes, other chunk boundaries
    Rechunk { cuts: Vec<u16> },
    FlipHb { bit: u16 },
    FlipSig { bit: u16 },
    FlipAssoc { bit: u16 },
    /// right data, wrong announced length at validation
    LenLie { delta: i8 },
    OtherKey { k: u8 },
    ProviderError,
    DropChunk { i: u16 },
    AddChunk { byte: u8 },
    TruncSig { keep: u16 },
    MalleateS,
}

#[derive(Clone, Debug, Serialize, Deserialize)]
pub struct SmCase {
    pub key: u8,
    /// 1 sha256, 2 sha384, 3 sha512
    pub algo: u8,
    pub ts: u32,
    pub kid: Option<(u64, u8, u64, u64)>,
    #[serde(with = "chunks_hex")]
    pub assoc: Vec<Vec<u8>>,
    pub body: (u64, u64),
    pub meta: Option<(u64, u64)>,
    /// signed by the reference signer instead of `SignedMessage::sign`
    pub reference: bool,
    /// the signer announces a wrong associated-data length
    pub sign_len_delta: i8,
    pub ops: Vec<SmOp>,
}

mod chunks_hex {
    use serde::{Deserialize, Deserializer, Serializer, ser::SerializeSeq};
    pub fn serialize<S: Serializer>(v: &Vec<Vec<u8>>, s: S) -> Result<S::Ok, S::Error> {
        let mut q = s.serialize_seq(Some(v.len()))?;
        for c in v {
            q.serialize_element(&vcore::hex::encode(c))?;
        }
        q.end()
    }
    pub fn deserialize<'de, D: Deserializer<'de>>(d: D) -> Result<Vec<Vec<u8>>, D::Error> {
        let v = Vec::<String>::deserialize(d)?;
        v.into_iter().map(|s| vcore::hex::decode(s).map_err(serde::de::Error::custom)).collect()
    }
}

fn smop_strat() -> impl Strategy<Value = SmOp> {
    prop_oneof![
        1 => Just(SmOp::None),
        2 => proptest::collection::vec(any::<u16>(), 0..4).prop_map(|cuts| SmOp::Rechunk { cuts }),
        3 => any::<u16>().prop_map(|bit| SmOp::FlipHb { bit }),
        3 => any::<u16>().prop_map(|bit| SmOp::FlipSig { bit }),
        3 => any::<u16>().prop_map(|bit| SmOp::FlipAssoc { bit }),
        2 => prop_oneof![Just(1i8), Just(-1i8), any::<i8>()].prop_map(|delta| SmOp::LenLie { delta }),
        2 => (0u8..8).prop_map(|k| SmOp::OtherKey { k }),
        1 => Just(SmOp::ProviderError),
        1 => any::<u16>().prop_map(|i| SmOp::DropChunk { i }),
        1 => any::<u8>().prop_map(|byte| SmOp::AddChunk { byte }),
        1 => any::<u16>().prop_map(|keep| SmOp::TruncSig { keep }),
        1 => Just(SmOp::MalleateS),
    ]
}

pub fn sm_strat() -> impl Strategy<Value = SmCase> {
    (
        0u8..7,
        1u8..=3,
        any::<u32>(),
        prop_oneof![1 => Just(None), 2 => (any::<u64>(), 0u8..=32, any::<u64>(), any::<u64>()).prop_map(Some)],
        proptest::collection::vec(proptest::collection::vec(any::<u8>(), 0..24), 0..5),
        (any::<u64>(), any::<u64>()),
        prop_oneof![1 => Just(None), 1 => Just(Some((0u64, 0u64))), 2 => (any::<u64>(), any::<u64>()).prop_map(Some)],
        any::<bool>(),
        prop_oneof![9 => Just(0i8), 1 => any::<i8>()],
        proptest::collection::vec(smop_strat(), 6..=6),
    )
        .prop_map(|(key, algo, ts, kid, assoc, body, meta, reference, sign_len_delta, ops)| SmCase {
            key,
            algo,
            ts,
            kid,
            assoc,
            body,
            meta,
            reference,
            sign_len_delta,
            ops,
        })
}

fn algo_of(a: u8) -> DigestAlgorithm {
    match a {
        1 => DigestAlgorithm::Sha256,
        2 => DigestAlgorithm::Sha384,
        _ => DigestAlgorithm::Sha512,
    }
}

pub fn check_sm(c: &SmCase, obs: &mut Obs) -> CheckResult {
    let p = pool();
    let key = c.key as usize;
    let kid = c.kid.map(|(ia, l, b, s)| cp::VerificationKeyId { isd_as: ia, subject_key_id: skid(key, l as usize), trc_base: b, trc_serial: s });
    let kid_bytes = kid.as_ref().map(|k| k.encode_to_vec()).unwrap_or_default();
    let body = cp::SegmentsRequest { src_isd_as: c.body.0, dst_isd_as: c.body.1 };
    let meta = c.meta.map(|(a, b)| cp::SegmentsRequest { src_isd_as: a, dst_isd_as: b });
    let meta_bytes = meta.as_ref().map(|m| m.encode_to_vec()).unwrap_or_default();
    let flat: Vec<u8> = c.assoc.concat();
    let declared_usize = (flat.len() as i64 + c.sign_len_delta as i64).max(0) as usize;
    let declared = declared_usize as i64;
    let honest = declared_usize == flat.len();
    obs.label(format!("sm:algo{}", c.algo));
    obs.label(if c.reference { "sm:signed-by-reference" } else { "sm:signed-by-sut" });
    if !honest {
        obs.label("sm:signer-announces-wrong-length");
    }

    // ---- sign
    let (hb, sig) = if c.reference {
        let hdr = cr::Header {
            signature_algorithm: c.algo as i32,
            verification_key_id: kid_bytes.clone(),
            timestamp: Some(prost_types::Timestamp { seconds: c.ts as i64, nanos: 0 }),
            metadata: meta_bytes.clone(),
            associated_data_length: declared_usize as i32,
        };
        ref_sign(&p.sk[key], &hdr, &body.encode_to_vec(), &flat)
    } else {
        let chunks = c.assoc.iter().map(|v| v.as_slice());
        let sm = vcore::no_panic("SignedMessage::sign", || match &meta {
            Some(m) => SignedMessage::sign(&p.sk[key], algo_of(c.algo), c.ts, kid.clone(), (declared_usize, chunks), &body, m),
            None => SignedMessage::sign(&p.sk[key], algo_of(c.algo), c.ts, kid.clone(), (declared_usize, chunks), &body, &()),
        })?
        .map_err(|e| Fail::new("sm-sign:error", format!("sign failed: {e}")))?;
        // what the documentation of `sign` promises about the header and the signature
        let hab = cr::HeaderAndBodyInternal::decode(&sm.header_and_body[..]).map_err(|e| Fail::new("sm-sign:hb-undecodable", e.to_string()))?;
        let hdr = cr::Header::decode(&hab.header[..]).map_err(|e| Fail::new("sm-sign:header-undecodable", e.to_string()))?;
        ensure!(hab.body == body.encode_to_vec(), "sm-sign:body", "body bytes differ from the encoded message");
        ensure!(hdr.signature_algorithm == c.algo as i32, "sm-sign:algorithm", "header algorithm {} for {:?}", hdr.signature_algorithm, c.algo);
        ensure!(hdr.verification_key_id == kid_bytes, "sm-sign:key-id", "header key id {:02x?}, expected {:02x?}", hdr.verification_key_id, kid_bytes);
        ensure!(hdr.timestamp.map(|t| (t.seconds, t.nanos)) == Some((c.ts as i64, 0)), "sm-sign:timestamp", "header timestamp {:?}, expected {}", hdr.timestamp, c.ts);
        ensure!(hdr.metadata == meta_bytes, "sm-sign:metadata", "header metadata {:02x?}, expected {:02x?}", hdr.metadata, meta_bytes);
        ensure!(hdr.associated_data_length as i64 == declared_usize as i64, "sm-sign:assoc-len", "header announces {}, signer was told {}", hdr.associated_data_length, declared_usize);
        if honest {
            indep_verify(&sm.header_and_body, &sm.signature, &flat, &p.vk[key])
                .map_err(|e| Fail::new("sm-sign:not-over-hb-and-assoc", format!("independent verification of a message signed by the code under test: {e}")))?;
        }
        (sm.header_and_body, sm.signature)
    };

    // ---- present
    let mut evals = 0u64;
    for op in &c.ops {
        let mut phb = hb.clone();
        let mut psig = sig.clone();
        let mut chunks: Vec<Vec<u8>> = c.assoc.clone();
        let mut offered_len: i64 = flat.len() as i64;
        let mut offered_key: Option<usize> = Some(key);
        let mut observe = false;
        let flipb = |v: &mut Vec<u8>, bit: u16| -> bool {
            if v.is_empty() {
                return false;
            }
            let b = idx(bit, v.len() * 8);
            v[b / 8] ^= 0x80 >> (b % 8);
            true
        };
        let name;
        match op {
            SmOp::None => name = "none",
            SmOp::Rechunk { cuts } => {
                name = "rechunk";
                let mut at: Vec<usize> = cuts.iter().map(|c| idx(*c, flat.len() + 1)).collect();
                at.sort();
                let mut out = vec![];
                let mut prev = 0;
                for a in at {
                    out.push(flat[prev..a].to_vec());
                    prev = a;
                }
                out.push(flat[prev..].to_vec());
                chunks = out;
            }
            SmOp::FlipHb { bit } => {
                name = "flip-hb";
                if !flipb(&mut phb, *bit) {
                    continue;
                }
            }
            SmOp::FlipSig { bit } => {
                name = "flip-sig";
                if !flipb(&mut psig, *bit) {
                    continue;
                }
            }
            SmOp::FlipAssoc { bit } => {
                name = "flip-assoc";
                let mut f = flat.clone();
                if !flipb(&mut f, *bit) {
                    continue;
                }
                chunks = vec![f];
            }
            SmOp::LenLie { delta } => {
                name = "len-lie";
                if !honest {
                    // both sides lying consistently is misuse of the verifier's own API, not an attack
                    continue;
                }
                let d = if *delta == 0 { 1 } else { *delta as i64 };
                offered_len = (flat.len() as i64 + d).max(0);
                if offered_len == flat.len() as i64 {
                    offered_len += 1;
                }
            }
            SmOp::OtherKey { k } => {
                name = "other-key";
                let mut k = *k as usize % POOL;
                if k == key {
                    k = (k + 1) % POOL;
                }
                offered_key = Some(k);
            }
            SmOp::ProviderError => {
                name = "provider-error";
                offered_key = None;
            }
            SmOp::DropChunk { i } => {
                name = "drop-chunk";
                let non_empty: Vec<usize> = chunks.iter().enumerate().filter(|(_, c)| !c.is_empty()).map(|(i, _)| i).collect();
                if non_empty.is_empty() {
                    continue;
                }
                let i = non_empty[idx(*i, non_empty.len())];
                chunks.remove(i);
                offered_len = chunks.iter().map(|c| c.len() as i64).sum();
            }
            SmOp::AddChunk { byte } => {
                name = "add-chunk";
                chunks.push(vec![*byte]);
                offered_len += 1;
            }
            SmOp::TruncSig { keep } => {
                name = "truncate-sig";
                let k = idx(*keep, psig.len());
                psig.truncate(k);
            }
            SmOp::MalleateS => {
                name = "malleate-s";
                let Some(s) = malleate_s(&psig) else { continue };
                psig = s;
                observe = true;
            }
        }
        obs.label(format!("sm-op:{name}"));
        let offered_flat: Vec<u8> = chunks.concat();
        let expect = phb == hb && psig == sig && offered_flat == flat && offered_len == declared && honest && offered_key == Some(key);
        let seen_kid: RefCell<Option<Vec<u8>>> = RefCell::new(None);
        let sm = SignedMessage { header_and_body: phb.clone(), signature: psig.clone() };
        let prov = |k: &[u8]| {
            *seen_kid.borrow_mut() = Some(k.to_vec());
            match offered_key {
                Some(k) => Ok(p.vk[k]),
                None => Err(ValidateError::KeyMissing("no key".into())),
            }
        };
        let got = vcore::no_panic("SignedMessage::decode_validated", || {
            sm.decode_validated::<cp::SegmentsRequest, cp::SegmentsRequest>(prov, (offered_len as usize, chunks.iter().map(|c| c.as_slice())))
        })?;
        evals += 1;
        if *op != SmOp::None {
            obs.nontrivial(&(c.key, c.algo, c.ts, &c.assoc, c.body, op));
        }
        if observe {
            obs.label(format!("observe:sm-malleate-s:{}", if got.is_ok() { "accepted" } else { "rejected" }));
            continue;
        }
        match (got, expect) {
            (Ok((b, m)), true) => {
                ensure!(b == body, "sm-validate:decoded-body", "decode_validated returns {b:?}, signed {body:?}");
                let want_meta = if meta_bytes.is_empty() { None } else { meta.clone() };
                ensure!(m == want_meta, "sm-validate:decoded-metadata", "decode_validated returns metadata {m:?}, signed {want_meta:?}");
                ensure!(
                    seen_kid.borrow().as_deref() == Some(&kid_bytes[..]),
                    "sm-validate:key-provider-argument",
                    "key provider was called with {:02x?}, header key id is {:02x?}",
                    seen_kid.borrow(),
                    kid_bytes
                );
                // validate() alone agrees
                let v = sm.validate(|_| Ok(p.vk[key]), (offered_len as usize, chunks.iter().map(|c| c.as_slice())));
                ensure!(v.is_ok(), "sm-validate:validate-vs-decode_validated", "decode_validated accepts, validate rejects: {v:?}");
            }
            (Err(_), false) => {}
            (Ok(_), false) => {
                if matches!(op, SmOp::FlipSig { .. }) && der_rs_lenient(&psig).is_some() && der_rs_lenient(&psig) == der_rs_lenient(&sig) {
                    obs.label("observe:flip-sig:alternative-encoding-of-same-r-s-accepted");
                    continue;
                }
                return Err(Fail::new(
                    format!("sm-validate:{name}:accepted"),
                    format!("op {op:?}: validation succeeds although the presented (hb, sig, associated data, length, key) is not what was signed (signer honest about length: {honest})"),
                ));
            }
            (Err(e), true) => {
                return Err(Fail::new(format!("sm-validate:{name}:rejected-authentic"), format!("op {op:?}: authentic message rejected: {e}")));
            }
        }
    }
    obs.evals(evals.max(1));
    Ok(())
}
