//! C18 — signed control-plane messages verify iff authentic; RPC conversion is lossless.

use std::{
    collections::HashMap,
    sync::{Arc, Mutex, OnceLock},
};

use p_segments::{
    chain::{self, Base, ChainCase, FlipCase, Op},
    common::{self, Built},
    pathrpc::{self, PathMsg, PathVal},
    rawbytes::{self, RawCase},
    segrpc::{self, PageCase, RResp, RSeg},
    sigmsg::{self, SmCase},
};
use proptest::prelude::*;
use vcore::{CheckResult, Ctx, Fail, Obs, Sub};

// ------------------------------------------------------------------------------ chain

fn run_chain(ctx: &Ctx) {
    ctx.run_prop("chain-operators", ctx.tier.pick(10_000, 300_000), || chain::chain_strat(1, 5, 8), chain::check_chain);
}

fn built_cached(base: &Base) -> Result<Arc<Built>, Fail> {
    static CACHE: OnceLock<Mutex<HashMap<u64, Arc<Built>>>> = OnceLock::new();
    let key = vcore::hash64(base);
    let cache = CACHE.get_or_init(|| Mutex::new(HashMap::new()));
    if let Some(b) = cache.lock().unwrap().get(&key) {
        return Ok(b.clone());
    }
    let b = Arc::new(base.build()?);
    cache.lock().unwrap().insert(key, b.clone());
    Ok(b)
}

fn check_flip_case(c: &FlipCase, obs: &mut Obs) -> CheckResult {
    let b = built_cached(&c.base)?;
    chain::check_flip(c, &b, obs)
}

/// Every single-bit flip of info / header_and_body / signature of every entry of a fixed set of
/// small segments (the real segment of the repository's test plus segments drawn from the seed),
/// through the RPC form and through the serde form.
fn run_flips(ctx: &Ctx) {
    let name = "chain-bitflips-exhaustive";
    if !ctx.wants(name) {
        return;
    }
    // (entries lo, hi, how many)
    let plan: &[(usize, usize, u64)] = ctx.tier.pick(&[(1, 1, 3), (2, 2, 3), (3, 3, 1)][..], &[(1, 1, 30), (2, 2, 40), (3, 3, 25), (4, 4, 12), (5, 5, 10)][..]);
    let mut bases = vec![Base::Golden];
    let mut k = 0u64;
    for (lo, hi, count) in plan {
        for _ in 0..*count {
            bases.push(Base::Spec(vcore::draw(&common::seg_strat(*lo, *hi), vcore::hash64(&(ctx.seed, "flip-base", k)))));
            k += 1;
        }
    }
    // index space: (base, region, entry, serde) blocks of `bits` cases
    let mut blocks: Vec<(usize, u8, u16, bool, u64, u64)> = vec![]; // base, region, entry, serde, start, bits
    let mut total = 0u64;
    for (bi, base) in bases.iter().enumerate() {
        let b = match built_cached(base) {
            Ok(b) => b,
            Err(f) => {
                // building is checked (and reported with a replay) by chain-operators
                ctx.inconclusive(format!("{name}: base segment {bi} cannot be built: {} ({})", f.sig, f.msg));
                continue;
            }
        };
        for serde in [false, true] {
            let bits = b.info.len() as u64 * 8;
            blocks.push((bi, 0, 0, serde, total, bits));
            total += bits;
            for (e, r) in b.recs.iter().enumerate() {
                for (region, len) in [(1u8, r.hb.len()), (2u8, r.sig.len())] {
                    let bits = len as u64 * 8;
                    blocks.push((bi, region, e as u16, serde, total, bits));
                    total += bits;
                }
            }
        }
    }
    ctx.extra("bitflip_bases", serde_json::json!(bases.len()));
    ctx.run_enum(
        name,
        total,
        true,
        |i| {
            let k = blocks.partition_point(|b| b.4 + b.5 <= i);
            let (bi, region, entry, serde, start, _) = *blocks.get(k)?;
            Some(FlipCase { base: bases[bi].clone(), region, entry, bit: (i - start) as u32, serde })
        },
        check_flip_case,
    );
}

/// the two findings of the throw-away probe, in their smallest form, plus one positive control
fn run_minimal(ctx: &Ctx) {
    let spec = |n: usize| {
        let mut s = vcore::draw(&common::seg_strat(n, n), 7);
        s.producer = common::Producer::ApiAddEntry;
        s
    };
    let cases: Vec<ChainCase> = vec![
        ChainCase { spec: spec(1), ops: vec![Op::InsertCopy { src: 0, at: u16::MAX }] },
        ChainCase { spec: spec(2), ops: vec![Op::InsertCopy { src: 0, at: u16::MAX }] },
        ChainCase { spec: spec(3), ops: vec![Op::Truncate { keep: 40_000 }, Op::Swap { a: 0, b: 0 }, Op::DropFirst] },
    ];
    ctx.run_list("chain-minimal", &cases, |c, o| chain::check_chain(c, o));
}

// ------------------------------------------------------------------------------ the rest

fn run_sm(ctx: &Ctx) {
    ctx.run_prop("signed-message", ctx.tier.pick(30_000, 900_000), sigmsg::sm_strat, sigmsg::check_sm);
}
fn run_segrpc(ctx: &Ctx) {
    ctx.run_prop("segment-message-arbitrary", ctx.tier.pick(300_000, 9_000_000), segrpc::rseg, segrpc::check_rseg);
    ctx.run_prop("segments-response-arbitrary", ctx.tier.pick(60_000, 1_800_000), segrpc::rresp, segrpc::check_rresp);
    ctx.run_prop("segments-page-roundtrip", ctx.tier.pick(3_000, 90_000), segrpc::page_strat, segrpc::check_page);
}
fn path_val_strat() -> impl Strategy<Value = PathVal> {
    prop_oneof![3 => pathrpc::path_val(true), 1 => pathrpc::path_val(false)]
}
fn run_path(ctx: &Ctx) {
    ctx.run_list("path-minimal", &pathrpc::minimal_vals(), |c, o| pathrpc::check_val(c, o));
    ctx.run_list("path-minimal-message", &pathrpc::minimal_msgs(), |c, o| pathrpc::check_msg(c, o));
    ctx.run_prop("path-value-roundtrip", ctx.tier.pick(200_000, 6_000_000), path_val_strat, pathrpc::check_val);
    ctx.run_prop("path-message-wellformed", ctx.tier.pick(200_000, 6_000_000), pathrpc::path_msg_wellformed, pathrpc::check_msg);
    ctx.run_prop("path-message-arbitrary", ctx.tier.pick(300_000, 9_000_000), pathrpc::path_msg_arbitrary, pathrpc::check_msg);
    let locals: Vec<u64> = vec![0, 1, 0x0001_ff00_0000_0110, u64::MAX, 1 << 48, (1 << 48) | 1];
    ctx.run_list("path-local", &locals, |ia, o| {
        o.label("path-local");
        pathrpc::check_local(*ia)
    });
}
fn run_raw(ctx: &Ctx) {
    ctx.run_prop("rpc-raw-bytes", ctx.tier.pick(400_000, 12_000_000), rawbytes::raw_strat, rawbytes::check_raw);
}

fn post(ctx: &Ctx) {
    for op in [
        "flip-hb", "flip-hb-serde", "flip-sig", "flip-sig-serde", "flip-info", "flip-info-serde", "multi-flip", "swap", "drop-first", "drop-middle", "truncate",
        "insert-copy", "append-foreign", "key-substitution", "key-missing", "assoc-len-lie", "forge", "forge-trusted-key", "malleate-s", "sig-alt-der",
    ] {
        ctx.require_label(&format!("op:{op}"), 50);
    }
    for l in ["producer:reference", "producer:api-add-entry", "producer:api-new", "producer:api-unsigned-then-sign", "with-peer-entries", "with-key-id", "entries:1", "entries:5"] {
        ctx.require_label(l, 100);
    }
    for l in ["sm:signed-by-reference", "sm:signed-by-sut", "sm:algo1", "sm:algo2", "sm:algo3", "sm-op:rechunk", "sm-op:len-lie", "sm-op:flip-assoc"] {
        ctx.require_label(l, 100);
    }
    for l in ["rseg:accepted-wellformed", "rseg:rejected-out-of-range-or-missing", "rresp:accepted", "rresp:rejected"] {
        ctx.require_label(l, 1000);
    }
    for l in [
        "pathval:per-link-metadata", "pathval:no-per-link-metadata", "pathval:geo", "pathval:notes", "pathmsg:wellformed-accepted", "pathmsg:malformed-accepted", "pathmsg:malformed-rejected",
        "pathmsg:value-beyond-16-bits", "pathmsg:negative-time", "pathmsg:inconsistent-vector-lengths", "pathmsg:missing-expiration",
    ] {
        ctx.require_label(l, 1000);
    }
    for l in ["raw:segment:converted", "raw:path:converted", "raw:response:converted", "raw:segment:prost-rejects", "raw:path:conversion-rejects"] {
        ctx.require_label(l, 500);
    }
}

fn main() {
    let subs = [
        Sub { name: "chain-minimal", run: run_minimal, replay: |c, v| c.replay_case::<ChainCase>("chain-minimal", v, chain::check_chain) },
        Sub { name: "chain-operators", run: run_chain, replay: |c, v| c.replay_case::<ChainCase>("chain-operators", v, chain::check_chain) },
        Sub { name: "chain-bitflips-exhaustive", run: run_flips, replay: |c, v| c.replay_case::<FlipCase>("chain-bitflips-exhaustive", v, check_flip_case) },
        Sub { name: "signed-message", run: run_sm, replay: |c, v| c.replay_case::<SmCase>("signed-message", v, sigmsg::check_sm) },
        Sub { name: "segment-message-arbitrary", run: run_segrpc, replay: |c, v| c.replay_case::<RSeg>("segment-message-arbitrary", v, segrpc::check_rseg) },
        Sub { name: "segments-response-arbitrary", run: |_| {}, replay: |c, v| c.replay_case::<RResp>("segments-response-arbitrary", v, segrpc::check_rresp) },
        Sub { name: "segments-page-roundtrip", run: |_| {}, replay: |c, v| c.replay_case::<PageCase>("segments-page-roundtrip", v, segrpc::check_page) },
        Sub { name: "path-minimal", run: |_| {}, replay: |c, v| c.replay_case::<PathVal>("path-minimal", v, pathrpc::check_val) },
        Sub { name: "path-minimal-message", run: |_| {}, replay: |c, v| c.replay_case::<PathMsg>("path-minimal-message", v, pathrpc::check_msg) },
        Sub { name: "path-value-roundtrip", run: run_path, replay: |c, v| c.replay_case::<PathVal>("path-value-roundtrip", v, pathrpc::check_val) },
        Sub { name: "path-message-wellformed", run: |_| {}, replay: |c, v| c.replay_case::<PathMsg>("path-message-wellformed", v, pathrpc::check_msg) },
        Sub { name: "path-message-arbitrary", run: |_| {}, replay: |c, v| c.replay_case::<PathMsg>("path-message-arbitrary", v, pathrpc::check_msg) },
        Sub { name: "path-local", run: |_| {}, replay: |c, v| c.replay_case::<u64>("path-local", v, |ia: &u64, _| pathrpc::check_local(*ia)) },
        Sub { name: "rpc-raw-bytes", run: run_raw, replay: |c, v| c.replay_case::<RawCase>("rpc-raw-bytes", v, rawbytes::check_raw) },
    ];
    vcore::main(
        "C18",
        "cases = (a) a signed path segment (1-5 AS entries, 0-2 peer entries each, 2-3 ECDSA P-256 keys, key ids present/absent; signed through add_entry / SignedPathSegment::new / try_into_signed_segment, or by an independent reference signer with SHA-256/384/512, extensions in the body, header metadata) presented after one tampering operator: single-bit flip in header_and_body / signature / segment-info bytes (through the RPC form and through the serde form), multi-flip, entry swap, drop-first, drop-middle, truncate tail, copy of an entry inserted/appended, foreign authentic entry appended, key substitution, missing key, associated-data length lie, forged entry (attacker key, trusted or not), (r,n-s), alternative DER, alternative info encoding; every single-bit flip of a fixed set of small segments incl. the real segment of the repository's test is enumerated exhaustively. Oracle: byte-level model of the chain - the entry at position p must validate IFF an authentic record has exactly its bytes, was signed over exactly info || (hb||sig of entries 0..p) as presented, announces that length, and the verifier resolves the signer's key; API-produced signatures are verified independently (SHA-2 + p256 over hb||info||preceding entries). (b) SignedMessage sign/validate/decode_validated alone with chunked associated data (model as above). (c) RPC: from_rpc(to_rpc(x)) == x for segments, SegmentsPage and ScionPath with canonical rich metadata; structural arbitrary PathSegment / SegmentsResponse / daemon Path messages (values beyond 16 bits, missing sub-messages, inconsistent vector lengths, negative times, junk bytes) and byte-mutated encodings decoded with prost: Ok or Err, never a panic; an accepted message is represented without silent truncation, a message inside every documented width / vector length is accepted and each datum is found where daemon.proto says it belongs, and the accepted value survives to_rpc -> from_rpc. Non-trivial = a presented segment produced by a tampering operator (distinct by segment and operator), a signed message presented with a non-identity operator, a path value or well-formed path message carrying per-link metadata (latency, bandwidth, link type or internal hops), an accepted well-formed structural segment message, a converted byte-mutated message.",
        &["the ECDSA/SHA-2 primitives (p256, sha2) are assumed correct; they are also used by the independent verifier", "signing keys are a fixed deterministic pool (RFC 6979 signatures): no OS randomness, replays are exact", "entries of one segment carry distinct ASes (a segment with two identical AsEntry values is outside the generator)", "extensions / unsigned extensions of AsEntry are empty and next_page_token is empty (documented as unsupported), EPIC authenticators are not generated on the value side (documented as unsupported)", "path values are in canonical form: last interface without latency/bandwidth, link types and internal hops all-or-nothing, bandwidth > 0, geo not all-zero, address non-empty, no NaN, expiration <= i64::MAX, IPv6 next hop without flow info", "(r, n-s) signatures, alternative DER encodings and non-canonical segment-info encodings of the same value are observed and counted, not asserted (see notes/C18.md)", "a conversion error for a message containing non-authentic bytes counts as validation failure of the tampered entry"],
        &subs,
        post,
    );
}
