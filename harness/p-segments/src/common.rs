//! Shared pieces of the C18 check: deterministic key pool, digest + independent verification,
//! an independent reference signer (written from the SCION control-plane signing rule, it does
//! not call `SignedMessage::sign` / `AsEntry::associated_data`), lenient DER helpers, segment
//! specifications and the two producers (the repository's public API / the reference signer).

use std::sync::OnceLock;

use proptest::prelude::*;
use sciparse::{
    dataplane_path::standard::types::HopFieldMac,
    identifier::isd_asn::IsdAsn,
    reexport::{p256, prost, prost_types, protobuf},
    segment::{
        AsEntry, EntryKeyInfo, HopEntry, PeerEntry, SegmentHopField, SignedPathSegment,
        UnsignedPathSegment,
    },
};
use p256::ecdsa::{
    Signature, SigningKey, VerifyingKey,
    signature::hazmat::{PrehashSigner, PrehashVerifier},
};
use prost::Message;
use protobuf::{control_plane::v1 as cp, crypto::v1 as cr};
use serde::{Deserialize, Serialize};
use sha2::{Digest, Sha256, Sha384, Sha512};
use vcore::Fail;

// ------------------------------------------------------------------------------------- keys

/// number of keys in the pool: 0..=2 segment signers, 3..=5 foreign ASes, 6 spare, 7 attacker
pub const POOL: usize = 8;
pub const ATTACKER: usize = 7;

pub struct Pool {
    pub sk: Vec<SigningKey>,
    pub vk: Vec<VerifyingKey>,
}

/// Deterministic key pool (no OS randomness; RFC 6979 signing makes every run reproducible).
pub fn pool() -> &'static Pool {
    static P: OnceLock<Pool> = OnceLock::new();
    P.get_or_init(|| {
        let mut sk = vec![];
        let mut vk = vec![];
        for i in 0..POOL {
            let mut h = Sha256::digest(format!("verif-c18-signing-key-{i}").as_bytes()).to_vec();
            h[0] = (h[0] & 0x7f) | 0x01; // 0 < scalar < n
            let k = SigningKey::from_slice(&h).expect("valid P-256 scalar");
            vk.push(*k.verifying_key());
            sk.push(k);
        }
        // verifying keys of the two ASes of the real segment in the repository's test
        // `validate_real_path_segment` (SEC1 points taken from its SubjectPublicKeyInfo constants)
        for h in [GOLDEN_KEY_1, GOLDEN_KEY_2] {
            vk.push(VerifyingKey::from_sec1_bytes(&vcore::unhex(h)).expect("golden key"));
        }
        Pool { sk, vk }
    })
}

pub const GOLDEN_KEY_1: &str = "04414516d9941a8981ec2a0cf5a30e34e1768c2b6412781eb6d8bab2a0c6d4e8d6c96947bdb890a4ba9e5aa8b241329828a57016b45a0afa1963a5e4df97076f6a";
pub const GOLDEN_KEY_2: &str = "04e1e7faad46e90ab237bb3300d781e76d26d95178a5e5f23f391fb3b44e101e4877384712adfe069a0856a747ff30ba5b864cf0652e359c2621dc8ca8d1558b03";
/// a path segment produced by a real (Go) control service, from the repository's own test
pub const GOLDEN_SEGMENT: &str = "0a09089edaa0cd0610b90a1294010a91010a450a1e0801120abde5b6a1a48d52cb441d1a0c089edaa0cd0610fec2e88a0228091223089082808080e07f109182808080e07f1a0e0a0c1001183f220611111111111128dc0b1248304602210095263dcaedb95aa4bf7bf59c2598941c7453e3cfa1da266dbe39ff7bf92ab6bc022100fe767932205c11e3702a02b5d9652335c8138c8bcf0c4bdd78a48100b9833c3c1299010a96010a4b0a1f0801120a419761cb32405daebd6f1a0c089edaa0cd0610cddbf08a022896011228089182808080e07f109282808080e07f1a130a0e080a100b183f220622222222222210b90a28dc0b12473045022042f3bd5fb2489e4bf0e6291a0f23bd3780315bdf52de76ed79cef881d11af354022100d3105d39df402421a3251f32f8ca6f4b280ed0d28309dd4b178b21ddc9c59499";

/// The real segment as a `Built`: records straight from the wire bytes, keys 8 and 9 of the pool.
pub fn build_golden() -> Result<Built, Fail> {
    let bytes = vcore::unhex(GOLDEN_SEGMENT);
    let msg = cp::PathSegment::decode(&bytes[..]).map_err(|e| Fail::new("golden:decode", e.to_string()))?;
    let info = msg.segment_info.clone();
    let mut done: Vec<(Vec<u8>, Vec<u8>)> = vec![];
    let mut recs = vec![];
    for (i, a) in msg.as_entries.iter().enumerate() {
        let s = a.signed.as_ref().ok_or_else(|| Fail::new("golden:decode", "no signed part"))?;
        recs.push(Rec { hb: s.header_and_body.clone(), sig: s.signature.clone(), assoc: chain_assoc(&info, &done), key: POOL + i });
        done.push((s.header_and_body.clone(), s.signature.clone()));
    }
    let sut = SignedPathSegment::try_from_rpc(msg).map_err(|e| Fail::new("seg-from-rpc:rejected-real-segment", format!("the real segment is rejected: {e}")))?;
    Ok(Built { info, recs, sut })
}

/// subject key id bytes announced for pool key `key`
pub fn skid(key: usize, len: usize) -> Vec<u8> {
    let h = Sha256::digest(format!("verif-c18-skid-{key}").as_bytes());
    h[..len.min(32)].to_vec()
}

// ----------------------------------------------------------------------- digest / reference

/// hash of `header_and_body || associated data` for the protobuf SignatureAlgorithm value
pub fn digest(algo: i32, hb: &[u8], assoc: &[u8]) -> Option<Vec<u8>> {
    Some(match algo {
        1 => {
            let mut h = Sha256::new();
            h.update(hb);
            h.update(assoc);
            h.finalize().to_vec()
        }
        2 => {
            let mut h = Sha384::new();
            h.update(hb);
            h.update(assoc);
            h.finalize().to_vec()
        }
        3 => {
            let mut h = Sha512::new();
            h.update(hb);
            h.update(assoc);
            h.finalize().to_vec()
        }
        _ => return None,
    })
}

/// Reference signer: SignedMessage = (HeaderAndBodyInternal{header, body}, DER ECDSA signature over
/// H(header_and_body || associated data)).
pub fn ref_sign(key: &SigningKey, hdr: &cr::Header, body: &[u8], assoc: &[u8]) -> (Vec<u8>, Vec<u8>) {
    let hb = cr::HeaderAndBodyInternal { header: hdr.encode_to_vec(), body: body.to_vec() }.encode_to_vec();
    let d = digest(hdr.signature_algorithm, &hb, assoc).expect("reference signer uses a known algorithm");
    let sig: Signature = key.sign_prehash(&d).expect("sign");
    (hb, sig.to_der().as_bytes().to_vec())
}

/// Independent verification of a signed message: the header announces the length of the
/// associated data, and the DER signature verifies over H(hb || assoc) with `vk`.
pub fn indep_verify(hb: &[u8], sig: &[u8], assoc: &[u8], vk: &VerifyingKey) -> Result<cr::Header, String> {
    let hab = cr::HeaderAndBodyInternal::decode(hb).map_err(|e| format!("header_and_body does not decode: {e}"))?;
    let hdr = cr::Header::decode(&hab.header[..]).map_err(|e| format!("header does not decode: {e}"))?;
    if hdr.associated_data_length as i64 != assoc.len() as i64 {
        return Err(format!(
            "header announces {} bytes of associated data, the chain rule gives {}",
            hdr.associated_data_length,
            assoc.len()
        ));
    }
    let d = digest(hdr.signature_algorithm, hb, assoc).ok_or("unknown signature algorithm")?;
    let s = Signature::from_der(sig).map_err(|e| format!("signature is not DER: {e}"))?;
    vk.verify_prehash(&d, &s).map_err(|e| format!("signature does not verify over hb||assoc: {e}"))?;
    Ok(hdr)
}

// ---------------------------------------------------------------------------------- DER

fn der_len(b: &[u8]) -> Option<(usize, usize)> {
    let f = *b.first()?;
    if f < 0x80 {
        Some((f as usize, 1))
    } else {
        let n = (f & 0x7f) as usize;
        if n == 0 || n > 2 || b.len() < 1 + n {
            return None;
        }
        let mut v = 0usize;
        for x in &b[1..1 + n] {
            v = (v << 8) | *x as usize;
        }
        Some((v, 1 + n))
    }
}
fn strip(v: &[u8]) -> Vec<u8> {
    let mut i = 0;
    while i < v.len() && v[i] == 0 {
        i += 1;
    }
    v[i..].to_vec()
}
/// Lenient BER-style parse of SEQUENCE{INTEGER r, INTEGER s}: long-form lengths and leading zeros
/// are tolerated; returns the magnitudes of r and s (leading zeros stripped). Whole input must be
/// consumed.
pub fn der_rs_lenient(sig: &[u8]) -> Option<(Vec<u8>, Vec<u8>)> {
    if *sig.first()? != 0x30 {
        return None;
    }
    let (l, c) = der_len(&sig[1..])?;
    let body = sig.get(1 + c..)?;
    if body.len() != l {
        return None;
    }
    let mut out = vec![];
    let mut rest = body;
    for _ in 0..2 {
        if *rest.first()? != 0x02 {
            return None;
        }
        let (l, c) = der_len(&rest[1..])?;
        let v = rest.get(1 + c..1 + c + l)?;
        if v.first().map(|b| b & 0x80 != 0).unwrap_or(true) {
            return None; // negative or empty
        }
        out.push(strip(v));
        rest = &rest[1 + c + l..];
    }
    if !rest.is_empty() {
        return None;
    }
    let s = out.pop()?;
    let r = out.pop()?;
    Some((r, s))
}

/// Alternative encodings of the same (r, s) / near misses, built from a strict DER signature.
/// 0: long-form SEQUENCE length, 1: zero-padded r, 2: trailing byte, 3: long-form INTEGER length
pub fn der_alt(sig: &[u8], kind: u8) -> Option<Vec<u8>> {
    if sig.len() < 8 || sig[0] != 0x30 || sig[1] >= 0x80 || sig[2] != 0x02 || sig[3] >= 0x80 {
        return None;
    }
    let body = &sig[2..];
    Some(match kind % 4 {
        0 => {
            let mut v = vec![0x30, 0x81, body.len() as u8];
            v.extend_from_slice(body);
            v
        }
        1 => {
            let rl = sig[3] as usize;
            let mut v = vec![0x30, (body.len() + 1) as u8, 0x02, (rl + 1) as u8, 0x00];
            v.extend_from_slice(&sig[4..]);
            v
        }
        2 => {
            let mut v = sig.to_vec();
            v.push(0x00);
            v
        }
        _ => {
            let rl = sig[3];
            let mut v = vec![0x30, (body.len() + 1) as u8, 0x02, 0x81, rl];
            v.extend_from_slice(&sig[4..]);
            v
        }
    })
}

/// (r, n - s): the other valid ECDSA signature for the same message and key.
pub fn malleate_s(sig: &[u8]) -> Option<Vec<u8>> {
    let s = Signature::from_der(sig).ok()?;
    let (r, sv) = s.split_scalars();
    let neg = -*sv;
    let m = Signature::from_scalars(*r, neg).ok()?;
    Some(m.to_der().as_bytes().to_vec())
}

// ------------------------------------------------------------------------------ specs

#[derive(Clone, Debug, Serialize, Deserialize, PartialEq, Eq, Hash)]
pub struct Hf {
    pub exp: u8,
    pub ing: u16,
    pub eg: u16,
}
#[derive(Clone, Debug, Serialize, Deserialize, PartialEq, Eq, Hash)]
pub struct PeerSpec {
    pub ia: u64,
    pub ifid: u16,
    pub mtu: u16,
    pub hf: Hf,
}
#[derive(Clone, Debug, Serialize, Deserialize, PartialEq, Eq, Hash)]
pub struct KeyIdSpec {
    pub trc_base: u64,
    pub trc_serial: u64,
    pub skid_len: u8,
}
#[derive(Clone, Debug, Serialize, Deserialize, PartialEq, Eq, Hash)]
pub struct EntrySpec {
    /// distinct per entry (generator: base + index)
    pub local: u64,
    pub mtu: u32,
    pub ingress_mtu: u16,
    pub hf: Hf,
    pub peers: Vec<PeerSpec>,
    /// index into the key pool (0..=2)
    pub key: u8,
    pub key_id: Option<KeyIdSpec>,
    pub sign_ts: u32,
    pub mac_key: u8,
}
#[derive(Clone, Copy, Debug, Serialize, Deserialize, PartialEq, Eq, Hash)]
pub enum Producer {
    /// `SignedPathSegment::empty` + `add_entry` (what `roundtrip_validation` does)
    ApiAddEntry,
    /// `SignedPathSegment::new` with a key provider
    ApiNew,
    /// `UnsignedPathSegment::add_unsigned_entry` + `try_into_signed_segment`
    ApiUnsigned,
    /// the independent reference signer (a foreign control service): digest algorithm
    /// 1..=3, optional extensions in the signed body, header timestamp absent, header metadata
    Reference { algo: u8, ext: bool, no_ts: bool, meta: bool },
}
#[derive(Clone, Debug, Serialize, Deserialize, PartialEq, Eq, Hash)]
pub struct SegSpec {
    pub ts: u32,
    pub seg_id: u16,
    pub entries: Vec<EntrySpec>,
    pub producer: Producer,
}

fn hf_strat() -> impl Strategy<Value = Hf> {
    (any::<u8>(), any::<u16>(), any::<u16>()).prop_map(|(exp, ing, eg)| Hf { exp, ing, eg })
}
fn peer_strat() -> impl Strategy<Value = PeerSpec> {
    (any::<u64>(), any::<u16>(), any::<u16>(), hf_strat()).prop_map(|(ia, ifid, mtu, hf)| PeerSpec { ia, ifid, mtu, hf })
}
fn keyid_strat() -> impl Strategy<Value = Option<KeyIdSpec>> {
    prop_oneof![
        2 => Just(None),
        3 => (any::<u64>(), any::<u64>(), prop_oneof![Just(20u8), 0u8..=32]).prop_map(|(b, s, l)| Some(KeyIdSpec {
            trc_base: b,
            trc_serial: s,
            skid_len: l
        })),
    ]
}
fn entry_strat(nkeys: u8) -> impl Strategy<Value = EntrySpec> {
    (
        prop_oneof![Just(1500u32), any::<u32>()],
        any::<u16>(),
        hf_strat(),
        prop_oneof![3 => Just(vec![]), 3 => proptest::collection::vec(peer_strat(), 1..=2)],
        0..nkeys,
        keyid_strat(),
        any::<u32>(),
        any::<u8>(),
    )
        .prop_map(|(mtu, ingress_mtu, hf, peers, key, key_id, sign_ts, mac_key)| EntrySpec {
            local: 0,
            mtu,
            ingress_mtu,
            hf,
            peers,
            key,
            key_id,
            sign_ts,
            mac_key,
        })
}
pub fn producer_strat() -> impl Strategy<Value = Producer> {
    prop_oneof![
        3 => Just(Producer::ApiAddEntry),
        1 => Just(Producer::ApiNew),
        1 => Just(Producer::ApiUnsigned),
        3 => (1u8..=3, any::<bool>(), any::<bool>(), any::<bool>()).prop_map(|(algo, ext, no_ts, meta)| Producer::Reference {
            algo,
            ext,
            no_ts,
            meta
        }),
    ]
}
/// Segments of `lo..=hi` entries with 0..=2 peer entries each and 2..=3 signing keys.
pub fn seg_strat(lo: usize, hi: usize) -> impl Strategy<Value = SegSpec> {
    (2u8..=3).prop_flat_map(move |nkeys| {
        (
            prop_oneof![Just(0u32), any::<u32>()],
            prop_oneof![Just(0u16), any::<u16>()],
            proptest::collection::vec(entry_strat(nkeys), lo..=hi),
            any::<u16>(),
            1u64..0xffff_ffff_ff00,
            producer_strat(),
        )
            .prop_map(|(ts, seg_id, mut entries, isd, base, producer)| {
                for (i, e) in entries.iter_mut().enumerate() {
                    e.local = ((isd as u64) << 48) | (base + i as u64);
                }
                SegSpec { ts, seg_id, entries, producer }
            })
    })
}

// ------------------------------------------------------------------------------ building

/// An authentic signed entry together with exactly what it was signed over.
#[derive(Clone, Debug)]
pub struct Rec {
    pub hb: Vec<u8>,
    pub sig: Vec<u8>,
    /// the associated data the signer covered: segment info bytes || (hb || sig) of every
    /// preceding entry
    pub assoc: Vec<u8>,
    /// pool index of the signing key
    pub key: usize,
}

pub struct Built {
    pub info: Vec<u8>,
    pub recs: Vec<Rec>,
    pub sut: SignedPathSegment,
}

pub fn chain_assoc(info: &[u8], prev: &[(Vec<u8>, Vec<u8>)]) -> Vec<u8> {
    let mut a = info.to_vec();
    for (hb, sig) in prev {
        a.extend_from_slice(hb);
        a.extend_from_slice(sig);
    }
    a
}

fn mac_key(seed: u8) -> [u8; 16] {
    let h = Sha256::digest([b'm', seed]);
    let mut k = [0u8; 16];
    k.copy_from_slice(&h[..16]);
    k
}
fn fake_mac(local: u64, i: usize) -> [u8; 6] {
    let h = Sha256::digest([&local.to_be_bytes()[..], &[i as u8]].concat());
    let mut m = [0u8; 6];
    m.copy_from_slice(&h[..6]);
    m
}

pub fn key_id_msg(e: &EntrySpec) -> Option<cp::VerificationKeyId> {
    e.key_id.as_ref().map(|k| cp::VerificationKeyId {
        isd_as: e.local,
        subject_key_id: skid(e.key as usize, k.skid_len as usize),
        trc_base: k.trc_base,
        trc_serial: k.trc_serial,
    })
}

fn next_of(spec: &SegSpec, i: usize) -> u64 {
    spec.entries.get(i + 1).map(|e| e.local).unwrap_or(0)
}

pub fn sut_entry(spec: &SegSpec, i: usize) -> AsEntry {
    let e = &spec.entries[i];
    AsEntry {
        local: IsdAsn(e.local),
        next: IsdAsn(next_of(spec, i)),
        mtu: e.mtu,
        hop_entry: HopEntry {
            ingress_mtu: e.ingress_mtu,
            hop_field: SegmentHopField {
                expiration_units: e.hf.exp,
                cons_ingress: e.hf.ing,
                cons_egress: e.hf.eg,
                mac: HopFieldMac([0; 6]),
            },
        },
        peer_entries: e
            .peers
            .iter()
            .map(|p| PeerEntry {
                peer: IsdAsn(p.ia),
                peer_interface: p.ifid,
                peer_mtu: p.mtu,
                hop_field: SegmentHopField {
                    expiration_units: p.hf.exp,
                    cons_ingress: p.hf.ing,
                    cons_egress: p.hf.eg,
                    mac: HopFieldMac([0; 6]),
                },
            })
            .collect(),
        extensions: vec![],
        unsigned_extensions: vec![],
    }
}

/// body of a reference-signed entry (values inside the documented field widths)
pub fn ref_body(spec: &SegSpec, i: usize, ext: bool) -> cp::AsEntrySignedBody {
    let e = &spec.entries[i];
    cp::AsEntrySignedBody {
        isd_as: e.local,
        next_isd_as: next_of(spec, i),
        hop_entry: Some(cp::HopEntry {
            hop_field: Some(cp::HopField {
                ingress: e.hf.ing as u64,
                egress: e.hf.eg as u64,
                exp_time: e.hf.exp as u32,
                mac: fake_mac(e.local, 0).to_vec(),
            }),
            ingress_mtu: e.ingress_mtu as u32,
        }),
        peer_entries: e
            .peers
            .iter()
            .enumerate()
            .map(|(j, p)| cp::PeerEntry {
                peer_isd_as: p.ia,
                peer_interface: p.ifid as u64,
                peer_mtu: p.mtu as u32,
                hop_field: Some(cp::HopField {
                    ingress: p.hf.ing as u64,
                    egress: p.hf.eg as u64,
                    exp_time: p.hf.exp as u32,
                    mac: fake_mac(e.local, j + 1).to_vec(),
                }),
            })
            .collect(),
        mtu: e.mtu,
        extensions: ext.then(|| cp::PathSegmentExtensions {
            static_info: Some(cp::StaticInfoExtension { note: format!("as {i}"), ..Default::default() }),
            hidden_path: Some(cp::HiddenPathExtension { is_hidden: i % 2 == 0 }),
            digests: None,
        }),
    }
}

pub fn ref_header(spec: &SegSpec, i: usize, declared_len: i32) -> cr::Header {
    let e = &spec.entries[i];
    let (algo, no_ts, meta) = match spec.producer {
        Producer::Reference { algo, no_ts, meta, .. } => (algo as i32, no_ts, meta),
        _ => (1, false, false),
    };
    cr::Header {
        signature_algorithm: algo,
        verification_key_id: key_id_msg(e).map(|k| k.encode_to_vec()).unwrap_or_default(),
        timestamp: (!no_ts).then_some(prost_types::Timestamp { seconds: e.sign_ts as i64, nanos: (i as i32) * 1000 }),
        metadata: if meta { vec![0x08, i as u8 + 1] } else { vec![] },
        associated_data_length: declared_len,
    }
}

pub fn rpc_segment(info: &[u8], entries: &[(Vec<u8>, Vec<u8>)]) -> cp::PathSegment {
    cp::PathSegment {
        segment_info: info.to_vec(),
        as_entries: entries
            .iter()
            .map(|(hb, sig)| cp::AsEntry {
                signed: Some(cr::SignedMessage { header_and_body: hb.clone(), signature: sig.clone() }),
                unsigned: None,
            })
            .collect(),
    }
}

/// through the wire: encode, decode with prost, convert
pub fn sut_from_rpc(msg: &cp::PathSegment) -> Result<SignedPathSegment, String> {
    let bytes = msg.encode_to_vec();
    let back = cp::PathSegment::decode(&bytes[..]).map_err(|e| format!("prost decode of an encoded PathSegment failed: {e}"))?;
    SignedPathSegment::try_from_rpc(back).map_err(|e| e.to_string())
}

pub fn canonical_info(ts: u32, seg_id: u16) -> Vec<u8> {
    cp::SegmentInformation { timestamp: ts as i64, segment_id: seg_id as u32 }.encode_to_vec()
}

/// Builds the segment of `spec` with its producer. For the API producers the records are read
/// back from `into_rpc()` and `assoc` is what the chain rule *says* was signed; the caller checks
/// that claim with `indep_verify`.
pub fn build(spec: &SegSpec) -> Result<Built, Fail> {
    let p = pool();
    match spec.producer {
        Producer::Reference { ext, .. } => {
            let info = canonical_info(spec.ts, spec.seg_id);
            let mut done: Vec<(Vec<u8>, Vec<u8>)> = vec![];
            let mut recs = vec![];
            for (i, e) in spec.entries.iter().enumerate() {
                let assoc = chain_assoc(&info, &done);
                let hdr = ref_header(spec, i, assoc.len() as i32);
                let body = ref_body(spec, i, ext).encode_to_vec();
                let (hb, sig) = ref_sign(&p.sk[e.key as usize], &hdr, &body, &assoc);
                recs.push(Rec { hb: hb.clone(), sig: sig.clone(), assoc, key: e.key as usize });
                done.push((hb, sig));
            }
            let sut = sut_from_rpc(&rpc_segment(&info, &done)).map_err(|e| {
                Fail::new(
                    "seg-from-rpc:rejected-reference-segment",
                    format!("a well-formed segment produced by the reference signer is rejected: {e}"),
                )
            })?;
            Ok(Built { info, recs, sut })
        }
        api => {
            let sut = vcore::no_panic("build segment through the public API", || -> Result<SignedPathSegment, String> {
                match api {
                    Producer::ApiAddEntry => {
                        let mut seg = SignedPathSegment::empty(spec.ts, spec.seg_id);
                        for (i, e) in spec.entries.iter().enumerate() {
                            seg.add_entry(sut_entry(spec, i), &p.sk[e.key as usize], key_id_msg(e), &mac_key(e.mac_key), e.sign_ts)
                                .map_err(|e| e.to_string())?;
                        }
                        Ok(seg)
                    }
                    Producer::ApiNew => {
                        let entries = (0..spec.entries.len()).map(|i| sut_entry(spec, i)).collect();
                        SignedPathSegment::new(spec.ts, spec.seg_id, entries, |ia| {
                            spec.entries.iter().find(|e| e.local == ia.0).map(|e| EntryKeyInfo {
                                key: p.sk[e.key as usize].clone(),
                                key_id: key_id_msg(e),
                                mac_key: mac_key(e.mac_key),
                            })
                        })
                        .map_err(|e| e.to_string())
                    }
                    _ => {
                        let mut seg = UnsignedPathSegment::new(spec.ts, spec.seg_id, vec![]);
                        for (i, e) in spec.entries.iter().enumerate() {
                            seg.add_unsigned_entry(sut_entry(spec, i), &mac_key(e.mac_key));
                        }
                        let ts = spec.entries.first().map(|e| e.sign_ts).unwrap_or(0);
                        seg.try_into_signed_segment(
                            |ia| spec.entries.iter().find(|e| e.local == ia.0).map(|e| (p.sk[e.key as usize].clone(), key_id_msg(e))),
                            ts,
                        )
                        .map_err(|e| e.to_string())
                    }
                }
            })?
            .map_err(|e| Fail::new("api-sign:error", format!("signing a well-formed segment failed: {e}")))?;
            let msg = sut.clone().into_rpc();
            let info = msg.segment_info.clone();
            let mut done: Vec<(Vec<u8>, Vec<u8>)> = vec![];
            let mut recs = vec![];
            for (i, a) in msg.as_entries.iter().enumerate() {
                let s = a.signed.as_ref().ok_or_else(|| Fail::new("seg-to-rpc:missing-signed", format!("entry {i} has no signed part")))?;
                let assoc = chain_assoc(&info, &done);
                recs.push(Rec { hb: s.header_and_body.clone(), sig: s.signature.clone(), assoc, key: spec.entries[i].key as usize });
                done.push((s.header_and_body.clone(), s.signature.clone()));
            }
            if recs.len() != spec.entries.len() {
                return Err(Fail::new("seg-to-rpc:entry-count", format!("{} entries signed, {} in the rpc form", spec.entries.len(), recs.len())));
            }
            Ok(Built { info, recs, sut })
        }
    }
}
