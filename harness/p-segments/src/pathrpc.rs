//! `ScionPath` <-> daemon `rpc::Path`.
//!
//! * value side: from_rpc(to_rpc(x)) == x for paths with rich metadata in canonical form
//! * message side, well-formed per the comments of daemon.proto (latency / bandwidth N-1, geo N,
//!   link types N/2, internal hops N/2-1, notes N/2+1 for N interfaces): accepted, every announced
//!   datum is found at the interface the proto comment assigns it to, and the accepted value
//!   survives to_rpc -> from_rpc
//! * message side, arbitrary: Ok or Err, never a panic; accepted values are faithful

use std::{
    net::{Ipv4Addr, Ipv6Addr, SocketAddr, SocketAddrV4, SocketAddrV6},
    time::Duration,
};

use proptest::prelude::*;
use refmodel::wire::{RHop, RInfo, RStd, encode_std_path};
use sciparse::{
    core::view::View,
    dataplane_path::{
        standard::view::StandardPathView,
        view::{ScionDpPathView, ScionDpPathViewExt},
    },
    identifier::isd_asn::IsdAsn,
    path::{
        ScionPath,
        metadata::{
            InterfaceMetadata, PathMetadata,
            geo::GeoCoordinates,
            link::{LinkMeta, LinkType},
            path_interface::PathInterface,
        },
    },
    reexport::{prost, prost_types, protobuf},
};
use prost::Message;
use protobuf::daemon::v1 as rpc;
use serde::{Deserialize, Serialize};
use vcore::{CheckResult, Fail, Obs, ensure};

// ------------------------------------------------------------------------------ raw paths

fn raw_std_path() -> impl Strategy<Value = (Vec<u8>, usize)> {
    proptest::collection::vec(1u8..=4, 1..=3).prop_flat_map(|lens| {
        let nseg = lens.len();
        let nhop: usize = lens.iter().map(|l| *l as usize).sum();
        (
            Just(lens),
            proptest::collection::vec((0u8..4, any::<u16>(), any::<u32>()), nseg..=nseg),
            proptest::collection::vec((any::<u8>(), any::<u16>(), any::<u16>(), any::<[u8; 6]>()), nhop..=nhop),
        )
            .prop_map(move |(lens, infos, hops)| {
                let mut seg_len = [0u8; 3];
                for (i, l) in lens.iter().enumerate() {
                    seg_len[i] = *l;
                }
                let p = RStd {
                    curr_inf: 0,
                    curr_hf: 0,
                    rsv: 0,
                    seg_len,
                    infos: infos.into_iter().map(|(flags, seg_id, ts)| RInfo { flags, rsv: 0, seg_id, ts }).collect(),
                    hops: hops.into_iter().map(|(exp, ing, eg, mac)| RHop { flags: 0, exp, ing, eg, mac }).collect(),
                };
                let ases = (nhop - (nseg - 1)).max(2);
                (encode_std_path(&p), ases)
            })
    })
}

fn text() -> impl Strategy<Value = String> {
    prop_oneof![2 => "[a-zA-Z0-9 ,.-]{0,12}", 1 => "\\PC{0,6}"]
}
fn text1() -> impl Strategy<Value = String> {
    prop_oneof![2 => "[a-zA-Z0-9 ,.-]{1,12}", 1 => "\\PC{1,6}"]
}

#[derive(Clone, Debug, Serialize, Deserialize, PartialEq)]
pub enum Sock {
    V4([u8; 4], u16),
    V6([u16; 8], u16, u32),
}
impl Sock {
    fn addr(&self) -> SocketAddr {
        match self {
            Sock::V4(a, p) => SocketAddr::V4(SocketAddrV4::new(Ipv4Addr::from(*a), *p)),
            Sock::V6(a, p, scope) => {
                SocketAddr::V6(SocketAddrV6::new(Ipv6Addr::new(a[0], a[1], a[2], a[3], a[4], a[5], a[6], a[7]), *p, 0, *scope))
            }
        }
    }
}
fn sock() -> impl Strategy<Value = Sock> {
    prop_oneof![
        (any::<[u8; 4]>(), any::<u16>()).prop_map(|(a, p)| Sock::V4(a, p)),
        (any::<[u16; 8]>(), any::<u16>(), prop_oneof![3 => Just(0u32), 1 => any::<u32>()]).prop_map(|(a, p, s)| Sock::V6(a, p, s)),
    ]
}

// ------------------------------------------------------------------------------ value side

#[derive(Clone, Debug, Serialize, Deserialize, PartialEq)]
pub struct IfSpec {
    pub ia: u64,
    pub id: u16,
    /// latitude (non-zero), longitude, address (non-empty)
    pub geo: Option<(f32, f32, Option<String>)>,
    /// to the next interface (none for the last one)
    pub latency: Option<(u64, u32)>,
    pub bandwidth: Option<u64>,
}
#[derive(Clone, Debug, Serialize, Deserialize, PartialEq)]
pub struct PathVal {
    pub src: u64,
    pub dst: u64,
    #[serde(with = "vcore::hexbytes")]
    pub raw: Vec<u8>,
    pub exp: u64,
    pub mtu: u16,
    pub ifs: Vec<IfSpec>,
    /// one per inter-AS link (N/2), all or nothing
    pub link_types: Option<Vec<u8>>,
    /// one per traversed AS (N/2-1), all or nothing
    pub internal_hops: Option<Vec<u32>>,
    /// one per AS (N/2+1)
    pub notes: Option<Vec<String>>,
    pub next_hop: Option<Sock>,
}

fn geo_val() -> impl Strategy<Value = Option<(f32, f32, Option<String>)>> {
    prop_oneof![
        1 => Just(None),
        2 => (prop_oneof![-90.0f32..-0.001, 0.001f32..90.0], -180.0f32..180.0, prop_oneof![Just(None), text1().prop_map(Some)]).prop_map(Some),
    ]
}
fn if_spec() -> impl Strategy<Value = IfSpec> {
    let w = 3;
    (
        any::<u64>(),
        any::<u16>(),
        prop_oneof![1 => Just(None), w => geo_val()],
        prop_oneof![1 => Just(None), w => (prop_oneof![0u64..100, any::<u32>().prop_map(|x| x as u64), 0u64..(1 << 62)], 0u32..1_000_000_000).prop_map(Some)],
        prop_oneof![1 => Just(None), w => (1u64..=u64::MAX).prop_map(Some)],
    )
        .prop_map(|(ia, id, geo, latency, bandwidth)| IfSpec { ia, id, geo, latency, bandwidth })
}
fn link_val() -> impl Strategy<Value = u8> {
    prop_oneof![4 => 0u8..=3, 1 => 4u8..=255]
}

/// `rich`: per-link metadata may be present
pub fn path_val(rich: bool) -> impl Strategy<Value = PathVal> {
    path_val_rich().prop_map(move |mut p| {
        if !rich {
            p.link_types = None;
            p.internal_hops = None;
            for i in p.ifs.iter_mut() {
                i.latency = None;
                i.bandwidth = None;
            }
        }
        p
    })
}
fn path_val_rich() -> impl Strategy<Value = PathVal> {
    raw_std_path().prop_flat_map(move |(raw, ases)| {
        let n = 2 * (ases - 1);
        let present = |w: u32| w;
        (
            (any::<u64>(), any::<u64>(), Just(raw)),
            prop_oneof![any::<u32>().prop_map(|x| x as u64), 0u64..=i64::MAX as u64],
            any::<u16>(),
            proptest::collection::vec(if_spec(), n..=n),
            prop_oneof![1 => Just(None), present(2) => proptest::collection::vec(link_val(), n / 2..=n / 2).prop_map(Some)],
            prop_oneof![1 => Just(None), present(2) => proptest::collection::vec(any::<u32>(), n / 2 - 1..=n / 2 - 1).prop_map(Some)],
            prop_oneof![1 => Just(None), 1 => proptest::collection::vec(text(), n / 2 + 1..=n / 2 + 1).prop_map(Some)],
            prop_oneof![1 => Just(None), 2 => sock().prop_map(Some)],
        )
            .prop_map(|((src, dst, raw), exp, mtu, mut ifs, link_types, internal_hops, notes, next_hop)| {
                if let Some(l) = ifs.last_mut() {
                    l.latency = None;
                    l.bandwidth = None;
                }
                PathVal { src, dst, raw, exp, mtu, ifs, link_types, internal_hops, notes, next_hop }
            })
    })
}

fn link_type(v: u8) -> LinkType {
    match v {
        0 => LinkType::Unset,
        1 => LinkType::Direct,
        2 => LinkType::MultiHop,
        3 => LinkType::OpenNet,
        x => LinkType::Unknown(x),
    }
}

pub fn dp_view(raw: &[u8]) -> Result<ScionDpPathView, Fail> {
    let (view, rest) = StandardPathView::try_from_slice(raw).map_err(|e| Fail::new("generator:raw-path", format!("reference-encoded standard path rejected: {e}")))?;
    ensure!(rest.is_empty(), "generator:raw-path", "reference-encoded standard path leaves {} bytes", rest.len());
    Ok(view.to_boxed().into())
}

pub fn build_val(p: &PathVal) -> Result<ScionPath, Fail> {
    let n = p.ifs.len();
    let interfaces = p
        .ifs
        .iter()
        .enumerate()
        .map(|(i, s)| InterfaceMetadata {
            interface: PathInterface::new(IsdAsn(s.ia), s.id),
            geo_info: s.geo.clone().map(|(la, lo, a)| GeoCoordinates::new(la, lo, a)),
            latency: s.latency.map(|(s, n)| Duration::new(s, n)),
            bandwidth: s.bandwidth,
            link: if i % 2 == 0 {
                p.link_types.as_ref().map(|v| LinkMeta::Egress(link_type(v[i / 2])))
            } else if i + 1 < n {
                p.internal_hops.as_ref().map(|v| LinkMeta::Ingress { internal_hop_count: v[(i - 1) / 2] })
            } else {
                None
            },
        })
        .collect();
    let meta = PathMetadata { expiration: p.exp, mtu: p.mtu, interfaces: Some(interfaces), epic_auth: None, notes: p.notes.clone() };
    Ok(ScionPath::new(IsdAsn(p.src), IsdAsn(p.dst), dp_view(&p.raw)?, Some(meta), p.next_hop.as_ref().map(|s| s.addr())))
}

fn through_wire(m: &rpc::Path) -> rpc::Path {
    let b = m.encode_to_vec();
    rpc::Path::decode(&b[..]).expect("prost decodes what it encoded")
}

/// equality that tolerates NaN (Debug prints every other f32 distinctly)
fn same(a: &ScionPath, b: &ScionPath) -> bool {
    a == b || format!("{a:?}") == format!("{b:?}")
}

/// names the first metadata field (fixed order) that `after` lost or changed relative to `before`
pub fn first_difference(before: &ScionPath, after: &ScionPath) -> (String, String) {
    let (bm, am) = (before.metadata(), after.metadata());
    let (Some(bm), Some(am)) = (bm, am) else {
        return ("metadata".into(), format!("metadata {:?} -> {:?}", bm.is_some(), am.is_some()));
    };
    let (Some(bi), Some(ai)) = (&bm.interfaces, &am.interfaces) else {
        return ("interfaces".into(), "interface list presence differs".into());
    };
    if bi.len() != ai.len() {
        return ("interfaces".into(), format!("{} interfaces -> {}", bi.len(), ai.len()));
    }
    type Get = fn(&InterfaceMetadata) -> String;
    let fields: [(&str, Get); 6] = [
        ("interface", |m| format!("{:?}", m.interface)),
        ("latency", |m| format!("{:?}", m.latency)),
        ("bandwidth", |m| format!("{:?}", m.bandwidth)),
        ("geo", |m| format!("{:?}", m.geo_info)),
        ("link_type", |m| format!("{:?}", m.link.filter(|l| matches!(l, LinkMeta::Egress(_))))),
        ("internal_hops", |m| format!("{:?}", m.link.filter(|l| matches!(l, LinkMeta::Ingress { .. })))),
    ];
    for (name, get) in fields {
        for (i, (b, a)) in bi.iter().zip(ai.iter()).enumerate() {
            let (b, a) = (get(b), get(a));
            if b != a {
                let verb = if a == "None" { "lost" } else { "changed" };
                return (format!("{verb}:{name}"), format!("interface {i} of {}: {name} {b} -> {a}", bi.len()));
            }
        }
    }
    if bm.notes != am.notes {
        return ("changed:notes".into(), format!("notes {:?} -> {:?}", bm.notes, am.notes));
    }
    if bm.expiration != am.expiration {
        return ("changed:expiration".into(), format!("expiration {} -> {}", bm.expiration, am.expiration));
    }
    if bm.mtu != am.mtu {
        return ("changed:mtu".into(), format!("mtu {} -> {}", bm.mtu, am.mtu));
    }
    if bm.epic_auth != am.epic_auth {
        return ("changed:epic_auth".into(), format!("epic {:?} -> {:?}", bm.epic_auth, am.epic_auth));
    }
    if before.next_hop() != after.next_hop() {
        return ("changed:next_hop".into(), format!("next hop {:?} -> {:?}", before.next_hop(), after.next_hop()));
    }
    if before.dp_path() != after.dp_path() {
        return ("changed:dataplane-path".into(), "raw path bytes differ".into());
    }
    ("changed:other".into(), format!("{before:?}\n  -> {after:?}"))
}

/// smallest paths carrying one kind of per-link metadata each (documented regression inputs)
pub fn minimal_vals() -> Vec<PathVal> {
    let raw = |hops: usize| {
        encode_std_path(&RStd {
            curr_inf: 0,
            curr_hf: 0,
            rsv: 0,
            seg_len: [hops as u8, 0, 0],
            infos: vec![RInfo { flags: 1, rsv: 0, seg_id: 1, ts: 1_700_000_000 }],
            hops: (0..hops).map(|i| RHop { flags: 0, exp: 63, ing: i as u16, eg: i as u16 + 1, mac: [i as u8; 6] }).collect(),
        })
    };
    let base = |ases: usize| PathVal {
        src: 0x0001_ff00_0000_0110,
        dst: 0x0001_ff00_0000_0111,
        raw: raw(ases),
        exp: 1_700_003_600,
        mtu: 1400,
        ifs: (0..2 * (ases - 1)).map(|i| IfSpec { ia: 0x0001_ff00_0000_0110 + (i as u64 + 1) / 2, id: i as u16 + 1, geo: None, latency: None, bandwidth: None }).collect(),
        link_types: None,
        internal_hops: None,
        notes: None,
        next_hop: None,
    };
    let mut v = vec![];
    // positive control: geo and notes only
    let mut p = base(2);
    p.ifs[0].geo = Some((47.4, 8.5, Some("Zurich".into())));
    p.notes = Some(vec!["a".into(), "b".into()]);
    v.push(p);
    let mut p = base(2);
    p.ifs[0].latency = Some((0, 1_000_000));
    v.push(p);
    let mut p = base(2);
    p.ifs[0].bandwidth = Some(1000);
    v.push(p);
    let mut p = base(2);
    p.link_types = Some(vec![1]);
    v.push(p);
    let mut p = base(3);
    p.internal_hops = Some(vec![3]);
    v.push(p);
    v
}

/// smallest messages: a plain well-formed one (positive control) and one with a negative expiration
pub fn minimal_msgs() -> Vec<PathMsg> {
    let v = &minimal_vals()[0];
    let base = PathMsg {
        src: v.src,
        dst: v.dst,
        raw: v.raw.clone(),
        ifs: v.ifs.iter().map(|i| (i.ia, i.id as u64)).collect(),
        mtu: 1400,
        exp: Some((1_700_003_600, 0)),
        latency: vec![],
        bandwidth: vec![],
        geo: vec![],
        link_type: vec![],
        internal_hops: vec![],
        notes: vec![],
        addr: None,
        epic: None,
        discovery: false,
    };
    let mut neg = base.clone();
    neg.exp = Some((-1, 0));
    vec![base, neg]
}

pub fn has_per_link(p: &PathVal) -> bool {
    p.link_types.is_some() || p.internal_hops.is_some() || p.ifs.iter().any(|i| i.latency.is_some() || i.bandwidth.is_some())
}

pub fn check_val(p: &PathVal, obs: &mut Obs) -> CheckResult {
    let x = vcore::no_panic("ScionPath::new", || build_val(p))??;
    let m = vcore::no_panic("ScionPath::to_rpc", || x.to_rpc())?;
    let m = through_wire(&m);
    let y = vcore::no_panic("ScionPath::try_from_rpc", || ScionPath::try_from_rpc(m.clone(), IsdAsn(p.src), IsdAsn(p.dst)))?
        .map_err(|e| Fail::new("path-rt:rejected", format!("from_rpc(to_rpc(path)) fails: {e}")))?;
    obs.label(format!("pathval:interfaces:{}", p.ifs.len()));
    if has_per_link(p) {
        obs.label("pathval:per-link-metadata");
        obs.nontrivial(&format!("{p:?}"));
    } else {
        obs.label("pathval:no-per-link-metadata");
    }
    if p.ifs.iter().any(|i| i.geo.is_some()) {
        obs.label("pathval:geo");
    }
    if p.notes.is_some() {
        obs.label("pathval:notes");
    }
    if !same(&x, &y) {
        let (what, detail) = first_difference(&x, &y);
        return Err(Fail::new(format!("path-rt:{what}"), format!("from_rpc(to_rpc(path)) differs: {detail}")));
    }
    Ok(())
}

/// local (empty) paths
pub fn check_local(ia: u64) -> CheckResult {
    // documented: None if the AS is a wildcard (ISD 0 or AS 0)
    let wildcard = (ia >> 48) == 0 || (ia & 0xffff_ffff_ffff) == 0;
    let Some(x) = ScionPath::local(IsdAsn(ia)) else {
        ensure!(wildcard, "path-local:none", "ScionPath::local({ia:#x}) is None");
        return Ok(());
    };
    ensure!(!wildcard, "path-local:wildcard-accepted", "ScionPath::local({ia:#x}) is Some for a wildcard");
    let y = ScionPath::try_from_rpc(through_wire(&x.to_rpc()), IsdAsn(ia), IsdAsn(ia)).map_err(|e| Fail::new("path-rt:local-rejected", e.to_string()))?;
    ensure!(same(&x, &y), "path-rt:local-differs", "local path round trip differs: {x:?} -> {y:?}");
    Ok(())
}

// ------------------------------------------------------------------------------ message side

#[derive(Clone, Debug, Serialize, Deserialize, PartialEq)]
pub struct PathMsg {
    pub src: u64,
    pub dst: u64,
    #[serde(with = "vcore::hexbytes")]
    pub raw: Vec<u8>,
    pub ifs: Vec<(u64, u64)>,
    pub mtu: u32,
    pub exp: Option<(i64, i32)>,
    pub latency: Vec<(i64, i32)>,
    pub bandwidth: Vec<u64>,
    pub geo: Vec<(f32, f32, String)>,
    pub link_type: Vec<i32>,
    pub internal_hops: Vec<u32>,
    pub notes: Vec<String>,
    /// None: no interface; Some(None): interface without address; Some(Some(s)): address string
    pub addr: Option<Option<String>>,
    pub epic: Option<(u8, u8)>,
    pub discovery: bool,
}

fn lat_wf() -> impl Strategy<Value = (i64, i32)> {
    prop_oneof![
        3 => (prop_oneof![0i64..100, 0i64..(1 << 40)], 0i32..1_000_000_000),
        1 => Just((-1i64, 0i32)),
        1 => (i64::MIN..0, Just(0i32)),
    ]
}
fn geo_wf() -> impl Strategy<Value = (f32, f32, String)> {
    prop_oneof![
        1 => Just((0.0f32, 0.0f32, String::new())),
        1 => (Just(0.0f32), Just(0.0f32), text1()),
        2 => (-90.0f32..90.0, -180.0f32..180.0, text()),
    ]
}

/// Messages a conforming daemon sends (vector lengths per daemon.proto; a vector may also be absent).
pub fn path_msg_wellformed() -> impl Strategy<Value = PathMsg> {
    raw_std_path().prop_flat_map(|(raw, ases)| {
        let n = 2 * (ases - 1);
        let maybe = |len: usize| prop_oneof![1 => Just(0usize), 3 => Just(len)];
        (maybe(n - 1), maybe(n - 1), maybe(n), maybe(n / 2), maybe(n / 2 - 1), maybe(n / 2 + 1)).prop_flat_map(move |(l_lat, l_bw, l_geo, l_lt, l_ih, l_notes)| {
            (
                (any::<u64>(), any::<u64>(), Just(raw.clone())),
                proptest::collection::vec((any::<u64>(), 0u64..=65535), n..=n),
                0u32..=65535,
                (0i64..=i64::MAX, 0i32..1_000_000_000),
                proptest::collection::vec(lat_wf(), l_lat..=l_lat),
                proptest::collection::vec(prop_oneof![1 => Just(0u64), 3 => any::<u64>()], l_bw..=l_bw),
                proptest::collection::vec(geo_wf(), l_geo..=l_geo),
                proptest::collection::vec(prop_oneof![4 => 0i32..=3, 1 => 4i32..=255], l_lt..=l_lt),
                proptest::collection::vec(any::<u32>(), l_ih..=l_ih),
                (
                    proptest::collection::vec(text(), l_notes..=l_notes),
                    prop_oneof![1 => Just(None), 1 => Just(Some(None)), 3 => sock().prop_map(|s| Some(Some(s.addr().to_string())))],
                    prop_oneof![3 => Just(None), 1 => (0u8..20, 0u8..20).prop_map(Some)],
                    any::<bool>(),
                ),
            )
                .prop_map(|((src, dst, raw), ifs, mtu, exp, latency, bandwidth, geo, link_type, internal_hops, (notes, addr, epic, discovery))| PathMsg {
                    src,
                    dst,
                    raw,
                    ifs,
                    mtu,
                    exp: Some(exp),
                    latency,
                    bandwidth,
                    geo,
                    link_type,
                    internal_hops,
                    notes,
                    addr,
                    epic,
                    discovery,
                })
        })
    })
}

/// Anything a remote service can send.
pub fn path_msg_arbitrary() -> impl Strategy<Value = PathMsg> {
    let raw = prop_oneof![
        6 => raw_std_path().prop_map(|(r, _)| r),
        1 => Just(vec![]),
        1 => proptest::collection::vec(any::<u8>(), 0..60),
        1 => (raw_std_path(), any::<u16>()).prop_map(|((mut r, _), cut)| {
            let k = vcore::idx(cut, r.len());
            r.truncate(k);
            r
        }),
        1 => (raw_std_path(), proptest::collection::vec(any::<u8>(), 1..5)).prop_map(|((mut r, _), t)| {
            r.extend(t);
            r
        }),
    ];
    let ia = || prop_oneof![1 => Just(0u64), 1 => Just(0x0001_ff00_0000_0110u64), 2 => any::<u64>()];
    let id = prop_oneof![6 => 0u64..=65535, 1 => Just(65536u64), 1 => any::<u64>()];
    let lens = || 0usize..9;
    (raw, (ia(), ia(), any::<bool>()), proptest::collection::vec((any::<u64>(), id), 0..9), (lens(), lens(), lens(), lens(), lens(), lens())).prop_flat_map(
        |(raw, (src, dst, same_ia), ifs, (l_lat, l_bw, l_geo, l_lt, l_ih, l_notes))| {
            let n = ifs.len();
            // lengths: half of the time the documented one, else arbitrary
            let pick = move |doc: usize, arb: usize| if arb % 2 == 0 { doc } else { arb };
            let (l_lat, l_bw, l_geo) = (pick(n.saturating_sub(1), l_lat), pick(n.saturating_sub(1), l_bw), pick(n, l_geo));
            let (l_lt, l_ih, l_notes) = (pick(n / 2, l_lt), pick((n / 2).saturating_sub(1), l_ih), pick(n / 2 + 1, l_notes));
            (
                (Just(raw), Just(src), Just(if same_ia { src } else { dst }), Just(ifs)),
                prop_oneof![4 => 0u32..=65535, 1 => Just(65536u32), 1 => any::<u32>()],
                prop_oneof![1 => Just(None), 4 => (0i64..=u32::MAX as i64, 0i32..1_000_000_000).prop_map(Some), 2 => (any::<i64>(), any::<i32>()).prop_map(Some)],
                proptest::collection::vec(prop_oneof![2 => lat_wf(), 1 => (any::<i64>(), any::<i32>())], l_lat..=l_lat),
                proptest::collection::vec(any::<u64>(), l_bw..=l_bw),
                proptest::collection::vec(prop_oneof![3 => geo_wf(), 1 => (any::<f32>(), any::<f32>(), text())], l_geo..=l_geo),
                proptest::collection::vec(prop_oneof![3 => 0i32..=5, 1 => any::<i32>()], l_lt..=l_lt),
                proptest::collection::vec(any::<u32>(), l_ih..=l_ih),
                (
                    proptest::collection::vec(text(), l_notes..=l_notes),
                    prop_oneof![
                        1 => Just(None),
                        1 => Just(Some(None)),
                        2 => sock().prop_map(|s| Some(Some(s.addr().to_string()))),
                        2 => prop_oneof![Just("".to_string()), Just("localhost:80".to_string()), Just("1.2.3.4".to_string()), Just("[::1]:99999".to_string()), text()].prop_map(|s| Some(Some(s))),
                    ],
                    prop_oneof![3 => Just(None), 1 => (0u8..20, 0u8..20).prop_map(Some)],
                    any::<bool>(),
                ),
            )
                .prop_map(|((raw, src, dst, ifs), mtu, exp, latency, bandwidth, geo, link_type, internal_hops, (notes, addr, epic, discovery))| PathMsg {
                    src,
                    dst,
                    raw,
                    ifs,
                    mtu,
                    exp,
                    latency,
                    bandwidth,
                    geo,
                    link_type,
                    internal_hops,
                    notes,
                    addr,
                    epic,
                    discovery,
                })
        },
    )
}

pub fn msg_of(p: &PathMsg) -> rpc::Path {
    rpc::Path {
        raw: p.raw.clone(),
        interface: p.addr.as_ref().map(|a| rpc::Interface { address: a.as_ref().map(|s| rpc::Underlay { address: s.clone() }) }),
        interfaces: p.ifs.iter().map(|(ia, id)| rpc::PathInterface { isd_as: *ia, id: *id }).collect(),
        mtu: p.mtu,
        expiration: p.exp.map(|(seconds, nanos)| prost_types::Timestamp { seconds, nanos }),
        latency: p.latency.iter().map(|(seconds, nanos)| prost_types::Duration { seconds: *seconds, nanos: *nanos }).collect(),
        bandwidth: p.bandwidth.clone(),
        geo: p.geo.iter().map(|(la, lo, a)| rpc::GeoCoordinates { latitude: *la, longitude: *lo, address: a.clone() }).collect(),
        link_type: p.link_type.clone(),
        internal_hops: p.internal_hops.clone(),
        notes: p.notes.clone(),
        epic_auths: p.epic.map(|(a, b)| rpc::EpicAuths { auth_phvf: vec![1; a as usize], auth_lhvf: vec![2; b as usize] }),
        discovery_information: if p.discovery {
            [(p.src, rpc::DiscoveryInformation { control_service_addresses: vec!["[::1]:30252".into()], discovery_service_addresses: vec![] })].into_iter().collect()
        } else {
            Default::default()
        },
    }
}

/// the documented shape: what a conforming daemon may send
pub fn is_wellformed(p: &PathMsg) -> bool {
    let n = p.ifs.len();
    let len_ok = |l: usize, doc: usize| l == 0 || l == doc;
    let raw_ok = refmodel::wire::decode_std_path(&p.raw).map(|(_, used)| used == p.raw.len()).unwrap_or(false);
    n >= 2
        && n % 2 == 0
        && raw_ok
        && p.ifs.iter().all(|(_, id)| *id <= 65535)
        && p.mtu <= 65535
        && matches!(p.exp, Some((s, ns)) if s >= 0 && (0..1_000_000_000).contains(&ns))
        && len_ok(p.latency.len(), n - 1)
        && len_ok(p.bandwidth.len(), n - 1)
        && len_ok(p.geo.len(), n)
        && len_ok(p.link_type.len(), n / 2)
        && len_ok(p.internal_hops.len(), n / 2 - 1)
        && len_ok(p.notes.len(), n / 2 + 1)
        && p.latency.iter().all(|(s, ns)| (*s >= 0 && (0..1_000_000_000).contains(ns)) || (*s < 0 && *ns <= 0 && *ns > -1_000_000_000))
        && p.geo.iter().all(|(la, lo, _)| la.is_finite() && lo.is_finite())
        && p.link_type.iter().all(|t| (0..=255).contains(t))
        && match &p.addr {
            Some(Some(s)) => s.parse::<SocketAddr>().is_ok(),
            _ => true,
        }
}

fn expected_link_type(t: i32) -> LinkType {
    match t {
        0 => LinkType::Unset,
        1 => LinkType::Direct,
        2 => LinkType::MultiHop,
        3 => LinkType::OpenNet,
        x => LinkType::Unknown(x as u8),
    }
}

/// what the proto comments say each announced datum means, checked on the accepted value
fn check_meaning(p: &PathMsg, v: &ScionPath) -> CheckResult {
    let n = p.ifs.len();
    let meta = v.metadata().ok_or_else(|| Fail::new("path-from-rpc:no-metadata", "accepted path has no metadata"))?;
    let ifs = meta.interfaces.as_ref().ok_or_else(|| Fail::new("path-from-rpc:no-interfaces", "accepted path has no interface list"))?;
    ensure!(ifs.len() == n, "path-from-rpc:unfaithful:interface-count", "{n} interfaces sent, {} in the value", ifs.len());
    for (i, ((ia, id), g)) in p.ifs.iter().zip(ifs.iter()).enumerate() {
        ensure!(g.interface.isd_asn.0 == *ia, "path-from-rpc:unfaithful:interface-ia", "interface {i}: sent {ia:#x}, value {:#x}", g.interface.isd_asn.0);
        ensure!(g.interface.id as u64 == *id, "path-from-rpc:unfaithful:interface-id", "interface {i}: sent id {id}, value {}", g.interface.id);
    }
    ensure!(meta.mtu as u32 == p.mtu, "path-from-rpc:unfaithful:mtu", "sent mtu {}, value {}", p.mtu, meta.mtu);
    if let Some((s, _)) = p.exp {
        // a negative time is nonsensical input: value-or-error are both fine for the conversion
        // itself; whatever value comes out is then held to the round-trip clause (see check_msg)
        if s >= 0 {
            ensure!(meta.expiration as i128 == s as i128, "path-from-rpc:unfaithful:expiration", "sent expiration {s} s, value {}", meta.expiration);
        }
    }
    ensure!(v.src_ia().0 == p.src && v.dst_ia().0 == p.dst, "path-from-rpc:unfaithful:ia", "src/dst {:?}/{:?}", v.src_ia(), v.dst_ia());
    ensure!(v.dp_path().as_slice() == &p.raw[..], "path-from-rpc:unfaithful:raw", "raw path bytes changed");
    if !is_wellformed(p) {
        return Ok(());
    }
    // entry i of latency / bandwidth: between interface i and i+1
    if p.latency.len() == n - 1 {
        for (i, (s, ns)) in p.latency.iter().enumerate() {
            let want = (*s >= 0).then(|| Duration::new(*s as u64, *ns as u32));
            ensure!(ifs[i].latency == want, "path-from-rpc:meaning:latency", "latency entry {i} = ({s},{ns}) sent, interface {i} has {:?}", ifs[i].latency);
        }
    }
    if p.bandwidth.len() == n - 1 {
        for (i, b) in p.bandwidth.iter().enumerate() {
            let want = (*b > 0).then_some(*b);
            ensure!(ifs[i].bandwidth == want, "path-from-rpc:meaning:bandwidth", "bandwidth entry {i} = {b} sent, interface {i} has {:?}", ifs[i].bandwidth);
        }
    }
    if p.geo.len() == n {
        for (i, (la, lo, a)) in p.geo.iter().enumerate() {
            let want = (!(*la == 0.0 && *lo == 0.0 && a.is_empty())).then(|| GeoCoordinates::new(*la, *lo, (!a.is_empty()).then(|| a.clone())));
            ensure!(ifs[i].geo_info == want, "path-from-rpc:meaning:geo", "geo entry {i} = {:?} sent, interface {i} has {:?}", (la, lo, a), ifs[i].geo_info);
        }
    }
    // entry i of link_type: link between interfaces 2i and 2i+1
    if p.link_type.len() == n / 2 {
        for (i, t) in p.link_type.iter().enumerate() {
            let want = Some(LinkMeta::Egress(expected_link_type(*t)));
            ensure!(ifs[2 * i].link == want, "path-from-rpc:meaning:link_type", "link type entry {i} = {t} sent, interface {} has {:?}", 2 * i, ifs[2 * i].link);
        }
    }
    // entry i of internal_hops: between interfaces 2i+1 and 2i+2
    if p.internal_hops.len() == n / 2 - 1 && !p.internal_hops.is_empty() {
        for (i, h) in p.internal_hops.iter().enumerate() {
            let want = Some(LinkMeta::Ingress { internal_hop_count: *h });
            ensure!(ifs[2 * i + 1].link == want, "path-from-rpc:meaning:internal_hops", "internal hops entry {i} = {h} sent, interface {} has {:?}", 2 * i + 1, ifs[2 * i + 1].link);
        }
    }
    if p.notes.len() == n / 2 + 1 {
        ensure!(meta.notes.as_ref() == Some(&p.notes), "path-from-rpc:meaning:notes", "notes {:?} sent, value has {:?}", p.notes, meta.notes);
    }
    match &p.addr {
        Some(Some(s)) => ensure!(v.next_hop() == s.parse().ok(), "path-from-rpc:meaning:next_hop", "address {s} sent, next hop {:?}", v.next_hop()),
        _ => ensure!(v.next_hop().is_none(), "path-from-rpc:meaning:next_hop", "no address sent, next hop {:?}", v.next_hop()),
    }
    Ok(())
}

pub fn check_msg(p: &PathMsg, obs: &mut Obs) -> CheckResult {
    let m = through_wire(&msg_of(p));
    let wf = is_wellformed(p);
    let got = vcore::no_panic("ScionPath::try_from_rpc", || ScionPath::try_from_rpc(m, IsdAsn(p.src), IsdAsn(p.dst)))?;
    let n = p.ifs.len();
    let per_link = wf && (p.latency.len() + p.bandwidth.len() + p.link_type.len() + p.internal_hops.len() > 0);
    obs.label(match (wf, got.is_ok()) {
        (true, true) => "pathmsg:wellformed-accepted",
        (true, false) => "pathmsg:wellformed-rejected",
        (false, true) => "pathmsg:malformed-accepted",
        (false, false) => "pathmsg:malformed-rejected",
    });
    if !wf {
        if p.ifs.iter().any(|(_, id)| *id > 65535) || p.mtu > 65535 {
            obs.label("pathmsg:value-beyond-16-bits");
        }
        if matches!(p.exp, Some((s, _)) if s < 0) || p.latency.iter().any(|(s, _)| *s < 0) {
            obs.label("pathmsg:negative-time");
        }
        if n >= 2 && (p.latency.len() != n - 1 || p.geo.len() != n || p.link_type.len() != n / 2) {
            obs.label("pathmsg:inconsistent-vector-lengths");
        }
        if p.exp.is_none() {
            obs.label("pathmsg:missing-expiration");
        }
    }
    let v = match got {
        Ok(v) => v,
        Err(e) => {
            ensure!(!wf, "path-from-rpc:rejected-wellformed", "a message of the documented shape is rejected: {e}");
            return Ok(());
        }
    };
    if p.raw.is_empty() {
        // local path: nothing of the message is represented
        ensure!(p.src == p.dst && p.src != 0, "path-from-rpc:empty-raw-accepted", "empty raw path accepted for {:#x} -> {:#x}", p.src, p.dst);
        obs.label("pathmsg:local");
        return Ok(());
    }
    check_meaning(p, &v)?;
    if per_link {
        obs.label("pathmsg:per-link-metadata");
        obs.nontrivial(&format!("{p:?}"));
    }
    // value -> rpc -> value
    let m2 = vcore::no_panic("ScionPath::to_rpc", || v.to_rpc())?;
    let w = vcore::no_panic("ScionPath::try_from_rpc (second)", || ScionPath::try_from_rpc(through_wire(&m2), IsdAsn(p.src), IsdAsn(p.dst)))?
        .map_err(|e| Fail::new("path-reparse:rejected", format!("to_rpc of an accepted path is rejected: {e}")))?;
    if !same(&v, &w) {
        let (what, detail) = first_difference(&v, &w);
        if what.ends_with("link_type") && p.link_type.iter().any(|t| !(0..=255).contains(t)) {
            // LinkType::Unknown(u8) cannot hold the value: documented type limit, observed only
            obs.label("observe:link-type-outside-u8-aliases");
            return Ok(());
        }
        if what == "changed:expiration" && matches!(p.exp, Some((s, _)) if s < 0) {
            // a negative timestamp is accepted as 2^64-|s| (`seconds as u64`); expirations above
            // i64::MAX are outside the value domain (to_rpc clamps them deliberately), so this is
            // counted, not claimed
            obs.label("observe:negative-expiration-accepted-and-wraps");
            return Ok(());
        }
        return Err(Fail::new(format!("path-rt:{what}"), format!("to_rpc(from_rpc(m)) re-parses to another value: {detail}")));
    }
    Ok(())
}
