//! Path segments <-> RPC: arbitrary structural `PathSegment` / `SegmentsResponse` messages
//! (values beyond the field widths of the SDK types, missing sub-messages, junk bytes) must give
//! Ok or Err without panicking; an accepted message must be represented faithfully (no value
//! silently truncated), a message inside all documented widths must be accepted, and the accepted
//! value survives to_rpc -> from_rpc. `SegmentsPage` round trip.

use proptest::prelude::*;
use sciparse::{
    reexport::{prost, protobuf},
    segment::{SegmentsPage, SignedPathSegment},
};
use prost::Message;
use protobuf::{control_plane::v1 as cp, crypto::v1 as cr};
use serde::{Deserialize, Serialize};
use vcore::{CheckResult, Fail, Obs, ensure};

use crate::common::*;

#[derive(Clone, Debug, Serialize, Deserialize, PartialEq, Eq, Hash)]
pub struct RHf {
    pub ing: u64,
    pub eg: u64,
    pub exp: u32,
    pub mac_len: u8,
}
#[derive(Clone, Debug, Serialize, Deserialize, PartialEq, Eq, Hash)]
pub struct RPeer {
    pub ia: u64,
    pub ifid: u64,
    pub mtu: u32,
    pub hf: Option<RHf>,
}
#[derive(Clone, Debug, Serialize, Deserialize, PartialEq, Eq, Hash)]
pub enum HbMode {
    /// HeaderAndBodyInternal{header, body = AsEntrySignedBody}
    Valid,
    /// header_and_body are these bytes
    JunkHb(#[serde(with = "vcore::hexbytes")] Vec<u8>),
    /// body are these bytes
    JunkBody(#[serde(with = "vcore::hexbytes")] Vec<u8>),
}
#[derive(Clone, Debug, Serialize, Deserialize, PartialEq, Eq, Hash)]
pub struct REntry {
    pub signed_present: bool,
    pub mode: HbMode,
    pub ia: u64,
    pub next: u64,
    pub mtu: u32,
    /// (ingress mtu, hop field)
    pub hop: Option<(u32, Option<RHf>)>,
    pub peers: Vec<RPeer>,
    pub ext: bool,
    pub unsigned: bool,
    pub sig_len: u8,
}
#[derive(Clone, Debug, Serialize, Deserialize, PartialEq, Eq, Hash)]
pub enum InfoMode {
    Valid { ts: i64, seg_id: u32 },
    Junk(#[serde(with = "vcore::hexbytes")] Vec<u8>),
}
#[derive(Clone, Debug, Serialize, Deserialize, PartialEq, Eq, Hash)]
pub struct RSeg {
    pub info: InfoMode,
    pub entries: Vec<REntry>,
}

fn wide(fit: u64) -> impl Strategy<Value = u64> {
    // mostly inside the width, then the boundary, then far outside
    prop_oneof![
        60 => 0..=fit,
        1 => Just(fit),
        1 => Just(fit + 1),
        1 => Just(u32::MAX as u64),
        1 => any::<u64>(),
    ]
}
fn wide32(fit: u32) -> impl Strategy<Value = u32> {
    prop_oneof![45 => 0..=fit, 1 => Just(fit), 1 => Just(fit + 1), 1 => any::<u32>()]
}
fn rhf() -> impl Strategy<Value = RHf> {
    (wide(65535), wide(65535), wide32(255), prop_oneof![40 => Just(6u8), 1 => 0u8..12]).prop_map(|(ing, eg, exp, mac_len)| RHf { ing, eg, exp, mac_len })
}
fn opt<T: std::fmt::Debug + Clone + 'static>(s: impl Strategy<Value = T> + 'static, absent: u32) -> impl Strategy<Value = Option<T>> {
    prop_oneof![absent => Just(None), 40 => s.prop_map(Some)]
}
fn rpeer() -> impl Strategy<Value = RPeer> {
    (any::<u64>(), wide(65535), wide32(65535), opt(rhf(), 1)).prop_map(|(ia, ifid, mtu, hf)| RPeer { ia, ifid, mtu, hf })
}
fn junk() -> impl Strategy<Value = Vec<u8>> {
    proptest::collection::vec(any::<u8>(), 0..40)
}
fn rentry() -> impl Strategy<Value = REntry> {
    (
        prop_oneof![60 => Just(true), 1 => Just(false)],
        prop_oneof![50 => Just(HbMode::Valid), 1 => junk().prop_map(HbMode::JunkHb), 1 => junk().prop_map(HbMode::JunkBody)],
        any::<u64>(),
        any::<u64>(),
        any::<u32>(),
        opt((wide32(65535), opt(rhf(), 1)), 1),
        proptest::collection::vec(rpeer(), 0..3),
        any::<bool>(),
        any::<bool>(),
        prop_oneof![Just(0u8), Just(70u8), any::<u8>()],
    )
        .prop_map(|(signed_present, mode, ia, next, mtu, hop, peers, ext, unsigned, sig_len)| REntry {
            signed_present,
            mode,
            ia,
            next,
            mtu,
            hop,
            peers,
            ext,
            unsigned,
            sig_len,
        })
}
pub fn rseg() -> impl Strategy<Value = RSeg> {
    rseg_sized(5)
}
pub fn rseg_sized(max_entries: usize) -> impl Strategy<Value = RSeg> {
    (
        prop_oneof![
            20 => (prop_oneof![10 => 0i64..=u32::MAX as i64, 1 => Just(u32::MAX as i64 + 1), 1 => Just(-1i64), 1 => any::<i64>()], wide32(65535))
                .prop_map(|(ts, seg_id)| InfoMode::Valid { ts, seg_id }),
            1 => junk().prop_map(InfoMode::Junk),
        ],
        proptest::collection::vec(rentry(), 0..max_entries),
    )
        .prop_map(|(info, entries)| RSeg { info, entries })
}

fn hf_msg(h: &RHf) -> cp::HopField {
    cp::HopField { ingress: h.ing, egress: h.eg, exp_time: h.exp, mac: (0..h.mac_len).map(|i| i.wrapping_mul(37) ^ 0x5a).collect() }
}
fn hf_fits(h: &RHf) -> bool {
    h.ing <= 65535 && h.eg <= 65535 && h.exp <= 255 && h.mac_len == 6
}

pub fn entry_msg(e: &REntry) -> cp::AsEntry {
    let body = cp::AsEntrySignedBody {
        isd_as: e.ia,
        next_isd_as: e.next,
        hop_entry: e.hop.as_ref().map(|(m, hf)| cp::HopEntry { ingress_mtu: *m, hop_field: hf.as_ref().map(hf_msg) }),
        peer_entries: e
            .peers
            .iter()
            .map(|p| cp::PeerEntry { peer_isd_as: p.ia, peer_interface: p.ifid, peer_mtu: p.mtu, hop_field: p.hf.as_ref().map(hf_msg) })
            .collect(),
        mtu: e.mtu,
        extensions: e.ext.then(|| cp::PathSegmentExtensions {
            static_info: None,
            hidden_path: Some(cp::HiddenPathExtension { is_hidden: true }),
            digests: None,
        }),
    };
    let hdr = cr::Header { signature_algorithm: 1, ..Default::default() };
    let hb = match &e.mode {
        HbMode::Valid => cr::HeaderAndBodyInternal { header: hdr.encode_to_vec(), body: body.encode_to_vec() }.encode_to_vec(),
        HbMode::JunkHb(j) => j.clone(),
        HbMode::JunkBody(j) => cr::HeaderAndBodyInternal { header: hdr.encode_to_vec(), body: j.clone() }.encode_to_vec(),
    };
    cp::AsEntry {
        signed: e.signed_present.then(|| cr::SignedMessage { header_and_body: hb, signature: vec![0x30; e.sig_len as usize] }),
        unsigned: e.unsigned.then(cp::PathSegmentUnsignedExtensions::default),
    }
}
pub fn seg_msg(s: &RSeg) -> cp::PathSegment {
    cp::PathSegment {
        segment_info: match &s.info {
            InfoMode::Valid { ts, seg_id } => cp::SegmentInformation { timestamp: *ts, segment_id: *seg_id }.encode_to_vec(),
            InfoMode::Junk(j) => j.clone(),
        },
        as_entries: s.entries.iter().map(entry_msg).collect(),
    }
}

/// all values inside the documented widths and every required sub-message present
pub fn seg_fits(s: &RSeg) -> Option<bool> {
    let mut fits = match &s.info {
        InfoMode::Valid { ts, seg_id } => (0..=u32::MAX as i64).contains(ts) && *seg_id <= 65535,
        InfoMode::Junk(_) => return None,
    };
    for e in &s.entries {
        if e.mode != HbMode::Valid {
            return None;
        }
        fits &= e.signed_present;
        match &e.hop {
            Some((m, Some(hf))) => fits &= *m <= 65535 && hf_fits(hf),
            _ => fits = false,
        }
        for p in &e.peers {
            fits &= p.ifid <= 65535 && p.mtu <= 65535 && p.hf.as_ref().map(hf_fits).unwrap_or(false);
        }
    }
    Some(fits)
}

/// compares an accepted value with the message field by field, as integers
pub fn faithful(s: &RSeg, v: &SignedPathSegment) -> CheckResult {
    if let InfoMode::Valid { ts, seg_id } = &s.info {
        ensure!(v.info().timestamp as i64 == *ts, "seg-from-rpc:unfaithful:timestamp", "message timestamp {ts}, value {}", v.info().timestamp);
        ensure!(v.info().segment_id as u32 == *seg_id, "seg-from-rpc:unfaithful:segment_id", "message segment id {seg_id}, value {}", v.info().segment_id);
    }
    ensure!(v.as_entries.len() == s.entries.len(), "seg-from-rpc:unfaithful:entry-count", "{} entries in the message, {} in the value", s.entries.len(), v.as_entries.len());
    for (i, (e, g)) in s.entries.iter().zip(v.as_entries.iter()).enumerate() {
        if e.mode != HbMode::Valid {
            continue;
        }
        let g = g.entry();
        ensure!(g.local.0 == e.ia && g.next.0 == e.next && g.mtu == e.mtu, "seg-from-rpc:unfaithful:as-fields", "entry {i}: {g:?} vs {e:?}");
        let cmp_hf = |what: &str, m: Option<&RHf>, g: &sciparse::segment::SegmentHopField| -> CheckResult {
            let Some(m) = m else {
                return Err(Fail::new(format!("seg-from-rpc:unfaithful:{what}-missing-hop-field-accepted"), format!("entry {i}: no hop field in the message, value has {g:?}")));
            };
            ensure!(g.expiration_units as u32 == m.exp, format!("seg-from-rpc:unfaithful:{what}-exp_time"), "entry {i}: message exp_time {}, value {}", m.exp, g.expiration_units);
            ensure!(g.cons_ingress as u64 == m.ing, format!("seg-from-rpc:unfaithful:{what}-ingress"), "entry {i}: message ingress {}, value {}", m.ing, g.cons_ingress);
            ensure!(g.cons_egress as u64 == m.eg, format!("seg-from-rpc:unfaithful:{what}-egress"), "entry {i}: message egress {}, value {}", m.eg, g.cons_egress);
            ensure!(hf_msg(m).mac == g.mac.0.to_vec(), format!("seg-from-rpc:unfaithful:{what}-mac"), "entry {i}: message mac {:02x?}, value {:02x?}", hf_msg(m).mac, g.mac.0);
            Ok(())
        };
        match &e.hop {
            Some((m, hf)) => {
                ensure!(g.hop_entry.ingress_mtu as u32 == *m, "seg-from-rpc:unfaithful:ingress_mtu", "entry {i}: message ingress mtu {m}, value {}", g.hop_entry.ingress_mtu);
                cmp_hf("hop", hf.as_ref(), &g.hop_entry.hop_field)?;
            }
            None => return Err(Fail::new("seg-from-rpc:unfaithful:missing-hop-entry-accepted", format!("entry {i}: no hop entry in the message, value {g:?}"))),
        }
        ensure!(g.peer_entries.len() == e.peers.len(), "seg-from-rpc:unfaithful:peer-count", "entry {i}: {} peers in the message, {} in the value", e.peers.len(), g.peer_entries.len());
        for (p, q) in e.peers.iter().zip(g.peer_entries.iter()) {
            ensure!(q.peer.0 == p.ia, "seg-from-rpc:unfaithful:peer-ia", "entry {i}: {q:?} vs {p:?}");
            ensure!(q.peer_interface as u64 == p.ifid, "seg-from-rpc:unfaithful:peer-interface", "entry {i}: message peer interface {}, value {}", p.ifid, q.peer_interface);
            ensure!(q.peer_mtu as u32 == p.mtu, "seg-from-rpc:unfaithful:peer-mtu", "entry {i}: message peer mtu {}, value {}", p.mtu, q.peer_mtu);
            cmp_hf("peer", p.hf.as_ref(), &q.hop_field)?;
        }
    }
    Ok(())
}

pub fn check_rseg(s: &RSeg, obs: &mut Obs) -> CheckResult {
    let msg = seg_msg(s);
    let bytes = msg.encode_to_vec();
    let dec = cp::PathSegment::decode(&bytes[..]).map_err(|e| Fail::new("prost:roundtrip", format!("encoded PathSegment does not decode: {e}")))?;
    let got = vcore::no_panic("SignedPathSegment::try_from_rpc", || SignedPathSegment::try_from_rpc(dec))?;
    let fits = seg_fits(s);
    match (&got, fits) {
        (Ok(_), Some(true)) => obs.label("rseg:accepted-wellformed"),
        (Ok(_), Some(false)) => obs.label("rseg:accepted-out-of-range?"),
        (Ok(_), None) => obs.label("rseg:accepted-junk"),
        (Err(_), Some(true)) => {}
        (Err(_), Some(false)) => obs.label("rseg:rejected-out-of-range-or-missing"),
        (Err(_), None) => obs.label("rseg:rejected-junk"),
    }
    match got {
        Ok(v) => {
            faithful(s, &v)?;
            // signed bytes are kept verbatim
            for (i, (a, g)) in msg.as_entries.iter().zip(v.as_entries.iter()).enumerate() {
                let a = a.signed.as_ref().ok_or_else(|| Fail::new("seg-from-rpc:unfaithful:missing-signed-accepted", format!("entry {i} has no signed part but the message is accepted")))?;
                ensure!(
                    g.signature().header_and_body == a.header_and_body && g.signature().signature == a.signature,
                    "seg-from-rpc:unfaithful:signed-bytes",
                    "entry {i}: signed bytes changed by the conversion"
                );
            }
            // value -> rpc -> value
            let again = vcore::no_panic("segment to_rpc/from_rpc", || sut_from_rpc(&v.clone().into_rpc()))?
                .map_err(|e| Fail::new("seg-reparse:rejected", format!("to_rpc of an accepted segment is rejected: {e}")))?;
            ensure!(again == v, "seg-reparse:differs", "to_rpc(from_rpc(m)) re-parses to another value:\n  first  {v:?}\n  second {again:?}");
            // validation of garbage signatures never panics
            if let Some(e) = v.as_entries.first() {
                let r = vcore::no_panic("validate_signature on an unsigned message", || e.validate_signature(|_| Ok(pool().vk[0]), &v))?;
                ensure!(r.is_err(), "chain:junk-signature:accepted", "entry 0 with signature bytes 0x30.. validates");
            }
            if fits == Some(true) {
                obs.nontrivial(s);
            }
        }
        Err(e) => {
            ensure!(fits != Some(true), "seg-from-rpc:rejected-wellformed", "every field is inside its documented width and present, but conversion fails: {e}");
        }
    }
    Ok(())
}

// --------------------------------------------------------------------- SegmentsResponse

#[derive(Clone, Debug, Serialize, Deserialize)]
pub struct RResp {
    /// (segment type as sent, segments)
    pub groups: Vec<(i32, Vec<RSeg>)>,
    pub revocations: u8,
}
pub fn rresp() -> impl Strategy<Value = RResp> {
    (
        proptest::collection::vec(
            (prop_oneof![4 => 1i32..=3, 1 => Just(0i32), 1 => any::<i32>()], proptest::collection::vec(rseg_sized(3), 0..3)),
            0..4,
        ),
        0u8..3,
    )
        .prop_map(|(mut groups, revocations)| {
            // map keys are unique on the wire
            let mut seen = std::collections::BTreeSet::new();
            groups.retain(|(t, _)| seen.insert(*t));
            RResp { groups, revocations }
        })
}

pub fn check_rresp(r: &RResp, obs: &mut Obs) -> CheckResult {
    let msg = cp::SegmentsResponse {
        segments: r.groups.iter().map(|(t, segs)| (*t, cp::segments_response::Segments { segments: segs.iter().map(seg_msg).collect() })).collect(),
        deprecated_signed_revocations: (0..r.revocations).map(|i| vec![i; 3]).collect(),
    };
    let bytes = msg.encode_to_vec();
    let dec = cp::SegmentsResponse::decode(&bytes[..]).map_err(|e| Fail::new("prost:roundtrip", format!("encoded SegmentsResponse does not decode: {e}")))?;
    let got = vcore::no_panic("SegmentsPage::try_from_rpc", || SegmentsPage::try_from_rpc(dec))?;
    let known = |t: i32| (1..=3).contains(&t);
    let all_fit = r.groups.iter().filter(|(t, _)| known(*t) || *t == 0).all(|(_, segs)| segs.iter().all(|s| seg_fits(s) == Some(true)));
    match got {
        Ok(page) => {
            obs.label("rresp:accepted");
            for (t, segs) in &r.groups {
                let have = match t {
                    1 => &page.segments.up_segments,
                    2 => &page.segments.down_segments,
                    3 => &page.segments.core_segments,
                    _ => continue,
                };
                ensure!(have.len() == segs.len(), "resp-from-rpc:segment-count", "type {t}: {} segments sent, {} in the page", segs.len(), have.len());
                for (s, v) in segs.iter().zip(have.iter()) {
                    faithful(s, v)?;
                }
            }
            let total: usize = r.groups.iter().filter(|(t, _)| known(*t)).map(|(_, s)| s.len()).sum();
            let have = page.segments.up_segments.len() + page.segments.down_segments.len() + page.segments.core_segments.len();
            ensure!(have == total, "resp-from-rpc:segment-count", "{total} typed segments sent, {have} in the page");
            // page -> rpc -> page
            let again = vcore::no_panic("SegmentsPage to_rpc/from_rpc", || {
                let m = page.clone().into_rpc();
                let b = m.encode_to_vec();
                SegmentsPage::try_from_rpc(cp::SegmentsResponse::decode(&b[..]).expect("prost round trip"))
            })?
            .map_err(|e| Fail::new("resp-reparse:rejected", format!("to_rpc of an accepted page is rejected: {e}")))?;
            ensure!(again == page, "resp-reparse:differs", "page round trip differs:\n  first  {page:?}\n  second {again:?}");
            if total > 0 {
                obs.nontrivial(&r.groups);
            }
        }
        Err(e) => {
            obs.label("rresp:rejected");
            ensure!(!all_fit, "resp-from-rpc:rejected-wellformed", "every segment is well-formed but the response is rejected: {e}");
        }
    }
    Ok(())
}

// ------------------------------------------------------------------ signed pages round trip

#[derive(Clone, Debug, Serialize, Deserialize)]
pub struct PageCase {
    pub up: Vec<SegSpec>,
    pub down: Vec<SegSpec>,
    pub core: Vec<SegSpec>,
}
pub fn page_strat() -> impl Strategy<Value = PageCase> {
    let l = || proptest::collection::vec(seg_strat(1, 3), 0..3);
    (l(), l(), l()).prop_map(|(up, down, core)| PageCase { up, down, core })
}
pub fn check_page(c: &PageCase, obs: &mut Obs) -> CheckResult {
    let b = |v: &Vec<SegSpec>| -> Result<Vec<SignedPathSegment>, Fail> { v.iter().map(|s| build(s).map(|b| b.sut)).collect() };
    let page = SegmentsPage {
        segments: sciparse::segment::Segments { up_segments: b(&c.up)?, down_segments: b(&c.down)?, core_segments: b(&c.core)? },
        next_page_token: String::new(),
    };
    let again = vcore::no_panic("SegmentsPage round trip", || {
        let m = page.clone().into_rpc();
        let bytes = m.encode_to_vec();
        SegmentsPage::try_from_rpc(cp::SegmentsResponse::decode(&bytes[..]).expect("prost round trip"))
    })?
    .map_err(|e| Fail::new("page-rt:rejected", format!("from_rpc(to_rpc(page)) fails: {e}")))?;
    ensure!(again == page, "page-rt:differs", "from_rpc(to_rpc(page)) differs:\n  before {page:?}\n  after  {again:?}");
    let n = c.up.len() + c.down.len() + c.core.len();
    obs.label(format!("page:segments:{}", n.min(4)));
    if n > 0 {
        obs.nontrivial(c_key(c));
    }
    Ok(())
}
fn c_key(c: &PageCase) -> &PageCase {
    c
}
impl std::hash::Hash for PageCase {
    fn hash<H: std::hash::Hasher>(&self, h: &mut H) {
        self.up.hash(h);
        self.down.hash(h);
        self.core.hash(h);
    }
}
