//! C18 — signed control-plane messages verify iff authentic; RPC conversion is lossless.
pub mod chain;
pub mod common;
pub mod pathrpc;
pub mod rawbytes;
pub mod segrpc;
pub mod sigmsg;
