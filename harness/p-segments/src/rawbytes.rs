//! Raw bytes -> prost::Message::decode -> conversion: never a panic. Inputs are pure random bytes
//! and byte-level mutations of valid encodings (so that the decoder is passed most of the time).

use std::sync::OnceLock;

use proptest::prelude::*;
use sciparse::{
    identifier::isd_asn::IsdAsn,
    path::ScionPath,
    reexport::{prost, protobuf},
    segment::{SegmentsPage, SignedPathSegment},
};
use prost::Message;
use protobuf::{control_plane::v1 as cp, daemon::v1 as rpc};
use serde::{Deserialize, Serialize};
use vcore::{CheckResult, Obs, idx};

use crate::{common::*, pathrpc, segrpc};

#[derive(Clone, Debug, Serialize, Deserialize, PartialEq, Eq, Hash)]
pub enum Mut {
    Flip(u16, u8),
    Set(u16, u8),
    Insert(u16, u8),
    Delete(u16),
    /// copy `len` bytes from `from` over `to`
    Splice { from: u16, to: u16, len: u8 },
    Truncate(u16),
}
#[derive(Clone, Debug, Serialize, Deserialize, PartialEq, Eq, Hash)]
pub enum Seed {
    /// index into the fixed corpus of valid encodings
    Corpus(u8),
    Random(#[serde(with = "vcore::hexbytes")] Vec<u8>),
}
#[derive(Clone, Debug, Serialize, Deserialize, PartialEq, Eq, Hash)]
pub struct RawCase {
    /// 0 PathSegment, 1 daemon Path, 2 SegmentsResponse
    pub kind: u8,
    pub seed: Seed,
    pub muts: Vec<Mut>,
    pub src: u64,
    pub dst: u64,
}

pub fn raw_strat() -> impl Strategy<Value = RawCase> {
    let m = prop_oneof![
        3 => (any::<u16>(), 0u8..8).prop_map(|(p, b)| Mut::Flip(p, b)),
        3 => (any::<u16>(), prop_oneof![Just(0u8), Just(0xff), Just(0x80), Just(0x7f), any::<u8>()]).prop_map(|(p, v)| Mut::Set(p, v)),
        2 => (any::<u16>(), any::<u8>()).prop_map(|(p, v)| Mut::Insert(p, v)),
        2 => any::<u16>().prop_map(Mut::Delete),
        1 => (any::<u16>(), any::<u16>(), 1u8..16).prop_map(|(from, to, len)| Mut::Splice { from, to, len }),
        1 => any::<u16>().prop_map(Mut::Truncate),
    ];
    (
        0u8..3,
        prop_oneof![5 => any::<u8>().prop_map(Seed::Corpus), 1 => proptest::collection::vec(any::<u8>(), 0..120).prop_map(Seed::Random)],
        proptest::collection::vec(m, 0..5),
        prop_oneof![Just(0u64), Just(0x0001_ff00_0000_0110), any::<u64>()],
        prop_oneof![Just(0u64), Just(0x0001_ff00_0000_0110), any::<u64>()],
    )
        .prop_map(|(kind, seed, muts, src, dst)| RawCase { kind, seed, muts, src, dst })
}

/// fixed corpus of valid encodings, per kind (drawn from the structural generators with fixed seeds)
fn corpus(kind: u8) -> &'static Vec<Vec<u8>> {
    static C: OnceLock<[Vec<Vec<u8>>; 3]> = OnceLock::new();
    &C.get_or_init(|| {
        let mut segs = vec![];
        let mut paths = vec![];
        let mut resps = vec![];
        for k in 0..24u64 {
            // signed segments from the reference signer / the API
            if let Ok(b) = build(&vcore::draw(&seg_strat(1, 4), 0xc18_0000 + k)) {
                segs.push(b.sut.clone().into_rpc().encode_to_vec());
                if k % 3 == 0 {
                    let page = cp::SegmentsResponse {
                        segments: [(1 + (k as i32 / 3) % 3, cp::segments_response::Segments { segments: vec![b.sut.clone().into_rpc()] })].into_iter().collect(),
                        deprecated_signed_revocations: vec![],
                    };
                    resps.push(page.encode_to_vec());
                }
            }
            segs.push(segrpc::seg_msg(&vcore::draw(&segrpc::rseg(), 0xc18_1000 + k)).encode_to_vec());
            paths.push(pathrpc::msg_of(&vcore::draw(&pathrpc::path_msg_wellformed(), 0xc18_2000 + k)).encode_to_vec());
            paths.push(pathrpc::msg_of(&vcore::draw(&pathrpc::path_msg_arbitrary(), 0xc18_3000 + k)).encode_to_vec());
        }
        [segs, paths, resps]
    })[kind as usize % 3]
}

pub fn bytes_of(c: &RawCase) -> Vec<u8> {
    let mut b = match &c.seed {
        Seed::Corpus(i) => {
            let co = corpus(c.kind);
            co[idx((*i as u16) << 8, co.len())].clone()
        }
        Seed::Random(r) => r.clone(),
    };
    for m in &c.muts {
        if b.is_empty() {
            if let Mut::Insert(_, v) = m {
                b.push(*v);
            }
            continue;
        }
        let n = b.len();
        match m {
            Mut::Flip(p, bit) => b[idx(*p, n)] ^= 1 << bit,
            Mut::Set(p, v) => b[idx(*p, n)] = *v,
            Mut::Insert(p, v) => b.insert(idx(*p, b.len() + 1), *v),
            Mut::Delete(p) => {
                b.remove(idx(*p, b.len()));
            }
            Mut::Splice { from, to, len } => {
                let f = idx(*from, b.len());
                let t = idx(*to, b.len());
                let l = (*len as usize).min(b.len() - f).min(b.len() - t);
                let chunk = b[f..f + l].to_vec();
                b[t..t + l].copy_from_slice(&chunk);
            }
            Mut::Truncate(p) => b.truncate(idx(*p, b.len())),
        }
    }
    b
}

pub fn check_raw(c: &RawCase, obs: &mut Obs) -> CheckResult {
    let bytes = bytes_of(c);
    let kind = ["segment", "path", "response"][c.kind as usize % 3];
    let mutated = !c.muts.is_empty() || matches!(c.seed, Seed::Random(_));
    match c.kind % 3 {
        0 => match cp::PathSegment::decode(&bytes[..]) {
            Err(_) => obs.label(format!("raw:{kind}:prost-rejects")),
            Ok(m) => {
                let r = vcore::no_panic("SignedPathSegment::try_from_rpc (raw bytes)", || SignedPathSegment::try_from_rpc(m))?;
                match r {
                    Ok(v) => {
                        obs.label(format!("raw:{kind}:converted"));
                        if mutated && !v.as_entries.is_empty() {
                            obs.nontrivial(&bytes);
                        }
                        // validating whatever came out must not panic either
                        for e in v.as_entries.iter().take(2) {
                            let _ = vcore::no_panic("validate_signature (raw bytes)", || e.validate_signature(|_| Ok(pool().vk[0]), &v))?;
                        }
                        let _ = vcore::no_panic("into_rpc (raw bytes)", || v.clone().into_rpc())?;
                    }
                    Err(_) => obs.label(format!("raw:{kind}:conversion-rejects")),
                }
            }
        },
        1 => match rpc::Path::decode(&bytes[..]) {
            Err(_) => obs.label(format!("raw:{kind}:prost-rejects")),
            Ok(m) => {
                let r = vcore::no_panic("ScionPath::try_from_rpc (raw bytes)", || ScionPath::try_from_rpc(m, IsdAsn(c.src), IsdAsn(c.dst)))?;
                match r {
                    Ok(v) => {
                        obs.label(format!("raw:{kind}:converted"));
                        if mutated {
                            obs.nontrivial(&bytes);
                        }
                        let m2 = vcore::no_panic("ScionPath::to_rpc (raw bytes)", || v.to_rpc())?;
                        let _ = vcore::no_panic("ScionPath::try_from_rpc (raw bytes, second)", || ScionPath::try_from_rpc(m2, IsdAsn(c.src), IsdAsn(c.dst)))?;
                    }
                    Err(_) => obs.label(format!("raw:{kind}:conversion-rejects")),
                }
            }
        },
        _ => match cp::SegmentsResponse::decode(&bytes[..]) {
            Err(_) => obs.label(format!("raw:{kind}:prost-rejects")),
            Ok(m) => {
                let r = vcore::no_panic("SegmentsPage::try_from_rpc (raw bytes)", || SegmentsPage::try_from_rpc(m))?;
                match r {
                    Ok(v) => {
                        obs.label(format!("raw:{kind}:converted"));
                        if mutated {
                            obs.nontrivial(&bytes);
                        }
                        let _ = vcore::no_panic("SegmentsPage::into_rpc (raw bytes)", || v.into_rpc())?;
                    }
                    Err(_) => obs.label(format!("raw:{kind}:conversion-rejects")),
                }
            }
        },
    }
    Ok(())
}
