//! C20 — waiting senders always wake; dropping the manager stops its workers.
//!
//! What is explored: SCHEDULES of the public `MultiPathManager` API against a gated mock
//! `PathFetcher`.
//!
//! Deterministic tier (`st-*` sub-checks): a `current_thread` tokio runtime with a paused clock and
//! `event_interval(1)`; the harness is the `block_on` future, so one `yield_now().await` of the
//! harness lets the runtime poll exactly ONE queued worker task. Waiter futures (`mgr.path(..)`)
//! are not spawned: they live in a table and are polled by the harness with a counting waker.
//! The mock fetcher completes an invocation only when the harness opens its gate.
//!
//! Second tier (`mt-*`; `mt-spin` in both tiers, the rest thorough only): the same actions on an
//! 8-worker multi-thread runtime with seeded spin perturbation, plus callers on own threads that
//! busy-poll their future; a wall-clock bound there yields INCONCLUSIVE, never a violation.

use std::{
    future::Future,
    net::{IpAddr, Ipv4Addr},
    pin::Pin,
    sync::{
        Arc, Mutex, OnceLock,
        atomic::{AtomicBool, AtomicUsize, Ordering},
    },
    task::{Context, Poll, Wake, Waker},
    time::{Duration, SystemTime},
};

use proptest::prelude::*;
use scion_stack::path::{
    PathStrategy,
    fetcher::traits::{PathFetchError, PathFetcher},
    manager::{MultiPathManager, MultiPathManagerConfig},
};
use sciparse::{
    address::ip_addr::ScionIpAddr,
    identifier::{asn::Asn, isd::Isd, isd_asn::IsdAsn},
    path::ScionPath,
    util::test_builder::TestPathBuilder,
};
use serde::{Deserialize, Serialize};
use vcore::{CheckResult, Ctx, Fail, Obs, Sub, ensure, idx};

// ---------------------------------------------------------------------------------------------
// Cases
// ---------------------------------------------------------------------------------------------

const NPAIRS: usize = 2;

#[derive(Clone, Copy, Debug, PartialEq, Eq, Hash, Serialize, Deserialize)]
enum Res {
    /// 2 paths
    Ok,
    Empty,
    Err,
    /// 32 paths (ranking and publication of the active path take longer)
    OkMany,
}

impl Res {
    fn has_paths(self) -> bool {
        matches!(self, Res::Ok | Res::OkMany)
    }
}

#[derive(Clone, Debug, PartialEq, Eq, Hash, Serialize, Deserialize)]
enum Action {
    /// create a `mgr.path(pair)` future (owning a clone of the manager) and poll it once
    New(u8),
    /// `k` futures for the same pair created back to back (multi-thread tier: released together
    /// by a spin barrier)
    Burst(u8, u8),
    /// `k` callers for the same pair that busy-poll their future instead of sleeping on the waker
    /// (multi-thread tier: k threads with a spin executor; single-thread tier: same as `Burst`)
    Spin(u8, u8),
    /// poll the i-th live (still pending) waiter again
    Poll(u16),
    /// drop the i-th live waiter future (cancellation of the caller)
    DropW(u16),
    /// synchronous `cached_path(pair)`
    Cached(u8),
    /// open the gate of the i-th pending fetcher invocation with the given result
    Complete(u16, Res),
    /// let the runtime poll n worker tasks (one per harness yield)
    Run(u8),
    /// run the runtime to quiescence (no gate is opened)
    Settle,
    /// `stop_managing_paths(pair)`
    Stop(u8),
    /// drop the harness' handle of the manager (waiter futures keep their clones)
    DropMgr,
    /// advance tokio's paused clock by n seconds (spurious maintenance ticks)
    Advance(u16),
}

#[derive(Clone, Debug, Serialize, Deserialize)]
struct Case {
    /// max_idle_period = 0
    idle_zero: bool,
    /// refetch_interval = min_refetch_delay = 0 (a successful fetch is followed by the next one)
    refetch_zero: bool,
    /// min_expiry_threshold = 48 h > path lifetime: successful fetches never yield an active path
    near_expiry: bool,
    /// result used for the gates still closed at the end of the script
    final_res: Res,
    /// per-action spin skew (multi-thread tier only)
    #[serde(default)]
    skew: Vec<u16>,
    actions: Vec<Action>,
}

// ---------------------------------------------------------------------------------------------
// Fixed world: two (src,dst) pairs, 32 paths each (ok = the first 2), valid for 24 h from process start
// ---------------------------------------------------------------------------------------------

struct World {
    t0: SystemTime,
    src: IsdAsn,
    dst: [IsdAsn; NPAIRS],
    paths: [Vec<ScionPath>; NPAIRS],
}

fn world() -> &'static World {
    static W: OnceLock<World> = OnceLock::new();
    W.get_or_init(|| {
        // The manager reads SystemTime::now() itself, so the paths have to be valid against the
        // real clock: info timestamp = process start, hop expiry 255 units = 24 h.
        let t0 = SystemTime::now();
        let ts = t0.duration_since(SystemTime::UNIX_EPOCH).unwrap().as_secs() as u32;
        let src = IsdAsn::new(Isd(1), Asn(1));
        let dst = [IsdAsn::new(Isd(2), Asn(1)), IsdAsn::new(Isd(2), Asn(2))];
        let mk = |d: IsdAsn, seed: u32| -> ScionPath {
            let s = ScionIpAddr::new(src, IpAddr::V4(Ipv4Addr::LOCALHOST));
            let t = ScionIpAddr::new(d, IpAddr::V4(Ipv4Addr::new(127, 0, 0, 2)));
            let mut b = TestPathBuilder::new(s.into(), t.into())
                .using_info_timestamp(ts)
                .with_hop_expiry(255)
                .up();
            b = b.add_hop(0, 1);
            for c in 0..2u32 {
                let h = 1000 + seed * 16 + c;
                b = b.with_asn(h).add_hop((h as u16) + 1, (h as u16) + 2);
            }
            b = b.add_hop(1, 0);
            b.build(ts).path()
        };
        World {
            t0,
            src,
            dst,
            paths: [
                (1..=32).map(|i| mk(dst[0], i)).collect(),
                (41..=72).map(|i| mk(dst[1], i)).collect(),
            ],
        }
    })
}

fn pair_of(p: u8) -> usize {
    (p as usize).min(NPAIRS - 1)
}

// ---------------------------------------------------------------------------------------------
// Gated mock fetcher
// ---------------------------------------------------------------------------------------------

#[derive(Clone, Copy, Debug, PartialEq, Eq)]
enum GateState {
    Pending,
    Open(Res),
    /// result delivered to the worker
    Taken,
    /// the fetch future was dropped before it delivered (worker task dropped)
    Dropped,
}

struct Gate {
    pair: usize,
    state: GateState,
    waker: Option<Waker>,
}

#[derive(Default)]
struct FetchLog {
    gates: Vec<Gate>,
    /// distinct tokio task ids that invoked the fetcher, per pair (= workers that looked up)
    ids: [Vec<Option<tokio::task::Id>>; NPAIRS],
    polls: usize,
}

#[derive(Default)]
struct Shared {
    log: Mutex<FetchLog>,
    fetcher_dropped: AtomicBool,
    /// panics observed on runtime threads of this case
    panics: Mutex<Vec<String>>,
}

impl Shared {
    fn pending_gates(&self) -> Vec<usize> {
        let l = self.log.lock().unwrap();
        l.gates
            .iter()
            .enumerate()
            .filter(|(_, g)| g.state == GateState::Pending)
            .map(|(i, _)| i)
            .collect()
    }
    fn inflight(&self, pair: usize) -> usize {
        let l = self.log.lock().unwrap();
        l.gates
            .iter()
            .filter(|g| g.pair == pair && matches!(g.state, GateState::Pending | GateState::Open(_)))
            .count()
    }
    fn worker_ids(&self, pair: usize) -> usize {
        self.log.lock().unwrap().ids[pair].len()
    }
    fn n_gates(&self) -> usize {
        self.log.lock().unwrap().gates.len()
    }
    fn gate_pair(&self, gate: usize) -> usize {
        self.log.lock().unwrap().gates[gate].pair
    }
    fn open(&self, gate: usize, res: Res) {
        let w = {
            let mut l = self.log.lock().unwrap();
            let g = &mut l.gates[gate];
            if g.state != GateState::Pending {
                return;
            }
            g.state = GateState::Open(res);
            g.waker.take()
        };
        if let Some(wk) = w {
            wk.wake();
        }
    }
}

struct Fetcher {
    shared: Arc<Shared>,
}

impl Drop for Fetcher {
    fn drop(&mut self) {
        self.shared.fetcher_dropped.store(true, Ordering::SeqCst);
    }
}

struct GateFuture {
    shared: Arc<Shared>,
    id: usize,
    done: bool,
}

impl Future for GateFuture {
    type Output = Result<Vec<ScionPath>, PathFetchError>;
    fn poll(mut self: Pin<&mut Self>, cx: &mut Context<'_>) -> Poll<Self::Output> {
        let mut l = self.shared.log.lock().unwrap();
        l.polls += 1;
        let id = self.id;
        let g = &mut l.gates[id];
        match g.state {
            GateState::Open(r) => {
                g.state = GateState::Taken;
                let pair = g.pair;
                drop(l);
                self.done = true;
                Poll::Ready(match r {
                    Res::Ok => Ok(world().paths[pair][..2].to_vec()),
                    Res::OkMany => Ok(world().paths[pair].clone()),
                    Res::Empty => Ok(vec![]),
                    Res::Err => Err(PathFetchError::InternalError("mock fetch failed".into())),
                })
            }
            _ => {
                g.waker = Some(cx.waker().clone());
                Poll::Pending
            }
        }
    }
}

impl Drop for GateFuture {
    fn drop(&mut self) {
        if !self.done {
            let mut l = self.shared.log.lock().unwrap();
            let g = &mut l.gates[self.id];
            if g.state != GateState::Taken {
                g.state = GateState::Dropped;
            }
        }
    }
}

impl PathFetcher for Fetcher {
    fn fetch_paths(
        &self,
        src: IsdAsn,
        dst: IsdAsn,
    ) -> impl Future<Output = Result<Vec<ScionPath>, PathFetchError>> + Send + '_ {
        async move {
            let w = world();
            let pair = w.dst.iter().position(|d| *d == dst).unwrap_or(0);
            debug_assert!(src == w.src);
            let id = {
                let mut l = self.shared.log.lock().unwrap();
                let tid = tokio::task::try_id();
                if tid.is_none() || !l.ids[pair].contains(&tid) {
                    l.ids[pair].push(tid);
                }
                l.gates.push(Gate { pair, state: GateState::Pending, waker: None });
                l.gates.len() - 1
            };
            GateFuture { shared: self.shared.clone(), id, done: false }.await
        }
    }
}

type Mgr = MultiPathManager<Fetcher>;
type PathResult = Result<ScionPath, Arc<PathFetchError>>;

fn build_manager(case: &Case, shared: &Arc<Shared>) -> Result<Mgr, Fail> {
    let mut cfg = MultiPathManagerConfig::default();
    if case.idle_zero {
        cfg = cfg.with_max_idle_period(Duration::ZERO);
    }
    if case.refetch_zero {
        cfg = cfg.with_min_refetch_delay(Duration::ZERO).with_refetch_interval(Duration::ZERO);
    }
    if case.near_expiry {
        cfg = cfg.with_min_expiry_threshold(Duration::from_secs(48 * 3600));
    }
    MultiPathManager::new(cfg, Fetcher { shared: shared.clone() }, PathStrategy::default())
        .map_err(|e| Fail::new("harness:config-rejected", format!("{e}")))
}

// ---------------------------------------------------------------------------------------------
// panic capture (tokio swallows panics of spawned tasks)
// ---------------------------------------------------------------------------------------------

thread_local! {
    static CASE_SHARED: std::cell::RefCell<Option<Arc<Shared>>> = const { std::cell::RefCell::new(None) };
}

fn install_hook() {
    static ONCE: std::sync::Once = std::sync::Once::new();
    ONCE.call_once(|| {
        let prev = std::panic::take_hook();
        std::panic::set_hook(Box::new(move |info| {
            let loc = info.location().map(|l| format!("{}:{}", l.file(), l.line())).unwrap_or_default();
            let msg = if let Some(s) = info.payload().downcast_ref::<&str>() {
                s.to_string()
            } else if let Some(s) = info.payload().downcast_ref::<String>() {
                s.clone()
            } else {
                "<non-string panic>".into()
            };
            CASE_SHARED.with(|c| {
                if let Some(sh) = c.borrow().as_ref() {
                    sh.panics.lock().unwrap().push(format!("{loc}: {msg}"));
                }
            });
            prev(info);
        }));
    });
}

fn panic_fail(shared: &Shared) -> CheckResult {
    let p = shared.panics.lock().unwrap();
    if let Some(first) = p.first() {
        let file = first.split(':').next().unwrap_or("").rsplit('/').next().unwrap_or("");
        let msg: String = first.splitn(3, ':').nth(2).unwrap_or("").trim().chars().take(40).map(|c| if c.is_ascii_digit() { '#' } else { c }).collect();
        return Err(Fail::new(format!("panic-on-runtime-thread:{file}:{msg}"), format!("{} panic(s) on the runtime's threads; first: {first}", p.len())));
    }
    Ok(())
}

// ---------------------------------------------------------------------------------------------
// Model bookkeeping shared by both tiers: "exactly one worker" windows
// ---------------------------------------------------------------------------------------------

#[derive(Clone, Copy, Debug, PartialEq, Eq)]
enum PState {
    Unrequested,
    Requested,
    Stopped,
}

/// A window opens with the first request for a pair that is certainly unmanaged (never requested,
/// or `stop_managing_paths` since the last request) and closes when a lookup started inside the
/// window finishes, or at stop / drop. All requests inside one window are "concurrent first
/// requests for the same pair".
#[derive(Clone, Copy, Debug)]
struct Window {
    after_stop: bool,
    requests: u32,
    /// worker tasks spawned by the requests of this window (exact; single-thread tier only)
    spawned: usize,
    ids_at_open: usize,
    base_gate: usize,
    /// upper bound of the workers spawned for EARLIER windows of this pair that had not yet
    /// performed their initial lookup when this window opened (a stopped worker still does it)
    debt: usize,
}

struct PairModel {
    state: PState,
    window: Option<Window>,
    windows_before: usize,
    /// exact number of worker tasks spawned for this pair (single-thread tier)
    spawned_total: usize,
}

struct Book {
    pm: [PairModel; NPAIRS],
    exact: bool,
    /// a lookup of this pair has been answered with empty/error
    nonok: [bool; NPAIRS],
    /// `stop_managing_paths` has been called for this pair
    stopped_ever: [bool; NPAIRS],
    /// configuration in which every successful lookup publishes an active path and no worker
    /// exits on its own (no idle-out at period 0, expiry threshold below the path lifetime)
    strict_cfg: bool,
    /// largest number of concurrent first requests seen in one window
    max_concurrent_first: u32,
}

impl Book {
    fn new(exact: bool, case: &Case) -> Self {
        let pm = || PairModel { state: PState::Unrequested, window: None, windows_before: 0, spawned_total: 0 };
        Book {
            pm: [pm(), pm()],
            exact,
            nonok: [false; NPAIRS],
            stopped_ever: [false; NPAIRS],
            strict_cfg: !case.idle_zero && !case.near_expiry,
            max_concurrent_first: 0,
        }
    }
    /// Result consistency: may a caller of pair p legitimately be released with an ERROR now?
    /// Without idle-out, without stop and with usable paths, a caller is released either at once
    /// with the published path or by the completion of a lookup; if every lookup answered so far
    /// delivered paths, that completion published an active path before it notified. Evaluated at
    /// the moment the result is OBSERVED: every answer given before the caller returned is included.
    fn error_allowed(&self, p: usize) -> bool {
        !self.strict_cfg || self.nonok[p] || self.stopped_ever[p]
    }
    fn before_request(&mut self, p: usize, sh: &Shared) {
        let exact = self.exact;
        let m = &mut self.pm[p];
        match m.state {
            PState::Unrequested | PState::Stopped => {
                let ids = sh.worker_ids(p);
                m.window = Some(Window {
                    after_stop: m.state == PState::Stopped,
                    requests: 1,
                    spawned: 0,
                    ids_at_open: ids,
                    base_gate: sh.n_gates(),
                    debt: if exact { m.spawned_total.saturating_sub(ids) } else { m.windows_before },
                });
                m.windows_before += 1;
                m.state = PState::Requested;
            }
            PState::Requested => {
                if let Some(w) = &mut m.window {
                    w.requests += 1;
                    self.max_concurrent_first = self.max_concurrent_first.max(w.requests);
                }
            }
        }
    }
    /// single-thread tier: `spawned` = number of tasks the request just spawned
    fn after_request(&mut self, p: usize, spawned: usize) -> CheckResult {
        let m = &mut self.pm[p];
        m.spawned_total += spawned;
        if let Some(w) = &mut m.window {
            w.spawned += spawned;
            let kind = if w.after_stop { "after-stop" } else { "fresh-pair" };
            ensure!(
                w.spawned <= 1,
                format!("double-worker:{kind}"),
                "{} worker tasks spawned for pair {p} by {} concurrent first request(s) (expected exactly 1)",
                w.spawned,
                w.requests
            );
            ensure!(
                w.spawned == 1,
                format!("no-worker:{kind}"),
                "no worker task spawned for pair {p} by its first request"
            );
        }
        Ok(())
    }
    fn on_stop(&mut self, p: usize) {
        self.stopped_ever[p] = true;
        self.pm[p].window = None;
        self.pm[p].state = PState::Stopped;
    }
    fn on_dropmgr(&mut self) {
        for m in &mut self.pm {
            m.window = None;
        }
    }
    /// a gate of pair p has been opened: if that lookup was started inside the window, the first
    /// lookup of the window is finishing
    fn on_complete(&mut self, p: usize, gate: usize, res: Res) {
        if !res.has_paths() {
            self.nonok[p] = true;
        }
        if let Some(w) = self.pm[p].window {
            if gate >= w.base_gate {
                self.pm[p].window = None;
            }
        }
    }
    /// at any time: at most one NEW worker task invokes the fetcher per window
    fn check_at_most_one(&self, sh: &Shared) -> CheckResult {
        for (p, m) in self.pm.iter().enumerate() {
            if let Some(w) = m.window {
                let n = sh.worker_ids(p) - w.ids_at_open;
                ensure!(
                    n <= 1 + w.debt,
                    if w.after_stop { "double-lookup:after-stop" } else { "double-lookup:fresh-pair" },
                    "{n} distinct worker tasks invoked the fetcher for pair {p} before the first lookup of {} concurrent first request(s) finished (expected 1, plus at most {} initial lookup(s) of earlier, stopped workers)",
                    w.requests,
                    w.debt
                );
            }
        }
        Ok(())
    }
    /// single-thread tier at quiescence with the manager alive: every spawned worker has invoked
    /// the fetcher (the initial lookup is unconditional), and nobody else has
    fn check_settled(&self, sh: &Shared) -> CheckResult {
        self.check_at_most_one(sh)?;
        for (p, m) in self.pm.iter().enumerate() {
            let ids = sh.worker_ids(p);
            ensure!(
                ids == m.spawned_total,
                "lookup-attribution",
                "pair {p}: {} worker task(s) spawned by requests but {ids} distinct task(s) invoked the fetcher at quiescence",
                m.spawned_total
            );
        }
        Ok(())
    }
}

fn validate_result(pair: usize, r: &PathResult, error_allowed: bool, obs: &mut Obs) -> CheckResult {
    match r {
        Ok(p) => {
            ensure!(
                world().paths[pair].iter().any(|q| q == p),
                "released-with-foreign-path",
                "waiter for pair {pair} got a path the fetcher never returned for that pair: {p}"
            );
            obs.label("released:path");
        }
        Err(e) => {
            ensure!(
                error_allowed,
                "released-with-error-after-ok-lookups",
                "caller for pair {pair} was released with the error '{e}' although every lookup answered so far for that pair delivered usable paths, the pair was never stopped and the configuration has no idle-out: the path found by the lookup must be handed out"
            );
            let s = e.to_string();
            if s.contains("PathSet task exited") {
                obs.label("released:error-worker-exited");
            } else if matches!(**e, PathFetchError::NoPathsFound) {
                obs.label("released:error-no-paths");
            } else {
                obs.label("released:error-fetch");
            }
        }
    }
    Ok(())
}

// ---------------------------------------------------------------------------------------------
// Deterministic tier
// ---------------------------------------------------------------------------------------------

struct WakeCount(AtomicUsize);
impl Wake for WakeCount {
    fn wake(self: Arc<Self>) {
        self.0.fetch_add(1, Ordering::SeqCst);
    }
    fn wake_by_ref(self: &Arc<Self>) {
        self.0.fetch_add(1, Ordering::SeqCst);
    }
}

struct Waiter {
    pair: usize,
    fut: Option<Pin<Box<dyn Future<Output = PathResult>>>>,
    wakes: Arc<WakeCount>,
    wakes_at_last_poll: usize,
}

struct St<'a> {
    mgr: Option<Mgr>,
    shared: Arc<Shared>,
    waiters: Vec<Waiter>,
    book: Book,
    obs: &'a mut Obs,
    nontrivial: bool,
    /// a stop/drop happened and the runtime has not been run to quiescence since
    exit_unsettled: [bool; NPAIRS],
}

fn alive_tasks() -> usize {
    tokio::runtime::Handle::current().metrics().num_alive_tasks()
}

impl St<'_> {
    fn live(&self) -> Vec<usize> {
        self.waiters.iter().enumerate().filter(|(_, w)| w.fut.is_some()).map(|(i, _)| i).collect()
    }

    fn snapshot(&self) -> (usize, usize, usize, usize) {
        let (g, p) = {
            let l = self.shared.log.lock().unwrap();
            (l.gates.len(), l.polls)
        };
        let wakes: usize = self.waiters.iter().map(|w| w.wakes.0.load(Ordering::SeqCst)).sum();
        (g, p, wakes, alive_tasks())
    }

    /// Run the runtime until nothing observable changed over two full rounds of task polls.
    async fn settle(&mut self) -> CheckResult {
        let mut quiet = 0usize;
        let mut steps = 0usize;
        let mut advanced = false;
        loop {
            let before = self.snapshot();
            tokio::task::yield_now().await;
            steps += 1;
            let after = self.snapshot();
            if before == after {
                quiet += 1;
            } else {
                quiet = 0;
            }
            if quiet >= 2 * (after.3 + 1) {
                if !advanced {
                    // flush sub-millisecond timers (a `sleep(next_tick)` computed from two
                    // SystemTime::now() readings a few microseconds apart); 20 ms is hours away from
                    // every configured period that is not zero
                    tokio::time::advance(Duration::from_millis(20)).await;
                    advanced = true;
                    quiet = 0;
                    continue;
                }
                break;
            }
            ensure!(steps < 2000, "no-quiescence", "runtime still busy after {steps} task polls with every gate closed");
        }
        for e in &mut self.exit_unsettled {
            *e = false;
        }
        Ok(())
    }

    fn poll_waiter(&mut self, k: usize) -> Result<Option<PathResult>, Fail> {
        let w = &mut self.waiters[k];
        let Some(fut) = w.fut.as_mut() else { return Ok(None) };
        let waker = Waker::from(w.wakes.clone());
        let mut cx = Context::from_waker(&waker);
        w.wakes_at_last_poll = w.wakes.0.load(Ordering::SeqCst);
        match fut.as_mut().poll(&mut cx) {
            Poll::Ready(r) => {
                w.fut = None;
                let pair = w.pair;
                let allowed = self.book.error_allowed(pair);
                if !allowed && r.is_ok() {
                    self.obs.label("consistency:path-required-and-delivered");
                }
                validate_result(pair, &r, allowed, self.obs)?;
                Ok(Some(r))
            }
            Poll::Pending => Ok(None),
        }
    }

    fn new_waiter(&mut self, p: usize) -> CheckResult {
        let Some(mgr) = self.mgr.as_ref() else { return Ok(()) };
        let w = world();
        let m = mgr.clone();
        let (src, dst, now) = (w.src, w.dst[p], w.t0);
        let fut: Pin<Box<dyn Future<Output = PathResult>>> = Box::pin(async move { m.path(src, dst, now).await });
        let inflight_before = self.shared.inflight(p);
        if self.exit_unsettled[p] {
            // an exit path (stop) has been triggered for this pair and not been run yet
            self.obs.label("race:new-waiter-vs-exit-path");
            self.nontrivial = true;
        }
        self.book.before_request(p, &self.shared);
        self.waiters.push(Waiter { pair: p, fut: Some(fut), wakes: Arc::new(WakeCount(AtomicUsize::new(0))), wakes_at_last_poll: 0 });
        let k = self.waiters.len() - 1;
        let alive0 = alive_tasks();
        let r = self.poll_waiter(k)?;
        self.book.after_request(p, alive_tasks() - alive0)?;
        if r.is_none() && inflight_before > 0 {
            self.obs.label("waiter-registered-while-fetch-in-flight");
            self.nontrivial = true;
        } else if r.is_none() {
            self.obs.label("waiter-registered-before-worker-ran");
        } else {
            self.obs.label("waiter-immediate");
        }
        Ok(())
    }

    async fn step(&mut self, a: &Action) -> CheckResult {
        match a {
            Action::New(p) => self.new_waiter(pair_of(*p))?,
            Action::Burst(p, k) | Action::Spin(p, k) => {
                for _ in 0..(*k).clamp(2, 6) {
                    self.new_waiter(pair_of(*p))?;
                }
            }
            Action::Poll(i) => {
                let live = self.live();
                if !live.is_empty() {
                    self.poll_waiter(live[idx(*i, live.len())])?;
                }
            }
            Action::DropW(i) => {
                let live = self.live();
                if !live.is_empty() {
                    let k = live[idx(*i, live.len())];
                    self.waiters[k].fut = None;
                    self.obs.label("waiter-cancelled");
                }
            }
            Action::Cached(p) => {
                let p = pair_of(*p);
                if let Some(mgr) = self.mgr.as_ref() {
                    let w = world();
                    self.book.before_request(p, &self.shared);
                    let alive0 = alive_tasks();
                    let got = mgr.cached_path(w.src, w.dst[p], w.t0);
                    self.book.after_request(p, alive_tasks() - alive0)?;
                    if let Some(path) = got {
                        validate_result(p, &Ok(path), true, self.obs)?;
                    }
                }
            }
            Action::Complete(i, res) => {
                let pend = self.shared.pending_gates();
                if !pend.is_empty() {
                    let g = pend[idx(*i, pend.len())];
                    // bookkeeping first: once the gate is open the worker may run (multi-thread tier)
                    self.book.on_complete(self.shared.gate_pair(g), g, *res);
                    self.shared.open(g, *res);
                }
            }
            Action::Run(n) => {
                for _ in 0..(*n).min(8) {
                    tokio::task::yield_now().await;
                    self.book.check_at_most_one(&self.shared)?;
                }
            }
            Action::Settle => {
                self.settle().await?;
                if self.mgr.is_some() {
                    self.book.check_settled(&self.shared)?;
                }
            }
            Action::Stop(p) => {
                let p = pair_of(*p);
                if let Some(mgr) = self.mgr.as_ref() {
                    let w = world();
                    if self.waiters.iter().any(|x| x.pair == p && x.fut.is_some()) {
                        self.obs.label("race:stop-with-pending-waiter");
                        self.nontrivial = true;
                    }
                    mgr.stop_managing_paths(w.src, w.dst[p]);
                    self.book.on_stop(p);
                    self.exit_unsettled[p] = true;
                }
            }
            Action::DropMgr => {
                if self.mgr.take().is_some() {
                    if self.waiters.iter().any(|x| x.fut.is_some()) {
                        self.obs.label("race:dropmgr-with-pending-waiter");
                        self.nontrivial = true;
                    }
                    self.book.on_dropmgr();
                }
            }
            Action::Advance(s) => {
                tokio::time::advance(Duration::from_secs((*s).min(600) as u64)).await;
            }
        }
        self.book.check_at_most_one(&self.shared)
    }
}

async fn run_st(case: &Case, obs: &mut Obs, shared: Arc<Shared>) -> CheckResult {
    let mgr = build_manager(case, &shared)?;
    let mut st = St {
        mgr: Some(mgr),
        shared: shared.clone(),
        waiters: Vec::new(),
        book: Book::new(true, case),
        obs,
        nontrivial: false,
        exit_unsettled: [false; NPAIRS],
    };
    for a in &case.actions {
        st.step(a).await?;
    }
    panic_fail(&shared)?;

    // ---- final phase 1: every lookup finishes, runtime quiescent => every waiter is released ----
    st.settle().await?;
    if st.mgr.is_some() {
        st.book.check_settled(&shared)?;
    }
    let mut round = 0;
    loop {
        let pend = shared.pending_gates();
        if pend.is_empty() {
            break;
        }
        ensure!(round < 12, "fetch-storm", "the workers keep issuing lookups after {round} rounds of failed results");
        for g in pend {
            // later rounds answer with an error so that continuously refetching configurations
            // come to rest in their failure backoff (>= 60 s, never reached)
            let res = if round == 0 { case.final_res } else { Res::Err };
            st.book.on_complete(shared.gate_pair(g), g, res);
            shared.open(g, res);
        }
        st.settle().await?;
        st.book.check_at_most_one(&shared)?;
        round += 1;
    }
    let dropped_before = st.mgr.is_none();
    for k in st.live() {
        let woken = st.waiters[k].wakes.0.load(Ordering::SeqCst) > st.waiters[k].wakes_at_last_poll;
        let pair = st.waiters[k].pair;
        let r = st.poll_waiter(k)?;
        ensure!(
            r.is_some(),
            if dropped_before { "waiter-not-released:after-manager-handle-dropped" } else { "waiter-not-released" },
            "waiter {k} (pair {pair}) is still Pending although every lookup has finished and the runtime is quiescent (woken since its last poll: {woken})"
        );
        ensure!(
            woken,
            "waiter-not-woken",
            "waiter {k} (pair {pair}) would be Ready but its waker was never invoked after its last poll: a real task would sleep forever"
        );
    }
    panic_fail(&shared)?;

    // ---- final phase 2: drop the manager; every worker terminates ----
    // handles of the managed pairs, kept beyond the manager's lifetime (verif-hooks HandleProbe):
    // after the drop each must report an error instead of a path
    let probes: Vec<(usize, scion_stack::verif::HandleProbe)> = match st.mgr.as_ref() {
        Some(m) => {
            let w = world();
            (0..NPAIRS).filter_map(|p| scion_stack::verif::HandleProbe::of(m, w.src, w.dst[p]).map(|h| (p, h))).collect()
        }
        None => vec![],
    };
    st.mgr = None;
    st.book.on_dropmgr();
    st.waiters.clear();
    let mut round = 0;
    loop {
        st.settle().await?;
        let pend = shared.pending_gates();
        if pend.is_empty() {
            break;
        }
        ensure!(round < 12, "fetch-storm:after-drop", "workers keep issuing lookups after the manager was dropped");
        for g in pend {
            shared.open(g, Res::Err);
        }
        round += 1;
    }
    let alive = alive_tasks();
    ensure!(alive == 0, "drop:worker-still-alive", "{alive} worker task(s) still alive after the manager and all callers were dropped, every lookup finished and the runtime is quiescent");
    ensure!(
        shared.fetcher_dropped.load(Ordering::SeqCst),
        "drop:manager-state-leaked",
        "the manager's shared state (and the fetcher it owns) was not freed after the last handle and all callers were dropped"
    );
    for (p, h) in &probes {
        ensure!(!h.has_active_path(), "drop:handle-still-hands-out-a-path", "after the manager was dropped and its worker for pair {p} terminated, the pair's handle still holds an active path (error reported: {:?})", h.current_error());
        ensure!(h.current_error().is_some(), "drop:handle-reports-no-error", "after the manager was dropped and its worker for pair {p} terminated, the pair's handle reports no error");
        st.obs.label("handle-probed-after-drop");
    }
    panic_fail(&shared)?;

    st.obs.evals(st.waiters.len() as u64 + 1);
    if st.book.max_concurrent_first >= 2 {
        st.obs.label("concurrent-first-requests>=2");
    }
    if case.idle_zero {
        st.obs.label("cfg:idle-zero");
    }
    if case.refetch_zero {
        st.obs.label("cfg:refetch-zero");
    }
    if case.near_expiry {
        st.obs.label("cfg:near-expiry");
    }
    if st.nontrivial {
        st.obs.nontrivial(&(case.idle_zero, case.refetch_zero, case.near_expiry, case.final_res, &case.actions));
    }
    Ok(())
}

fn check_st(case: &Case, obs: &mut Obs) -> CheckResult {
    install_hook();
    let _ = world();
    let rt = tokio::runtime::Builder::new_current_thread()
        .enable_time()
        .start_paused(true)
        .event_interval(1)
        .build()
        .expect("runtime");
    let shared = Arc::new(Shared::default());
    CASE_SHARED.with(|c| *c.borrow_mut() = Some(shared.clone()));
    let r = rt.block_on(run_st(case, obs, shared));
    drop(rt);
    CASE_SHARED.with(|c| *c.borrow_mut() = None);
    r
}

// ---------------------------------------------------------------------------------------------
// Exhaustive enumeration over a reduced alphabet (one pair, <= 2 waiters)
// ---------------------------------------------------------------------------------------------

const ALPHA: usize = 11;

fn sym(i: usize) -> Action {
    match i {
        0 => Action::New(0),
        1 => Action::Poll(0),
        2 => Action::Poll(u16::MAX),
        3 => Action::DropW(0),
        4 => Action::Complete(0, Res::Ok),
        5 => Action::Complete(0, Res::Err),
        6 => Action::Complete(u16::MAX, Res::Ok),
        7 => Action::Run(1),
        8 => Action::Stop(0),
        9 => Action::DropMgr,
        _ => Action::Cached(0),
    }
}

/// (idle_zero, refetch_zero, near_expiry, final_res)
const ENUM_CFGS: [(bool, bool, bool, Res); 6] = [
    (false, false, false, Res::Ok),
    (false, false, false, Res::Err),
    (true, false, false, Res::Ok),
    (false, true, true, Res::Ok),
    (true, true, true, Res::Ok),
    (true, true, true, Res::Err),
];

fn enum_count(len: u32) -> u64 {
    (ALPHA as u64).pow(len) * ENUM_CFGS.len() as u64
}

fn enum_case(len: u32, i: u64) -> Option<Case> {
    let cfg = ENUM_CFGS[(i % ENUM_CFGS.len() as u64) as usize];
    let mut x = i / ENUM_CFGS.len() as u64;
    let mut acts = Vec::with_capacity(len as usize);
    let mut news = 0;
    let mut dropped = false;
    for _ in 0..len {
        let s = (x % ALPHA as u64) as usize;
        x /= ALPHA as u64;
        // statically useless sequences are not cases (canonical forms only)
        match s {
            0 => {
                if news == 2 || dropped {
                    return None;
                }
                news += 1;
            }
            1 | 3 => {
                if news == 0 {
                    return None;
                }
            }
            2 => {
                if news < 2 {
                    return None;
                }
            }
            8 | 10 => {
                if dropped {
                    return None;
                }
            }
            9 => {
                if dropped {
                    return None;
                }
                dropped = true;
            }
            _ => {}
        }
        acts.push(sym(s));
    }
    if news == 0 {
        return None;
    }
    Some(Case { idle_zero: cfg.0, refetch_zero: cfg.1, near_expiry: cfg.2, final_res: cfg.3, skew: vec![], actions: acts })
}

fn run_st_exhaustive(ctx: &Ctx) {
    let maxlen = ctx.tier.pick(5, 7);
    for len in 1..=maxlen {
        let name: &'static str = match len {
            1 => "st-exhaustive-len1",
            2 => "st-exhaustive-len2",
            3 => "st-exhaustive-len3",
            4 => "st-exhaustive-len4",
            5 => "st-exhaustive-len5",
            6 => "st-exhaustive-len6",
            _ => "st-exhaustive-len7",
        };
        ctx.run_enum(name, enum_count(len), true, |i| enum_case(len, i), check_st);
    }
}

// ---------------------------------------------------------------------------------------------
// Random schedules
// ---------------------------------------------------------------------------------------------

fn res_strategy() -> impl Strategy<Value = Res> {
    prop_oneof![3 => Just(Res::Ok), 1 => Just(Res::OkMany), 1 => Just(Res::Empty), 2 => Just(Res::Err)]
}

fn action_strategy() -> impl Strategy<Value = Action> {
    prop_oneof![
        10 => (0u8..2).prop_map(Action::New),
        2 => ((0u8..2), (2u8..=4)).prop_map(|(p, k)| Action::Burst(p, k)),
        1 => ((0u8..2), (2u8..=3)).prop_map(|(p, k)| Action::Spin(p, k)),
        6 => (0u16..6).prop_map(Action::Poll),
        2 => (0u16..6).prop_map(Action::DropW),
        2 => (0u8..2).prop_map(Action::Cached),
        8 => ((0u16..4), res_strategy()).prop_map(|(g, r)| Action::Complete(g, r)),
        8 => (1u8..4).prop_map(Action::Run),
        2 => Just(Action::Settle),
        3 => (0u8..2).prop_map(Action::Stop),
        1 => Just(Action::DropMgr),
        1 => (1u16..400).prop_map(Action::Advance),
    ]
}

/// keeps the number of waiters <= 6 by construction: surplus New/Burst become polls
fn cap_waiters(mut acts: Vec<Action>, max_waiters: usize) -> Vec<Action> {
    let mut n = 0usize;
    for a in &mut acts {
        match a {
            Action::New(_) => {
                if n >= max_waiters {
                    *a = Action::Poll(n as u16);
                } else {
                    n += 1;
                }
            }
            Action::Burst(p, k) | Action::Spin(p, k) => {
                let k2 = (*k as usize).clamp(2, 6);
                if n + k2 > max_waiters {
                    *a = if n < max_waiters { n += 1; Action::New(*p) } else { Action::Poll(n as u16) };
                } else {
                    n += k2;
                }
            }
            _ => {}
        }
    }
    acts
}

fn case_strategy(max_len: usize, skewed: bool) -> impl Strategy<Value = Case> {
    (
        prop_oneof![3 => Just(false), 2 => Just(true)],
        prop_oneof![3 => Just(false), 2 => Just(true)],
        prop_oneof![3 => Just(false), 2 => Just(true)],
        res_strategy(),
        proptest::collection::vec(action_strategy(), 1..=max_len),
        proptest::collection::vec(0u16..2000, if skewed { max_len } else { 0 }),
    )
        .prop_map(|(idle_zero, refetch_zero, near_expiry, final_res, actions, skew)| Case {
            idle_zero,
            refetch_zero,
            near_expiry,
            final_res,
            skew,
            actions: cap_waiters(actions, 6),
        })
}

fn run_st_random(ctx: &Ctx) {
    ctx.run_prop("st-random-short", ctx.tier.pick(150_000, 1_000_000), || case_strategy(14, false), check_st);
    ctx.run_prop("st-random-long", ctx.tier.pick(100_000, 600_000), || case_strategy(60, false), check_st);
}

// ---------------------------------------------------------------------------------------------
// Multi-thread tier (thorough only): wall-clock bounded => inconclusive, never a violation
// ---------------------------------------------------------------------------------------------

static MT_INCONCLUSIVE: Mutex<Vec<String>> = Mutex::new(Vec::new());

fn spin(n: u32) {
    for _ in 0..n {
        std::hint::spin_loop();
    }
}

struct MtWaiter {
    pair: usize,
    join: tokio::task::JoinHandle<()>,
    slot: Arc<Mutex<Option<PathResult>>>,
    aborted: bool,
    validated: bool,
    /// spinners only: give up
    stop: Arc<AtomicBool>,
    /// spinners only: the future has been polled at least once
    polled: Arc<AtomicBool>,
}

impl MtWaiter {
    fn cancel(&mut self) {
        self.join.abort();
        self.stop.store(true, Ordering::SeqCst);
        self.aborted = true;
    }
}

/// A caller on its own thread whose executor polls the future in a busy loop (a legal executor:
/// spurious polls are allowed). It looks at the result as early as any caller possibly can.
fn mt_spawn_spinner(mgr: &Mgr, p: usize, pre: u32) -> MtWaiter {
    let w = world();
    let m = mgr.clone();
    let (src, dst, now) = (w.src, w.dst[p], w.t0);
    let slot = Arc::new(Mutex::new(None));
    let s2 = slot.clone();
    let stop = Arc::new(AtomicBool::new(false));
    let polled = Arc::new(AtomicBool::new(false));
    let (stop2, polled2) = (stop.clone(), polled.clone());
    let rt = tokio::runtime::Handle::current();
    let join = tokio::task::spawn_blocking(move || {
        let _guard = rt.enter();
        spin(pre);
        let waker = Waker::from(Arc::new(WakeCount(AtomicUsize::new(0))));
        let mut cx = Context::from_waker(&waker);
        let mut fut: Pin<Box<dyn Future<Output = PathResult> + Send>> = Box::pin(async move { m.path(src, dst, now).await });
        loop {
            if let Poll::Ready(r) = fut.as_mut().poll(&mut cx) {
                drop(fut);
                *s2.lock().unwrap() = Some(r);
                break;
            }
            polled2.store(true, Ordering::SeqCst);
            if stop2.load(Ordering::Relaxed) {
                break;
            }
            std::hint::spin_loop();
        }
        polled2.store(true, Ordering::SeqCst);
    });
    MtWaiter { pair: p, join, slot, aborted: false, validated: false, stop, polled }
}

/// validate the results of the callers that have returned since the last sweep
fn mt_sweep(waiters: &mut [MtWaiter], book: &Book, obs: &mut Obs) -> CheckResult {
    for w in waiters.iter_mut() {
        if w.validated {
            continue;
        }
        // read the flags BEFORE looking at the slot: everything answered before the caller
        // returned is then included
        let allowed = book.error_allowed(w.pair);
        if let Some(r) = w.slot.lock().unwrap().as_ref() {
            w.validated = true;
            if !allowed && r.is_ok() {
                obs.label("consistency:path-required-and-delivered");
            }
            validate_result(w.pair, r, allowed, obs)?;
        }
    }
    Ok(())
}

fn mt_spawn_waiter(mgr: &Mgr, p: usize, pre: u32, barrier: Option<Arc<AtomicUsize>>) -> MtWaiter {
    let w = world();
    let m = mgr.clone();
    let (src, dst, now) = (w.src, w.dst[p], w.t0);
    let slot = Arc::new(Mutex::new(None));
    let s2 = slot.clone();
    let join = tokio::spawn(async move {
        if let Some(b) = barrier {
            b.fetch_sub(1, Ordering::SeqCst);
            let mut guard = 0u32;
            while b.load(Ordering::SeqCst) > 0 && guard < 200_000 {
                std::hint::spin_loop();
                guard += 1;
            }
        }
        spin(pre);
        let r = m.path(src, dst, now).await;
        drop(m);
        *s2.lock().unwrap() = Some(r);
    });
    MtWaiter {
        pair: p,
        join,
        slot,
        aborted: false,
        validated: false,
        stop: Arc::new(AtomicBool::new(false)),
        polled: Arc::new(AtomicBool::new(true)),
    }
}

async fn run_mt(case: &Case, obs: &mut Obs, shared: Arc<Shared>) -> CheckResult {
    let mut mgr = Some(build_manager(case, &shared)?);
    let mut book = Book::new(false, case);
    let mut waiters: Vec<MtWaiter> = Vec::new();
    let skew = |i: usize| -> u32 { case.skew.get(i).copied().unwrap_or(0) as u32 };
    let mut nontrivial = false;

    for (ai, a) in case.actions.iter().enumerate() {
        match a {
            Action::New(p) => {
                let p = pair_of(*p);
                if let Some(m) = mgr.as_ref() {
                    if shared.inflight(p) > 0 {
                        nontrivial = true;
                    }
                    book.before_request(p, &shared);
                    waiters.push(mt_spawn_waiter(m, p, skew(ai), None));
                }
            }
            Action::Burst(p, k) => {
                let p = pair_of(*p);
                if let Some(m) = mgr.as_ref() {
                    let k = (*k).clamp(2, 6) as usize;
                    let barrier = Arc::new(AtomicUsize::new(k));
                    for j in 0..k {
                        book.before_request(p, &shared);
                        // tiny per-task skew so that the tasks do not all hit the same instruction
                        waiters.push(mt_spawn_waiter(m, p, (skew(ai) as usize * j % 64) as u32, Some(barrier.clone())));
                    }
                    obs.label("mt:burst");
                    nontrivial = true;
                }
            }
            Action::Spin(p, k) => {
                let p = pair_of(*p);
                if let Some(m) = mgr.as_ref() {
                    let k = (*k).clamp(2, 4) as usize;
                    let first = waiters.len();
                    for j in 0..k {
                        book.before_request(p, &shared);
                        waiters.push(mt_spawn_spinner(m, p, (skew(ai) as usize * j % 512) as u32));
                    }
                    // let the spinners reach their first poll (bounded; no oracle depends on it)
                    let mut guard = 0u32;
                    while guard < 20_000 && !waiters[first..].iter().all(|w| w.polled.load(Ordering::SeqCst)) {
                        tokio::task::yield_now().await;
                        guard += 1;
                    }
                    obs.label("mt:spinners");
                    nontrivial = true;
                }
            }
            Action::Poll(_) | Action::Advance(_) => spin(skew(ai)),
            Action::DropW(i) => {
                let live: Vec<usize> = waiters.iter().enumerate().filter(|(_, w)| !w.aborted && !w.join.is_finished()).map(|(i, _)| i).collect();
                if !live.is_empty() {
                    let k = live[idx(*i, live.len())];
                    waiters[k].cancel();
                }
            }
            Action::Cached(p) => {
                let p = pair_of(*p);
                if let Some(m) = mgr.as_ref() {
                    let w = world();
                    book.before_request(p, &shared);
                    if let Some(path) = m.cached_path(w.src, w.dst[p], w.t0) {
                        validate_result(p, &Ok(path), true, obs)?;
                    }
                }
            }
            Action::Complete(i, res) => {
                let pend = shared.pending_gates();
                if !pend.is_empty() {
                    let g = pend[idx(*i, pend.len())];
                    book.on_complete(shared.gate_pair(g), g, *res);
                    shared.open(g, *res);
                }
            }
            Action::Run(n) => {
                for _ in 0..*n {
                    spin(skew(ai));
                    tokio::task::yield_now().await;
                }
            }
            Action::Settle => {
                for _ in 0..50 {
                    tokio::task::yield_now().await;
                    spin(200);
                }
            }
            Action::Stop(p) => {
                let p = pair_of(*p);
                if let Some(m) = mgr.as_ref() {
                    let w = world();
                    m.stop_managing_paths(w.src, w.dst[p]);
                    book.on_stop(p);
                }
            }
            Action::DropMgr => {
                if mgr.take().is_some() {
                    book.on_dropmgr();
                }
            }
        }
        book.check_at_most_one(&shared)?;
        mt_sweep(&mut waiters, &book, obs)?;
    }

    // final: open every gate until no lookup is pending and every waiter task has finished
    let deadline = std::time::Instant::now() + Duration::from_secs(10);
    let mut round = 0u32;
    let mut quiet_since: Option<std::time::Instant> = None;
    loop {
        let pend = shared.pending_gates();
        for g in &pend {
            let res = if round == 0 { case.final_res } else { Res::Err };
            book.on_complete(shared.gate_pair(*g), *g, res);
            shared.open(*g, res);
        }
        if !pend.is_empty() {
            round += 1;
            quiet_since = None;
        }
        book.check_at_most_one(&shared)?;
        mt_sweep(&mut waiters, &book, obs)?;
        let unfinished = waiters.iter().filter(|w| !w.join.is_finished()).count();
        if unfinished == 0 && pend.is_empty() {
            // lookups may still be started by workers that have not run yet: require a short
            // stable period without new gates
            match quiet_since {
                None => quiet_since = Some(std::time::Instant::now()),
                Some(t) if t.elapsed() > Duration::from_millis(2) => break,
                _ => {}
            }
        }
        if std::time::Instant::now() > deadline {
            if unfinished > 0 && shared.pending_gates().is_empty() {
                MT_INCONCLUSIVE.lock().unwrap().push(format!(
                    "mt: {unfinished} waiter task(s) still pending 10 s after the last lookup finished; case {}",
                    serde_json::to_string(case).unwrap_or_default()
                ));
                obs.label("mt:waiter-pending-after-10s");
            }
            break;
        }
        tokio::task::yield_now().await;
        tokio::time::sleep(Duration::from_micros(200)).await;
    }
    mt_sweep(&mut waiters, &book, obs)?;
    // drop: every worker terminates
    drop(mgr.take());
    for w in &mut waiters {
        w.cancel();
    }
    let deadline = std::time::Instant::now() + Duration::from_secs(10);
    loop {
        for g in shared.pending_gates() {
            shared.open(g, Res::Err);
        }
        let alive = alive_tasks();
        if alive == 0 && shared.fetcher_dropped.load(Ordering::SeqCst) {
            break;
        }
        if std::time::Instant::now() > deadline {
            MT_INCONCLUSIVE.lock().unwrap().push(format!(
                "mt: {alive} task(s) alive / manager freed = {} 10 s after the manager was dropped; case {}",
                shared.fetcher_dropped.load(Ordering::SeqCst),
                serde_json::to_string(case).unwrap_or_default()
            ));
            obs.label("mt:worker-alive-after-10s");
            break;
        }
        tokio::time::sleep(Duration::from_micros(200)).await;
    }
    panic_fail(&shared)?;
    if book.max_concurrent_first >= 2 {
        obs.label("concurrent-first-requests>=2");
    }
    obs.label("mt:case");
    if nontrivial {
        obs.nontrivial(&("mt", case.idle_zero, case.refetch_zero, case.near_expiry, &case.actions, &case.skew));
    }
    Ok(())
}

/// Replay of a saved multi-thread case: the schedule is only sampled, so the case is repeated.
fn check_mt_replay(case: &Case, obs: &mut Obs) -> CheckResult {
    for _ in 0..40 {
        check_mt(case, obs)?;
    }
    Ok(())
}

fn check_mt(case: &Case, obs: &mut Obs) -> CheckResult {
    install_hook();
    let _ = world();
    let shared = Arc::new(Shared::default());
    let sh2 = shared.clone();
    let rt = tokio::runtime::Builder::new_multi_thread()
        .worker_threads(8)
        .enable_time()
        .on_thread_start(move || CASE_SHARED.with(|c| *c.borrow_mut() = Some(sh2.clone())))
        .build()
        .expect("runtime");
    CASE_SHARED.with(|c| *c.borrow_mut() = Some(shared.clone()));
    let r = rt.block_on(run_mt(case, obs, shared));
    rt.shutdown_timeout(Duration::from_secs(2));
    CASE_SHARED.with(|c| *c.borrow_mut() = None);
    r
}

/// schedules built on purpose for the two races only parallelism can reach
fn mt_shaped_strategy() -> impl Strategy<Value = Case> {
    mt_shapes(0, 7)
}

/// shapes `lo..hi` (0..3 barrier bursts / completion races, 3..7 busy-polling callers)
fn mt_shapes(lo: u8, hi: u8) -> impl Strategy<Value = Case> {
    (
        prop_oneof![Just(false), Just(true)],
        (0u8..2),
        (2u8..=6),
        proptest::collection::vec(prop_oneof![0u16..300, 0u16..3000, 0u16..30000], 12),
        res_strategy(),
        lo..hi,
    )
        .prop_map(|(idle_zero, p, k, skew, res, shape)| {
            let mut idle_zero = idle_zero;
            let actions = match shape {
                // N first requests released together
                0 => vec![Action::Burst(p, k), Action::Run(1), Action::Complete(0, res)],
                // a waiter registers exactly while the first lookup completes
                1 => vec![
                    Action::New(p),
                    Action::Settle,
                    Action::Complete(0, res),
                    Action::New(p),
                    Action::New(p),
                    Action::New(p),
                    Action::New(p),
                    Action::New(p),
                ],
                // completion, stop and new waiters together
                2 => vec![Action::New(p), Action::Settle, Action::Complete(0, res), Action::Stop(p), Action::Burst(p, k)],
                // callers parked on the pending first lookup look at the result as early as
                // possible (busy-polling threads and woken tasks) while it completes with paths
                3 | 4 => {
                    idle_zero = false;
                    vec![Action::Spin(p, k), Action::Run(1), Action::Complete(0, Res::OkMany)]
                }
                5 => {
                    idle_zero = false;
                    vec![Action::Burst(p, k), Action::Spin(p, 2), Action::Run(1), Action::Complete(0, Res::OkMany)]
                }
                _ => {
                    idle_zero = false;
                    vec![
                        Action::Spin(p, 3),
                        Action::Spin(1 - p, 3),
                        Action::Complete(0, Res::Ok),
                        Action::Run(1),
                        Action::Complete(0, Res::OkMany),
                    ]
                }
            };
            Case { idle_zero, refetch_zero: false, near_expiry: false, final_res: Res::Ok, skew, actions }
        })
}

fn run_mt_tier(ctx: &Ctx) {
    // fixed work; the override exists only for the sensitivity runs described in notes/C20.md
    let scale = |n: u32| std::env::var("C20_MT_CASES").ok().and_then(|s| s.parse().ok()).unwrap_or(n);
    // both tiers: a small sample of the busy-polling shapes (result consistency needs parallelism)
    ctx.run_prop("mt-spin", scale(ctx.tier.pick(400, 4000)), || mt_shapes(3, 7), check_mt);
    if ctx.tier == vcore::Tier::Thorough {
        ctx.run_prop("mt-shaped", scale(40_000), mt_shaped_strategy, check_mt);
        ctx.run_prop("mt-random", scale(20_000), || case_strategy(30, true), check_mt);
    }
    for m in MT_INCONCLUSIVE.lock().unwrap().iter().take(5) {
        ctx.inconclusive(m.clone());
    }
}

// ---------------------------------------------------------------------------------------------

fn post(ctx: &Ctx) {
    ctx.require_label("waiter-registered-while-fetch-in-flight", 1000);
    ctx.require_label("race:new-waiter-vs-exit-path", 200);
    ctx.require_label("race:stop-with-pending-waiter", 200);
    ctx.require_label("race:dropmgr-with-pending-waiter", 100);
    ctx.require_label("concurrent-first-requests>=2", 1000);
    ctx.require_label("released:path", 1000);
    ctx.require_label("released:error-fetch", 500);
    ctx.require_label("released:error-worker-exited", 100);
    ctx.require_label("waiter-cancelled", 200);
    ctx.require_label("consistency:path-required-and-delivered", 1000);
    ctx.require_label("mt:spinners", ctx.tier.pick(200, 2000));
}

fn main() {
    let subs = [
        Sub { name: "st-exhaustive-len1", run: run_st_exhaustive, replay: |c, v| c.replay_case::<Case>("st", v, check_st) },
        Sub { name: "st-exhaustive-len2", run: |_| {}, replay: |c, v| c.replay_case::<Case>("st", v, check_st) },
        Sub { name: "st-exhaustive-len3", run: |_| {}, replay: |c, v| c.replay_case::<Case>("st", v, check_st) },
        Sub { name: "st-exhaustive-len4", run: |_| {}, replay: |c, v| c.replay_case::<Case>("st", v, check_st) },
        Sub { name: "st-exhaustive-len5", run: |_| {}, replay: |c, v| c.replay_case::<Case>("st", v, check_st) },
        Sub { name: "st-exhaustive-len6", run: |_| {}, replay: |c, v| c.replay_case::<Case>("st", v, check_st) },
        Sub { name: "st-exhaustive-len7", run: |_| {}, replay: |c, v| c.replay_case::<Case>("st", v, check_st) },
        Sub { name: "st-random-short", run: run_st_random, replay: |c, v| c.replay_case::<Case>("st", v, check_st) },
        Sub { name: "st-random-long", run: |_| {}, replay: |c, v| c.replay_case::<Case>("st", v, check_st) },
        Sub { name: "mt-spin", run: |_| {}, replay: |c, v| c.replay_case::<Case>("mt", v, check_mt_replay) },
        Sub { name: "mt-shaped", run: run_mt_tier, replay: |c, v| c.replay_case::<Case>("mt", v, check_mt_replay) },
        Sub { name: "mt-random", run: |_| {}, replay: |c, v| c.replay_case::<Case>("mt", v, check_mt_replay) },
    ];
    vcore::main(
        "C20",
        "cases = schedules (sequences of actions NewWaiter/Burst/Spin/Poll/DropWaiter/cached_path/CompleteFetch(ok 2 paths|ok 32 paths|empty|error)/RunWorkers(n)/Settle/stop_managing_paths/DropManager/AdvanceClock) x configuration (max_idle_period=0, refetch=0, expiry threshold > path lifetime) over 2 (src,dst) pairs, driven through the public MultiPathManager API with a gated mock PathFetcher on a current_thread runtime with paused clock where one harness yield polls exactly one worker task; exhaustive over an 11-symbol alphabet (1 pair, <=2 waiters) up to length 5 (7 in thorough) x 6 configurations, random up to 6 waiters x 60 actions; both tiers add a sample (400 / 4000 cases) of schedules on an 8-thread runtime in which 2-4 callers on own threads busy-poll their parked future while the first lookup completes; thorough adds 60 000 further 8-thread schedules with seeded spin skew (wall-clock bound there => inconclusive). Oracles: after every lookup has finished and the runtime is quiescent each live waiter future has been woken and is Ready (path the fetcher returned for that pair, or error; an ERROR is a violation when every lookup answered so far for that pair delivered paths, the pair was never stopped and the configuration has neither idle-out at period 0 nor an expiry threshold above the path lifetime - evaluated when the result is observed, in both tiers; the multi-thread tier adds callers on own threads that busy-poll their future while the first lookup completes with 32 paths); fetcher invocations between the first request for an unmanaged pair and the completion of its first lookup == 1 (<=1 at every step); after the manager and all callers are dropped no task is alive and the manager state (fetcher) is freed; no panic on runtime threads. Non-trivial = a waiter registers while a lookup for its pair is in flight, or stop/drop races a pending or new waiter.",
        &[
            "the manager reads SystemTime::now() internally: paths are stamped with the process start time and expire 24 h later; all non-zero periods (idle 120 s, backoff >= 60 s, refetch 30 min) are never reached because only tokio's paused clock is advanced (<= 600 s per action) while SystemTime does not move; refetch after a FAILED lookup is therefore not explored",
            "a waiter future owns a clone of the manager (the public API offers no handle that outlives the manager): 'manager dropped' means the harness' handle and later every caller is dropped; PathSetHandle::current_error after drop is not observable through the public API",
            "single-thread tier interleaves only at await points (fetcher gate, select! in the worker loop, waiter registration); the multi-thread tier reports a waiter pending after 10 s as inconclusive",
            "fetcher results are ok(2 paths)/empty/error; a panicking or never-completing fetcher is outside the quantifier",
        ],
        &subs,
        post,
    );
}
