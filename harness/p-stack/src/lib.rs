//! Shared driver / model code of the path-manager checks C05, C06, C07.
pub mod gens;
pub mod policy;
pub mod sim;
pub mod world;

use vcore::{CheckResult, Obs};

/// Development aid (never set by ./check): `PSTACK_ASSUME_KNOWN=prefix1,prefix2` treats failures
/// whose signature starts with one of the prefixes as passed, so that the search (and the
/// sensitivity runs against planted defects) can go on past defects that are already reported
/// but not yet listed in /verif/known_findings.json.
pub fn dev_filter(r: CheckResult) -> CheckResult {
    match r {
        Err(f) => {
            if let Ok(list) = std::env::var("PSTACK_ASSUME_KNOWN") {
                if list.split(',').any(|p| !p.is_empty() && f.sig.starts_with(p)) {
                    return Ok(());
                }
            }
            Err(f)
        }
        ok => ok,
    }
}

/// Replays run a case several times: the manager breaks ranking ties by the iteration order of a
/// randomly keyed HashMap (pathset.rs `update_path_cache`), so one history has several
/// executions; the property quantifies over all of them.
pub fn replay_repeated<C>(case: &C, obs: &mut Obs, check: impl Fn(&C, &mut Obs) -> CheckResult) -> CheckResult {
    for _ in 0..32 {
        let mut o = Obs::default();
        check(case, &mut o)?;
    }
    check(case, obs)
}
