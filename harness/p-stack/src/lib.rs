//! Shared driver / model code of the path-manager checks C05, C06, C07.
pub mod gens;
pub mod policy;
pub mod sim;
pub mod world;
