//! Shared driver / model code of the path-manager checks C05, C06, C07.
pub mod gens;
pub mod policy;
pub mod sim;
pub mod world;

use vcore::{CheckResult, Obs};

/// Development aid (never set by ./check): `PSTACK_ASSUME_KNOWN=prefix1,prefix2` treats failures
/// whose signature starts with one of the prefixes as passed, so that the search (and the
/// sensitivity runs against planted defects) can go on past defects that are already reported
/// but not yet listed in /verif/known_findings.json.
pub fn dev_filter(r: CheckResult) -> CheckResult {
    match r {
        Err(f) => {
            if let Ok(list) = std::env::var("PSTACK_ASSUME_KNOWN") {
                if list.split(',').any(|p| !p.is_empty() && f.sig.starts_with(p)) {
                    return Ok(());
                }
            }
            Err(f)
        }
        ok => ok,
    }
}

/// Replays run a case several times: the manager breaks ranking ties by the iteration order of a
/// randomly keyed HashMap (pathset.rs `update_path_cache`), so one history has several
/// executions; the property quantifies over all of them.
pub fn replay_repeated<C>(case: &C, obs: &mut Obs, check: impl Fn(&C, &mut Obs) -> CheckResult) -> CheckResult {
    for _ in 0..32 {
        let mut o = Obs::default();
        check(case, &mut o)?;
    }
    check(case, obs)
}

/// Signatures of the open known findings of a property (only used to decide WHICH of several
/// violations met in one history is reported: an unlisted one first).
pub fn known_open(prop: &str) -> &'static [String] {
    use std::sync::OnceLock;
    static K: OnceLock<Vec<(String, String)>> = OnceLock::new();
    static C05: OnceLock<Vec<String>> = OnceLock::new();
    static C06: OnceLock<Vec<String>> = OnceLock::new();
    static C07: OnceLock<Vec<String>> = OnceLock::new();
    let all = K.get_or_init(|| {
        let mut v = vec![];
        if let Ok(text) = std::fs::read_to_string(format!("{}/known_findings.json", vcore::VERIF_ROOT)) {
            if let Ok(doc) = serde_json::from_str::<serde_json::Value>(&text) {
                for f in doc["findings"].as_array().cloned().unwrap_or_default() {
                    if f["status"].as_str().unwrap_or("open") == "open" {
                        v.push((f["property"].as_str().unwrap_or("").to_string(), f["signature"].as_str().unwrap_or("").to_string()));
                    }
                }
            }
        }
        v
    });
    let cell = match prop {
        "C05" => &C05,
        "C06" => &C06,
        _ => &C07,
    };
    cell.get_or_init(|| all.iter().filter(|(p, _)| p == prop).map(|(_, s)| s.clone()).collect())
}

pub fn sig_matches(known: &str, sig: &str) -> bool {
    known == sig || (known.ends_with('*') && sig.starts_with(&known[..known.len() - 1]))
}
