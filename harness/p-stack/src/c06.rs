//! C06 — handed-out paths are live; the manager's state stays bounded.

use std::sync::OnceLock;

use p_stack::{
    gens,
    sim::{self, Adv, Case, Cfg, FetchSpec, Focus, IssueKindSpec, IssueSpec, Life, Op, PathSpec},
    world::{Meta, World},
};
use proptest::prelude::*;
use vcore::{CheckResult, Ctx, Obs, Sub};

fn world() -> &'static World {
    static W: OnceLock<World> = OnceLock::new();
    W.get_or_init(World::new)
}

fn check(case: &Case, obs: &mut Obs) -> CheckResult {
    p_stack::dev_filter(check_inner(case, obs))
}

fn check_inner(case: &Case, obs: &mut Obs) -> CheckResult {
    let (s, deferred) = sim::run(world(), case, Focus::C06, obs)?;
    let c = &case.cfg;
    if !c.valid() {
        return Ok(());
    }
    if deferred.is_some() {
        obs.label("history-continued-past-a-violation");
    }
    if c.min_delay_ms == c.threshold_ms {
        obs.label("config-corner:min_delay==threshold");
    }
    if c.min_delay_ms == c.refetch_ms {
        obs.label("config-corner:min_delay==refetch_interval");
    }
    if c.min_delay_ms == 0 {
        obs.label("config-corner:min_delay==0");
    }
    obs.label(format!("max_cached={}", c.max_cached));
    obs.label(format!("issue_cache={}", c.issue_cache));
    if c.dedup_ms == 0 {
        obs.label("dedup-window=0");
    }
    if s.crossed_active_expiry {
        obs.label("time-crossed-active-expiry");
    }
    if s.max_fail_run >= 3 {
        obs.label("fetch-failures>=3-in-a-row");
    }
    if c.jitter > 0.0 {
        obs.label("backoff-jitter>0");
        if s.max_fail_run >= 5 {
            obs.label("backoff-jitter>0:failures>=5-in-a-row");
        }
    }
    if s.issue_reports >= 2 * c.issue_cache as u64 {
        obs.label("issue-reports>=2x-cache");
    }
    if s.issue_reports >= 1000 {
        obs.label("issue-reports>=1000");
    }
    if s.sends_with_path > 0 {
        obs.label("send-got-path");
    }
    if s.sends > s.sends_with_path {
        obs.label("send-got-none");
    }
    if s.ended_idle {
        obs.label("worker-exited-idle");
    }
    if s.slot_expired_sends > 0 {
        obs.label("send-while-slot-holds-expired-path");
    }
    if s.hot_loop {
        obs.label("refetch-hot-loop(min_delay=0)");
    }
    if s.budget_exhausted {
        obs.label("tick-budget-exhausted");
    }
    if s.fetches >= 5 {
        obs.label("fetches>=5");
    }
    if s.crossed_active_expiry || s.max_fail_run >= 3 || s.issue_reports >= 2 * c.issue_cache as u64 {
        obs.label("nontrivial");
        obs.nontrivial(&serde_json::to_string(case).unwrap_or_default());
    }
    match deferred {
        Some(f) => Err(f),
        None => Ok(()),
    }
}

// ------------------------------------------------------------------------------ configurations

fn cfg_strategy() -> impl Strategy<Value = Cfg> {
    (
        (prop_oneof![8 => Just(1usize), 8 => Just(2), 8 => Just(5), 6 => Just(50), 1 => Just(0)]),
        gens::pick(vec![5_000u64, 30_000, 300_000]),
        0u8..8,
        0u8..6,
        gens::pick(vec![(1.0f32, 10.0f32, 2.0f32), (60.0, 300.0, 1.5), (1.0, 1.0, 1.0), (5.0, 1000.0, 3.0), (0.5, 2.5, 1.25), (30.0, 3600.0, 2.0)]),
        gens::pick(vec![1usize, 2, 8]),
        gens::pick(vec![0u64, 10_000]),
        gens::pick(vec![30_000u64, 120_000, 100_000_000, 100_000_000]),
        gens::pick(vec![0.1f32, 0.5]),
        // jitter of the failure backoff (the default configuration uses 5 s)
        gens::pick(vec![0.0f32, 0.0, 0.5, 5.0]),
    )
        .prop_map(|(max_cached, thr, md_sel, rf_sel, backoff, issue_cache, dedup_ms, idle_ms, swap_thr, jitter)| {
            // min delay: 0 (rare), 1 s, thr/2, thr (equality corner of min_delay <= threshold),
            // or thr + 1 ms (just invalid)
            let min_delay_ms = match md_sel {
                0 => 0,
                1 | 2 | 3 => 1_000,
                4 => thr / 2,
                5 | 6 => thr,
                _ => thr + 1,
            };
            // refetch: == min delay (equality corner), 100 s, 30 min, or min_delay - 1 (invalid)
            let refetch_ms = match rf_sel {
                0 | 1 => min_delay_ms.max(1),
                2 | 3 => 100_000u64.max(min_delay_ms),
                4 => 1_800_000u64.max(min_delay_ms),
                _ => {
                    if min_delay_ms > 1 { min_delay_ms - 1 } else { 100_000 }
                }
            };
            Cfg { max_cached, refetch_ms, min_delay_ms, threshold_ms: thr, idle_ms, backoff, jitter, issue_cache, dedup_ms, swap_thr }
        })
}

/// History prefix built on purpose: a short-lived active path, then the control service fails so
/// that backoff / min delay carries the next tick beyond the path's expiry.
fn starvation_prefix(cfg: Cfg) -> impl Strategy<Value = Vec<Op>> {
    let thr = (cfg.threshold_ms / 1000) as i32;
    let md = (cfg.min_delay_ms / 1000) as i32;
    (
        0u8..12,
        gens::pick(vec![thr + 1, thr + 2, thr + md + 1, thr + 5, 2 * thr, md + 1, thr - 1, 3]),
        prop_oneof![Just(FetchSpec::Error), Just(FetchSpec::NotFound), Just(FetchSpec::Paths(vec![]))],
        prop::option::of(0u8..12),
        1usize..6,
        gens::pick(vec![-1i32, 0, 1, 500]),
    )
        .prop_map(move |(route, life, failure, second, ticks, delta)| {
            let ps = |route, life| PathSpec { route, life: Life::Rel(life), exp_unit: 1, min_seg: 0, meta: Meta::Full, meta_exp_skew: 0 };
            let mut first = vec![ps(route, life)];
            if let Some(r2) = second {
                first.push(ps(r2, life + 600));
            }
            let mut ops = vec![Op::Fetch(FetchSpec::Paths(first)), Op::Advance(Adv::Ms(0)), Op::Send, Op::Fetch(failure)];
            for _ in 0..ticks {
                ops.push(Op::Advance(Adv::NextMaintain(0)));
                ops.push(Op::Send);
            }
            ops.push(Op::Advance(Adv::ActiveExpiry(delta)));
            ops.push(Op::Send);
            ops.push(Op::Advance(Adv::NextMaintain(0)));
            ops.push(Op::Send);
            ops
        })
}

/// History prefix built on purpose: the control service fails for many consecutive attempts, so
/// that the exponential part of the backoff reaches (and would exceed) its ceiling.
fn failure_run_prefix() -> impl Strategy<Value = Vec<Op>> {
    (prop_oneof![Just(FetchSpec::Error), Just(FetchSpec::NotFound), Just(FetchSpec::Paths(vec![]))], 4usize..14, any::<bool>()).prop_map(|(failure, ticks, path_first)| {
        let mut ops = vec![];
        if path_first {
            let ps = PathSpec { route: 0, life: Life::Rel(86_000), exp_unit: 255, min_seg: 0, meta: Meta::Full, meta_exp_skew: 0 };
            ops.extend([Op::Fetch(FetchSpec::Paths(vec![ps])), Op::Advance(Adv::Ms(0)), Op::Send]);
        }
        ops.push(Op::Fetch(failure));
        for _ in 0..ticks {
            ops.push(Op::Advance(Adv::NextMaintain(0)));
        }
        ops.push(Op::Send);
        ops
    })
}

fn case_strategy(max_ops: usize) -> impl Strategy<Value = Case> {
    cfg_strategy().prop_flat_map(move |cfg| {
        let tail = || gens::ops_strategy(cfg, max_ops, 6, [20, 35, 8, 30, 7], 10_000);
        prop_oneof![
            3 => tail().prop_map(move |ops| Case { cfg, policies: vec![], ops }),
            1 => (starvation_prefix(cfg), tail()).prop_map(move |(mut pre, t)| {
                pre.extend(t.into_iter().take(max_ops.saturating_sub(pre.len())));
                Case { cfg, policies: vec![], ops: pre }
            }),
            1 => (failure_run_prefix(), tail()).prop_map(move |(mut pre, t)| {
                pre.extend(t.into_iter().take(max_ops.saturating_sub(pre.len())));
                Case { cfg, policies: vec![], ops: pre }
            }),
        ]
    })
}

fn run_random(ctx: &Ctx) {
    let n = ctx.tier.pick(10_000, 400_000);
    let max_ops = ctx.tier.pick(30, 60);
    ctx.run_prop("histories-random", n, || case_strategy(max_ops), check);
}

// ------------------------------------------------------------------------------ exhaustive

fn exh_cfgs() -> Vec<Cfg> {
    let fast = Cfg { max_cached: 5, refetch_ms: 100_000, min_delay_ms: 1_000, threshold_ms: 5_000, idle_ms: 100_000_000, backoff: (1.0, 10.0, 2.0), jitter: 0.0, issue_cache: 2, dedup_ms: 10_000, swap_thr: 0.1 };
    vec![
        fast,
        Cfg { max_cached: 1, min_delay_ms: 5_000, refetch_ms: 5_000, dedup_ms: 0, issue_cache: 1, ..fast },
        // jitter > 0 with an exponential part that sits at the ceiling from the first failure on
        Cfg { backoff: (2.0, 2.0, 1.0), jitter: 1.0, ..fast },
    ]
}
fn alphabet() -> Vec<Op> {
    let ps = |route: u8, life: i32| PathSpec { route, life: Life::Rel(life), exp_unit: 1, min_seg: 0, meta: Meta::Full, meta_exp_skew: 0 };
    vec![
        Op::Fetch(FetchSpec::Paths(vec![ps(0, 7)])),
        // a fetcher that keeps serving the same instance: maintenance lands exactly on its expiry
        Op::Fetch(FetchSpec::Paths(vec![PathSpec { life: Life::Abs(5), ..ps(9, 0) }])),
        Op::Fetch(FetchSpec::Paths(vec![ps(2, 4), ps(6, 400), ps(0, 0)])),
        Op::Fetch(FetchSpec::Error),
        Op::Advance(Adv::NextMaintain(0)),
        Op::Advance(Adv::ActiveExpiry(0)),
        Op::Advance(Adv::ActiveExpiry(-1)),
        Op::Advance(Adv::Ms(11_000)),
        Op::Issue(IssueSpec { kind: IssueKindSpec::FirstHop, route: 0, pos: 0, twist: 0, pkt: 0 }),
        Op::Send,
    ]
}
fn exh_case(i: u64, len: usize) -> Option<Case> {
    let alpha = alphabet();
    let cfgs = exh_cfgs();
    let k = alpha.len() as u64;
    let per = k.pow(len as u32);
    let ci = (i / per) as usize;
    if ci >= cfgs.len() {
        return None;
    }
    let mut code = i % per;
    let mut ops = vec![];
    for _ in 0..len {
        ops.push(alpha[(code % k) as usize].clone());
        code /= k;
    }
    ops.push(Op::Send);
    Some(Case { cfg: cfgs[ci], policies: vec![], ops })
}
fn run_exhaustive(ctx: &Ctx) {
    let max_len = ctx.tier.pick(4, 5);
    for len in 1..=max_len {
        let n = exh_cfgs().len() as u64 * (alphabet().len() as u64).pow(len as u32);
        let name: &'static str = match len {
            1 => "histories-exhaustive-len1",
            2 => "histories-exhaustive-len2",
            3 => "histories-exhaustive-len3",
            4 => "histories-exhaustive-len4",
            _ => "histories-exhaustive-len5",
        };
        ctx.run_enum(name, n, true, |i| exh_case(i, len), check);
    }
}

fn post(ctx: &Ctx) {
    ctx.require_label("nontrivial", ctx.tier.pick(800, 80_000));
    ctx.require_label("time-crossed-active-expiry", 100);
    ctx.require_label("fetch-failures>=3-in-a-row", 150);
    ctx.require_label("backoff-jitter>0:failures>=5-in-a-row", 150);
    ctx.require_label("issue-reports>=2x-cache", 150);
    ctx.require_label("config-corner:min_delay==threshold", 100);
    ctx.require_label("config-corner:min_delay==refetch_interval", 100);
    ctx.require_label("config-invalid", 50);
    ctx.require_label("send-got-path", 800);
}

fn main() {
    let subs = [
        Sub { name: "histories-random", run: run_random, replay: |c, v| c.replay_case::<Case>("histories-random", v, |k, o| p_stack::replay_repeated(k, o, check)) },
        Sub { name: "histories-exhaustive-len1", run: run_exhaustive, replay: |c, v| c.replay_case::<Case>("histories-exhaustive", v, |k, o| p_stack::replay_repeated(k, o, check)) },
        Sub { name: "histories-exhaustive-len2", run: |_| {}, replay: |c, v| c.replay_case::<Case>("histories-exhaustive", v, |k, o| p_stack::replay_repeated(k, o, check)) },
        Sub { name: "histories-exhaustive-len3", run: |_| {}, replay: |c, v| c.replay_case::<Case>("histories-exhaustive", v, |k, o| p_stack::replay_repeated(k, o, check)) },
        Sub { name: "histories-exhaustive-len4", run: |_| {}, replay: |c, v| c.replay_case::<Case>("histories-exhaustive", v, |k, o| p_stack::replay_repeated(k, o, check)) },
        Sub { name: "histories-exhaustive-len5", run: |_| {}, replay: |c, v| c.replay_case::<Case>("histories-exhaustive", v, |k, o| p_stack::replay_repeated(k, o, check)) },
    ];
    vcore::main(
        "C06",
        "case = (manager configuration, history). Configurations: max cached {0 rare,1,2,5,50}; expiry threshold {5,30,300 s}; min refetch delay {0, 1 s, thr/2, thr (equality corner), thr+1ms (invalid)}; refetch interval {== min delay (equality corner), 100 s, 30 min, min delay-1 (invalid)}; six backoff triples x jitter {0, 0.5 s, 5 s} (the jitter is drawn by the manager's own RNG: only the property's bounds are asserted, never a drawn value); issue cache {1,2,8}; dedup window {0,10 s}; invalid configurations must be rejected. Ops as in C05 plus IssueRepeat(n up to 10^4, spacing 0/1ms/window-1/window/window+1/2*window+7/60 s) constructed 'starvation' prefixes (short-lived active path, then the control service errs / finds nothing so that backoff or min delay carries the next tick past the expiry) and 'failure run' prefixes (4..13 consecutive failed lookups, so that the exponential part of the backoff reaches its ceiling). maintain() runs at every instant next_maintain() names. Invariants: (1) at every Send the path in the active slot (what cached_path / path_wait clone) has hop-field expiry (decoded from the raw bytes by refmodel) > now, and the three read APIs agree; (2) right after a maintenance instant with a fetch, if a policy-conform unexpired path was delivered by this fetch - or retained from earlier ones when no truncation can have happened - the slot is not empty; (3) cached <= max_cached_paths_per_pair; (4) issue cache <= issue_cache_size and its FIFO <= 4*size+4; (5) after a fetch at t: t+min_refetch_delay <= next_refetch; failed: <= t+max(backoff max, min delay); successful: <= t+refetch_interval and <= max(t+min delay, earliest cached expiry - threshold); failed_attempts counts the consecutive failures; (6) no panic / debug assertion anywhere; (7) at EVERY Send: if nothing is handed out, no path the manager itself still caches is unexpired. Exhaustive: all histories of length <= 4 (thorough 5) over a 10-op boundary-time alphabet x 3 configurations (one with jitter). Non-trivial = time crossed the active path's expiry, or >= 3 consecutive fetch failures, or >= 2*issue_cache_size issue reports.",
        &[
            "maintenance runs exactly at the instants next_maintain() names (the real task runs it at or after them, which only widens the windows reported)",
            "backoff parameters are positive with max >= min and factor >= 1 (there is no public setter and no validation for them); with jitter > 0 the schedule depends on the manager's RNG, so only bounds are asserted and such histories have several executions",
            "fetches resolve instantly",
            "ranking ties are broken nondeterministically by the manager (new paths pass through a randomly keyed HashMap before a stable sort), so one history has several executions; no assertion depends on WHICH of equally ranked paths wins: every oracle constrains whatever path is returned (policy, provenance, liveness), sizes, schedules, or - in C07 - scores up to a 1e-3 tolerance where any path within tolerance of the best is accepted; replays and regressions run a case 33 times and fail if any execution fails",
        ],
        &subs,
        post,
    );
}
