//! History interpreter shared by C05 and C06: applies `Op`s to the real `PathSetDriver`
//! (scion-stack, feature verif-hooks) AND to a plain model of what has been fetched, stepping the
//! per-pair worker exactly as `PathSet::manage()` would: `maintain` runs at every instant
//! `next_maintain` falls due inside an `Advance`; issues are delivered at report time.
//!
//! Time is `SystemTime = BASE + offset` carried in the case; nothing reads a clock.

use std::{
    collections::{BTreeMap, BTreeSet},
    time::{Duration, SystemTime},
};

use scion_stack::verif::{FetchResult, Issue, PathSetDriver, VerifConfig};
use sciparse::{
    path::ScionPath,
    payload::scmp::model::{ScmpExternalInterfaceDown, ScmpInternalConnectivityDown},
};
use serde::{Deserialize, Serialize};
use vcore::{CheckResult, Fail, Obs, ensure, no_panic};

use crate::{
    policy::{self, PolicySpec},
    world::{self, Meta, PathInst, Seen, World, at_ns, dst_ia, ia, inst_expiry_ms, ns_of, raw_bytes, src_ia},
};

// ---------------------------------------------------------------------------------- case types

#[derive(Clone, Copy, Debug, PartialEq, Serialize, Deserialize)]
pub struct Cfg {
    pub max_cached: usize,
    pub refetch_ms: u64,
    pub min_delay_ms: u64,
    pub threshold_ms: u64,
    pub idle_ms: u64,
    /// (minimum_delay_secs, maximum_delay_secs, factor)
    pub backoff: (f32, f32, f32),
    /// jitter_secs of the failure backoff (drawn by the manager from its own RNG: no assertion
    /// depends on the drawn value)
    #[serde(default)]
    pub jitter: f32,
    pub issue_cache: usize,
    pub dedup_ms: u64,
    pub swap_thr: f32,
}

impl Cfg {
    /// MultiPathManagerConfig::default() with jitter 0
    pub fn defaults() -> Cfg {
        Cfg {
            max_cached: 50,
            refetch_ms: 1_800_000,
            min_delay_ms: 60_000,
            threshold_ms: 300_000,
            idle_ms: 120_000,
            backoff: (60.0, 300.0, 1.5),
            jitter: 0.0,
            issue_cache: 100,
            dedup_ms: 10_000,
            swap_thr: 0.5,
        }
    }
    pub fn to_verif(&self) -> VerifConfig {
        VerifConfig {
            max_cached_paths_per_pair: self.max_cached,
            refetch_interval: Duration::from_millis(self.refetch_ms),
            min_refetch_delay: Duration::from_millis(self.min_delay_ms),
            min_expiry_threshold: Duration::from_millis(self.threshold_ms),
            max_idle_period: Duration::from_millis(self.idle_ms),
            fetch_failure_backoff: (self.backoff.0, self.backoff.1, self.backoff.2, self.jitter),
            issue_cache_size: self.issue_cache,
            issue_broadcast_size: 10,
            issue_deduplication_window: Duration::from_millis(self.dedup_ms),
            path_swap_score_threshold: self.swap_thr,
        }
    }
    /// what MultiPathManagerConfig::validate documents
    pub fn valid(&self) -> bool {
        self.max_cached >= 1 && self.min_delay_ms <= self.refetch_ms && self.min_delay_ms <= self.threshold_ms
    }
}

/// Lifetime of a fetched path instance.
#[derive(Clone, Copy, Debug, PartialEq, Eq, Hash, Serialize, Deserialize)]
pub enum Life {
    /// expires this many seconds after the (whole) second of the fetch; <= 0: already expired
    Rel(i32),
    /// expires at this second after BASE whenever it is fetched (a fetcher serving stale data)
    Abs(u32),
}

#[derive(Clone, Copy, Debug, PartialEq, Eq, Hash, Serialize, Deserialize)]
pub struct PathSpec {
    pub route: u8,
    pub life: Life,
    pub exp_unit: u8,
    pub min_seg: u8,
    pub meta: Meta,
    pub meta_exp_skew: u16,
}

#[derive(Clone, Debug, PartialEq, Eq, Hash, Serialize, Deserialize)]
pub enum FetchSpec {
    /// Ok(paths)
    Paths(Vec<PathSpec>),
    /// Err(NoPathsFound)
    NotFound,
    /// Err(InternalError)
    Error,
}

#[derive(Clone, Copy, Debug, PartialEq, Eq, Hash, Serialize, Deserialize)]
pub enum Adv {
    Ms(u32),
    /// to the next maintenance instant + delta ms (delta < 0: stop short of it)
    NextMaintain(i32),
    /// to the expiry of the path in the active slot + delta ms
    ActiveExpiry(i32),
    /// to (expiry of active path - min_expiry_threshold) + delta ms
    ActiveNear(i32),
}

#[derive(Clone, Copy, Debug, PartialEq, Eq, Hash, Serialize, Deserialize)]
pub enum IssueKindSpec {
    /// SCMP ExternalInterfaceDown(AS, egress interface of the AS on the route)
    ExtDown,
    /// SCMP InternalConnectivityDown(AS, ingress, egress)
    IntDown,
    /// local send failure on the first hop
    FirstHop,
}

#[derive(Clone, Copy, Debug, PartialEq, Eq, Hash, Serialize, Deserialize)]
pub struct IssueSpec {
    pub kind: IssueKindSpec,
    /// pool route the report is derived from
    pub route: u8,
    /// AS position on that route (clamped: ExtDown 0..n-1, IntDown 1..n-1)
    pub pos: u8,
    /// 0 = as on the route; 1 = interface id not used anywhere (0x7777); 2 = unknown AS
    pub twist: u8,
    /// distinguishes offending packets (=> distinct dedup ids)
    pub pkt: u8,
}

#[derive(Clone, Debug, PartialEq, Eq, Hash, Serialize, Deserialize)]
pub enum Op {
    /// what the fetcher answers from now on
    Fetch(FetchSpec),
    Advance(Adv),
    Issue(IssueSpec),
    /// the same issue n times, `spacing_ms` apart (time advances, maintenance runs)
    IssueRepeat { issue: IssueSpec, n: u16, spacing_ms: u32 },
    Send,
}

#[derive(Clone, Debug, Serialize, Deserialize)]
pub struct Case {
    pub cfg: Cfg,
    pub policies: Vec<PolicySpec>,
    pub ops: Vec<Op>,
}

// ---------------------------------------------------------------------------------- issues

/// Element of the network a report names, as the harness understands it.
#[derive(Clone, Copy, Debug, PartialEq, Eq, Hash)]
pub enum Element {
    /// AS leaves through this interface
    Egress { isd: u16, asn: u64, ifid: u16 },
    /// AS is crossed from `ing` to `eg`
    Cross { isd: u16, asn: u64, ing: u16, eg: u16 },
    /// first hop of the source AS
    FirstHop { isd: u16, asn: u64, ifid: u16 },
}

impl Element {
    /// Does a route traverse the element (harness semantics from the SCMP definitions: the
    /// reported interface is the one the packet was to leave the AS through)?
    pub fn on_route(&self, hops: &[refmodel::policy::Hop]) -> bool {
        match *self {
            Element::Egress { isd, asn, ifid } => hops.iter().any(|h| h.isd == isd && h.asn == asn && h.eg == ifid && h.eg != 0),
            Element::Cross { isd, asn, ing, eg } => hops.iter().any(|h| h.isd == isd && h.asn == asn && h.ing == ing && h.eg == eg && ing != 0 && eg != 0),
            Element::FirstHop { isd, asn, ifid } => hops[0].isd == isd && hops[0].asn == asn && hops[0].eg == ifid,
        }
    }
}

pub fn resolve_issue(w: &World, s: &IssueSpec) -> (Element, Issue) {
    let r = &w.routes[(s.route as usize) % w.routes.len()];
    let n = r.hops.len();
    let (mut isd, mut asn);
    // the dedup id of an SCMP issue covers the LENGTH of the offending packet only
    let pkt = vec![0x42; 2 + s.pkt as usize];
    let twist_if = |x: u16| if s.twist == 1 { 0x7777 } else { x };
    match s.kind {
        IssueKindSpec::ExtDown => {
            let pos = (s.pos as usize).min(n - 2);
            let h = r.hops[pos];
            (isd, asn) = (h.isd, h.asn);
            if s.twist == 2 {
                (isd, asn) = (3, 0xff00_0000_0999);
            }
            let ifid = twist_if(h.eg);
            (
                Element::Egress { isd, asn, ifid },
                Issue::from_scmp(ScmpExternalInterfaceDown::new(ia((isd, asn)), ifid, pkt).into()),
            )
        }
        IssueKindSpec::IntDown => {
            // transit AS; on a 2-AS route fall back to a (non-matching) crossing of the source AS
            let pos = if n > 2 { (s.pos as usize).clamp(1, n - 2) } else { 0 };
            let h = r.hops[pos];
            (isd, asn) = (h.isd, h.asn);
            if s.twist == 2 {
                (isd, asn) = (3, 0xff00_0000_0999);
            }
            let (ing, eg) = (if h.ing == 0 { 0x7776 } else { h.ing }, twist_if(h.eg));
            (
                Element::Cross { isd, asn, ing, eg },
                Issue::from_scmp(ScmpInternalConnectivityDown::new(ia((isd, asn)), ing, eg, pkt).into()),
            )
        }
        IssueKindSpec::FirstHop => {
            let h = r.hops[0];
            (isd, asn) = (h.isd, h.asn);
            if s.twist == 2 {
                (isd, asn) = (3, 0xff00_0000_0999);
            }
            let ifid = twist_if(h.eg);
            (Element::FirstHop { isd, asn, ifid }, Issue::first_hop_unreachable(ia((isd, asn)), ifid))
        }
    }
}

// ---------------------------------------------------------------------------------- model

#[derive(Clone, Copy, Debug, PartialEq, Eq)]
pub enum FetchOutcome {
    /// >= 1 policy-conform path delivered, at least one of them unexpired
    Success,
    /// >= 1 policy-conform path delivered but every one already expired
    SuccessAllExpired,
    /// error, nothing found, empty, or everything rejected by the policy
    Failure,
}

#[derive(Clone, Debug)]
pub struct Delivered {
    pub inst: PathInst,
    pub admissible: bool,
    pub fetch_no: u64,
}

#[derive(Default)]
pub struct Model {
    pub delivered: Vec<Delivered>,
    /// latest policy-conform instance per route
    pub latest: BTreeMap<u8, PathInst>,
    pub ever_admissible: BTreeSet<u8>,
    pub fetches: u64,
    pub last_outcome: Option<FetchOutcome>,
    pub consecutive_failures: u32,
    pub saw_rejected: bool,
}

/// Which property's invariants are asserted.
#[derive(Clone, Copy, PartialEq, Eq)]
pub enum Focus {
    C05,
    C06,
}

pub struct Sim<'w> {
    pub w: &'w World,
    pub drv: PathSetDriver,
    pub now: SystemTime,
    pub cfg: Cfg,
    pub pol: Vec<PolicySpec>,
    pub fetch: FetchSpec,
    pub model: Model,
    pub focus: Focus,
    pub ended: bool,
    // bookkeeping for labels / non-trivial rule
    pub sends: u64,
    pub sends_with_path: u64,
    pub sends_after_rejected: u64,
    pub maintains: u64,
    pub max_fail_run: u32,
    pub issue_reports: u64,
    pub crossed_active_expiry: bool,
    pub hot_loop: bool,
    pub budget_exhausted: bool,
    pub last_fetch_ms: Option<i64>,
    pub slot_expired_sends: u64,
    pub prev_failures: u32,
    pub deferred: Vec<Fail>,
    pub evals: u64,
}

/// maintenance ticks simulated per history at most (fixed work)
pub const TICK_BUDGET: u64 = 40_000;

fn ms(t: SystemTime) -> i64 {
    (ns_of(t) / 1_000_000) as i64
}

impl<'w> Sim<'w> {
    pub fn new(w: &'w World, case: &Case, focus: Focus) -> Result<Sim<'w>, Fail> {
        let strategy = policy::install(&case.policies).map_err(|e| Fail::new("harness:policy-not-installable", e))?;
        let now = world::at(0);
        let drv = no_panic("PathSetDriver::new", || PathSetDriver::new(case.cfg.to_verif(), strategy, src_ia(), dst_ia(), now))?
            .map_err(|e| Fail::new("config-rejected-by-validate", format!("{:?} rejected: {e}", case.cfg)))?;
        Ok(Sim {
            w,
            drv,
            now,
            cfg: case.cfg,
            pol: case.policies.clone(),
            fetch: FetchSpec::NotFound,
            model: Model::default(),
            focus,
            ended: false,
            sends: 0,
            sends_with_path: 0,
            sends_after_rejected: 0,
            maintains: 0,
            max_fail_run: 0,
            issue_reports: 0,
            crossed_active_expiry: false,
            hot_loop: false,
            budget_exhausted: false,
            last_fetch_ms: None,
            slot_expired_sends: 0,
            prev_failures: 0,
            deferred: vec![],
            evals: 0,
        })
    }

    fn resolve(&self, t: SystemTime) -> Option<Vec<PathInst>> {
        let now_s = (ns_of(t) / 1_000_000_000) as i64;
        match &self.fetch {
            FetchSpec::Paths(v) => Some(
                v.iter()
                    .map(|p| PathInst {
                        route: p.route % world::POOL as u8,
                        exp_s: match p.life {
                            Life::Rel(d) => (now_s + d as i64).max(0) as u32,
                            Life::Abs(s) => s,
                        },
                        exp_unit: p.exp_unit,
                        min_seg: p.min_seg,
                        meta: p.meta,
                        meta_exp_skew: p.meta_exp_skew,
                    })
                    .collect(),
            ),
            _ => None,
        }
    }

    fn admissible(&self, inst: &PathInst, path: &ScionPath) -> bool {
        policy::allows(&self.pol, &self.w.routes[inst.route as usize], inst.meta, &raw_bytes(path))
    }

    /// Expiry (ms after BASE) of the path in the active slot as the generator may use it.
    fn active_expiry_ms(&self) -> Option<i64> {
        let fp = self.drv.active_fingerprint()?;
        self.drv.cached_paths(self.now).iter().find(|c| c.fingerprint == fp).and_then(|c| c.expiration).map(|e| (e as i64 - world::BASE as i64) * 1000)
    }

    /// One maintenance tick at `t` (>= every earlier time).
    pub fn maintain_at(&mut self, t: SystemTime) -> CheckResult {
        self.now = t;
        let insts = self.resolve(t);
        let built: Option<Vec<ScionPath>> = insts.as_ref().map(|v| v.iter().map(|i| self.w.build(i)).collect());
        self.drv.set_fetch_result(match (&self.fetch, &built) {
            (FetchSpec::Paths(_), Some(b)) => FetchResult::Paths(b.clone()),
            (FetchSpec::Error, _) => FetchResult::Error("verif: control service unreachable".into()),
            _ => FetchResult::NoPathsFound,
        });
        let before = self.drv.fetch_requests();
        let reason = no_panic("PathSet::maintain", || self.drv.maintain(t)).map_err(|mut f| {
            // the same `expect` is reached from two different situations
            if f.sig.contains("should have a path available") {
                f.sig = format!("panic:PathSet::maintain:no-path-after-successful-fetch:{}",
                    if self.cfg.max_cached == 0 { "max_cached_paths_per_pair=0" } else { "refetched-paths-all-expired" });
            }
            f
        })?;
        self.maintains += 1;
        let fetched = self.drv.fetch_requests() - before;
        ensure!(fetched <= 1, "maintain-fetched-twice", "one maintain() call issued {fetched} fetches");
        if reason.is_some() {
            self.ended = true;
            return Ok(());
        }
        if fetched == 1 {
            self.last_fetch_ms = Some(ms(t));
            // ---- model update
            self.model.fetches += 1;
            let mut n_adm = 0;
            let mut n_adm_live = 0;
            if let (Some(insts), Some(built)) = (&insts, &built) {
                for (inst, p) in insts.iter().zip(built) {
                    let adm = self.admissible(inst, p);
                    self.model.delivered.push(Delivered { inst: *inst, admissible: adm, fetch_no: self.model.fetches });
                    if adm {
                        n_adm += 1;
                    } else {
                        self.model.saw_rejected = true;
                    }
                }
                // the manager keys paths by route (fingerprint): a later entry of the same
                // result overwrites an earlier one, so "latest" is the last admissible one
                if n_adm > 0 {
                    let mut this_fetch: BTreeMap<u8, PathInst> = BTreeMap::new();
                    for (inst, p) in insts.iter().zip(built) {
                        if self.admissible(inst, p) {
                            self.model.latest.insert(inst.route, *inst);
                            self.model.ever_admissible.insert(inst.route);
                            this_fetch.insert(inst.route, *inst);
                        }
                    }
                    // live by the manager's (conservative, whole-second) rule
                    n_adm_live = this_fetch.values().filter(|i| (i.exp_s as i64) * 1000 > ms(t)).count();
                }
            }
            let outcome = if n_adm_live > 0 {
                FetchOutcome::Success
            } else if n_adm > 0 {
                FetchOutcome::SuccessAllExpired
            } else {
                FetchOutcome::Failure
            };
            self.model.last_outcome = Some(outcome);
            self.prev_failures = self.model.consecutive_failures;
            if outcome == FetchOutcome::Failure {
                self.model.consecutive_failures += 1;
                self.max_fail_run = self.max_fail_run.max(self.model.consecutive_failures);
            } else {
                self.model.consecutive_failures = 0;
            }
            if self.focus == Focus::C06 {
                self.check_schedule(t, outcome)?;
            }
        }
        self.check_bounds()?;
        if fetched == 1 && self.focus == Focus::C06 {
            self.check_availability(t, insts.as_deref())?;
        }
        Ok(())
    }

    /// C06 (5): re-attempt no sooner than min delay, no later than backoff ceiling / interval.
    fn check_schedule(&mut self, t: SystemTime, outcome: FetchOutcome) -> CheckResult {
        self.evals += 1;
        // A fetch that delivered policy-conform paths but leaves nothing cached (every one of
        // them already expired; or a cache of size 0) is handled by the manager like a fetch
        // without usable paths: one more failed attempt, backoff, error recorded.
        let mut outcome = outcome;
        if outcome != FetchOutcome::Failure && self.drv.cached_paths(t).is_empty() {
            ensure!(outcome == FetchOutcome::SuccessAllExpired || self.cfg.max_cached == 0, "fetched-live-path-not-cached",
                "fetch at {} ms delivered a live policy-conform path but nothing is cached afterwards (max_cached {})", ms(t), self.cfg.max_cached);
            ensure!(self.drv.current_error().is_some(), "empty-cache-after-fetch-but-no-error-recorded",
                "fetch at {} ms leaves nothing cached, but current_error is unset", ms(t));
            outcome = FetchOutcome::Failure;
            self.model.last_outcome = Some(outcome);
            self.model.consecutive_failures = self.prev_failures + 1;
            self.max_fail_run = self.max_fail_run.max(self.model.consecutive_failures);
        }
        let nr = self.drv.next_refetch();
        let d = nr.duration_since(t).map(|d| d.as_nanos() as i128).unwrap_or_else(|e| -(e.duration().as_nanos() as i128));
        let msn = |m: u64| m as i128 * 1_000_000;
        let slack = 2_000_000; // 2 ms for the f32 -> Duration conversion of the backoff
        ensure!(d >= msn(self.cfg.min_delay_ms), "refetch-sooner-than-min-delay",
            "fetch at {} ms: next_refetch is {} ns later, min_refetch_delay is {} ms ({outcome:?})", ms(t), d, self.cfg.min_delay_ms);
        let ceil_ms = (self.cfg.backoff.1 as f64 * 1000.0).ceil() as u64;
        let fail_bound = msn(ceil_ms.max(self.cfg.min_delay_ms)) + slack;
        let ok_bound = msn(self.cfg.refetch_ms);
        match outcome {
            FetchOutcome::Failure => ensure!(d <= fail_bound, "refetch-later-than-backoff-ceiling",
                "failed fetch #{} at {} ms: next_refetch is {} ns later; ceiling max(backoff max {} s, min delay {} ms)", self.model.consecutive_failures, ms(t), d, self.cfg.backoff.1, self.cfg.min_delay_ms),
            FetchOutcome::Success => {
                ensure!(d <= ok_bound, "refetch-later-than-interval",
                    "successful fetch at {} ms: next_refetch is {} ns later; refetch_interval {} ms", ms(t), d, self.cfg.refetch_ms);
                // "min_expiry_threshold: minimum remaining expiry before refetching paths": the
                // refetch comes no later than threshold before the EARLIEST expiry among the
                // paths the manager holds (unless the min delay forbids it)
                if let Some(earliest_s) = self.drv.cached_paths(t).iter().filter_map(|c| c.expiration).min() {
                    let until = (earliest_s as i128 - world::BASE as i128) * 1_000_000_000 - msn(self.cfg.threshold_ms) - ns_of(t) as i128;
                    ensure!(d <= until.max(msn(self.cfg.min_delay_ms)), "refetch-later-than-earliest-expiry-minus-threshold",
                        "successful fetch at {} ms: next_refetch is {} ns later, but the earliest cached expiry is at {} s (threshold {} ms, min delay {} ms)",
                        ms(t), d, earliest_s as i128 - world::BASE as i128, self.cfg.threshold_ms, self.cfg.min_delay_ms);
                }
            }
            FetchOutcome::SuccessAllExpired => ensure!(d <= ok_bound.max(fail_bound), "refetch-later-than-interval-and-ceiling",
                "fetch (only expired paths) at {} ms: next_refetch is {} ns later", ms(t), d),
        }
        let fa = self.drv.failed_attempts();
        ensure!(fa == self.model.consecutive_failures, "failed-attempts-counter-wrong",
            "after fetch at {} ms ({outcome:?}) failed_attempts = {fa}, model counts {} consecutive failures", ms(t), self.model.consecutive_failures);
        Ok(())
    }

    /// C06 (3)+(4): state bounds, after every step.
    pub fn check_bounds(&mut self) -> CheckResult {
        if self.focus != Focus::C06 {
            return Ok(());
        }
        self.evals += 1;
        let cached = self.drv.cached_paths(self.now).len();
        ensure!(cached <= self.cfg.max_cached, "cache-exceeds-max-cached-paths",
            "{cached} cached paths, max_cached_paths_per_pair = {}", self.cfg.max_cached);
        let (cache, fifo) = self.drv.issue_memory();
        if cache > self.cfg.issue_cache {
            self.defer(Fail::new("issue-cache-exceeds-size", format!("issue cache holds {cache} entries, issue_cache_size = {} (fifo {fifo})", self.cfg.issue_cache)));
        }
        if fifo > 4 * self.cfg.issue_cache + 4 {
            self.defer(Fail::new("issue-fifo-unbounded", format!("issue FIFO holds {fifo} entries while issue_cache_size = {} (cache {cache})", self.cfg.issue_cache)));
        }
        Ok(())
    }

    /// C06 (2): right after a maintenance instant with a fetch, a known valid path => Send works.
    fn check_availability(&mut self, t: SystemTime, fresh: Option<&[PathInst]>) -> CheckResult {
        self.evals += 1;
        let now_ms = ms(t);
        // the manager's own (conservative) notion: whole-second expiry, strictly in the future
        let live = |i: &PathInst| (i.exp_s as i64) * 1000 > now_ms;
        let comfy = |i: &PathInst| (i.exp_s as i64) * 1000 - now_ms > self.cfg.threshold_ms as i64;
        let fresh_adm: Vec<PathInst> = match (fresh, self.model.last_outcome) {
            (Some(f), Some(FetchOutcome::Success | FetchOutcome::SuccessAllExpired)) => {
                // last instance per route wins inside one result
                let mut m: BTreeMap<u8, PathInst> = BTreeMap::new();
                for i in f {
                    if self.model.latest.get(&i.route) == Some(i) {
                        m.insert(i.route, *i);
                    }
                }
                m.into_values().collect()
            }
            _ => vec![],
        };
        let no_truncation = self.model.ever_admissible.len() <= self.cfg.max_cached;
        let known: Vec<PathInst> = if no_truncation { self.model.latest.values().copied().collect() } else { vec![] };
        let fresh_live = fresh_adm.iter().any(|i| live(i));
        let known_live = known.iter().any(|i| live(i));
        if !(fresh_live || known_live) || self.cfg.max_cached == 0 {
            return Ok(());
        }
        let got = self.drv.active_fingerprint().is_some();
        if got {
            return Ok(());
        }
        let any_comfy = fresh_adm.iter().chain(known.iter()).any(|i| comfy(i));
        let sig = if !no_truncation {
            // more routes known than the cache may hold: ranking (which ignores expiry) kept
            // expired paths and dropped the valid one just fetched
            "no-path-though-valid-fetched:cache-truncation-kept-(near-)expired-paths"
        } else if !any_comfy {
            // every known valid path is inside min_expiry_threshold and none was made active
            "no-path-though-valid-known:all-within-expiry-threshold"
        } else {
            "no-path-though-valid-known"
        };
        self.defer(Fail::new(sig, format!(
            "after maintenance with fetch at {now_ms} ms the active slot is empty although valid policy-conform paths are known: fresh {:?}, retained {:?} (threshold {} ms, max_cached {})",
            fresh_adm, known, self.cfg.threshold_ms, self.cfg.max_cached)));
        Ok(())
    }

    /// Record a violation that leaves harness and manager in step, and go on with the history:
    /// a later violation of another kind is then still seen (see `take_deferred`).
    fn defer(&mut self, f: Fail) {
        if !self.deferred.iter().any(|d| d.sig == f.sig) {
            self.deferred.push(f);
        }
    }

    /// The deferred violation to report: one that is not an open known finding first.
    pub fn take_deferred(&mut self) -> Option<Fail> {
        let known = crate::known_open(match self.focus {
            Focus::C05 => "C05",
            Focus::C06 => "C06",
        });
        let pos = self.deferred.iter().position(|d| !known.iter().any(|k| crate::sig_matches(k, &d.sig))).or(if self.deferred.is_empty() { None } else { Some(0) })?;
        Some(self.deferred.swap_remove(pos))
    }

    /// Advance the clock to `target`, running maintenance at every due instant on the way.
    pub fn advance_to(&mut self, target: SystemTime) -> CheckResult {
        let mut same_instant = 0;
        // a spinning worker (see below) ticks continuously; it is sampled at most ~1000 times per
        // Advance and at least once per second for short ones, always including `target` itself
        let spin_step = target.duration_since(self.now).map(|d| d / 1000).unwrap_or_default().max(Duration::from_secs(1));
        while !self.ended {
            let wait = self.drv.next_maintain(self.now);
            let due = self.now + wait;
            if due > target {
                break;
            }
            if wait.is_zero() {
                same_instant += 1;
                if same_instant > if self.hot_loop { 0 } else { 2 } {
                    // next_maintain stays due at the same instant (min_refetch_delay = 0 while a
                    // path is inside the expiry threshold): the real task would spin as fast as
                    // fetches complete; modelled as further ticks `spin_step` apart, the last one
                    // at `target`, so that no observation is made while a tick is due
                    self.hot_loop = true;
                    let t = (self.now + spin_step).min(target);
                    if t > self.now {
                        if self.maintains >= TICK_BUDGET {
                            // fixed work bound per history: the history ends here (time must
                            // not move on without the ticks that are due)
                            self.ended = true;
                            self.budget_exhausted = true;
                            break;
                        }
                        same_instant = 0;
                        self.maintain_at(t)?;
                        continue;
                    }
                    if same_instant > 1 {
                        // already ticked at `target`
                        break;
                    }
                    // at `target` with a tick due and none run yet at this instant: run it below
                }
            } else {
                same_instant = 0;
            }
            if self.maintains >= TICK_BUDGET {
                // fixed work bound per history
                self.ended = true;
                self.budget_exhausted = true;
                break;
            }
            let exp_before = self.active_expiry_ms();
            self.maintain_at(due)?;
            if let Some(e) = exp_before {
                if e <= ms(due) {
                    self.crossed_active_expiry = true;
                }
            }
        }
        if !self.ended && target > self.now {
            if let Some(e) = self.active_expiry_ms() {
                if e <= ms(target) {
                    self.crossed_active_expiry = true;
                }
            }
            self.now = target;
        }
        Ok(())
    }

    pub fn target_of(&self, a: Adv) -> SystemTime {
        let plus = |base: SystemTime, d: i32| {
            if d >= 0 { base + Duration::from_millis(d as u64) } else { base.checked_sub(Duration::from_millis((-d) as u64)).unwrap_or(base) }
        };
        let t = match a {
            Adv::Ms(m) => self.now + Duration::from_millis(m as u64),
            Adv::NextMaintain(d) => plus(self.now + self.drv.next_maintain(self.now), d),
            Adv::ActiveExpiry(d) => match self.active_expiry_ms() {
                Some(e) => plus(at_ns(e.max(0) as u128 * 1_000_000), d),
                None => self.now + Duration::from_millis(d.unsigned_abs() as u64),
            },
            Adv::ActiveNear(d) => match self.active_expiry_ms() {
                Some(e) => plus(at_ns((e - self.cfg.threshold_ms as i64).max(0) as u128 * 1_000_000), d),
                None => self.now + Duration::from_millis(d.unsigned_abs() as u64),
            },
        };
        t.max(self.now)
    }

    pub fn report(&mut self, s: &IssueSpec) -> CheckResult {
        let (_, issue) = resolve_issue(self.w, s);
        let now = self.now;
        no_panic("report_path_issue/handle_issue_rx", || self.drv.report_issue(now, now, issue)).map_err(|mut f| {
            if f.sig.contains("Bad cache: issue ID not found") {
                f.sig = "panic:issue-fifo-entry-without-cache-entry".into();
            }
            f
        })?;
        self.issue_reports += 1;
        if self.drv.exited().is_some() {
            self.ended = true;
        }
        self.check_bounds()
    }

    /// A sender asks for a path at `self.now`: `cached_path` and `path_wait` (what
    /// `UdpScionSocket::send_to` calls) are the observation; the lock-free slot is read as well to
    /// relate them to the worker's state.
    pub fn send(&mut self) -> CheckResult {
        let now = self.now;
        let now_ms = ms(now);
        self.sends += 1;
        self.evals += 1;
        if self.model.saw_rejected {
            self.sends_after_rejected += 1;
        }
        let focus = self.focus;
        // the manager's own debug assertion on an expired path is the liveness violation itself
        let resign = move |mut f: Fail| {
            if f.sig.contains("Returned expired path") {
                f.sig = match focus {
                    Focus::C06 => "expired-path-handed-out:between-fetch-ticks".into(),
                    Focus::C05 => "provenance:expired-path-returned:between-fetch-ticks".into(),
                };
            }
            f
        };
        // expired by the spec (raw bytes), or by the manager's whole-second rule (<= 0.5 s earlier)
        let expired = |seen: &Seen| seen.expiry_ms <= now_ms || seen.expiry_ms.div_euclid(1000) <= now_ms.div_euclid(1000);
        let slot = self.drv.try_active_path(); // also marks the pair as used, like a sender
        let cp = no_panic("MultiPathManager::cached_path", || self.drv.cached_path(now)).map_err(resign)?;
        let pw = no_panic("PathManager::path_wait", || self.drv.path_wait(now)).map_err(resign)?;

        // ---- (1) whatever is handed out is live
        let mut handed: Vec<&ScionPath> = cp.iter().collect();
        if let Some(Ok(q)) = &pw {
            handed.push(q);
        }
        for p in &handed {
            let seen: Seen = self.w.see(p).map_err(|e| Fail::new("returned-path-undecodable", e))?;
            if expired(&seen) {
                let survived = self.last_fetch_ms.map(|t| t >= seen.expiry_ms).unwrap_or(false);
                let sig = match (self.focus, survived) {
                    (Focus::C06, false) => "expired-path-handed-out:between-fetch-ticks",
                    (Focus::C06, true) => "expired-path-handed-out:survived-a-fetch-tick",
                    (Focus::C05, false) => "provenance:expired-path-returned:between-fetch-ticks",
                    (Focus::C05, true) => "provenance:expired-path-returned:survived-a-fetch-tick",
                };
                let f = Fail::new(sig, format!(
                    "send at {now_ms} ms gets the path of route {:?} whose hop fields expired at {} ms (next maintenance due in {:?}, failed_attempts {})",
                    seen.route, seen.expiry_ms, self.drv.next_maintain(now), self.drv.failed_attempts()));
                self.defer(f);
                return Ok(());
            }
        }
        // ---- the two read APIs agree
        match (&cp, &pw) {
            (Some(a), Some(Ok(b))) => ensure!(a == b, "read-apis-disagree", "cached_path and path_wait returned different paths"),
            (None, Some(Err(_))) => {}
            (None, None) => ensure!(!self.drv.initialized(), "sender-would-block-after-initial-fetch", "path_wait pending although the initial fetch completed and no fetch is ongoing"),
            (a, b) => return Err(Fail::new("read-apis-disagree", format!("cached_path gave {:?}, path_wait gave {:?}", a.as_ref().map(|_| "a path"), b.as_ref().map(|r| r.as_ref().map(|_| "a path"))))),
        }
        // ---- relation to the worker's slot
        match &slot {
            Some((p, _)) => {
                let seen: Seen = self.w.see(p).map_err(|e| Fail::new("returned-path-undecodable", e))?;
                if expired(&seen) {
                    // an expired path still in the slot must not be handed out (checked above) and
                    // must not outlive a fetch tick (which drops expired paths)
                    self.slot_expired_sends += 1;
                    if self.last_fetch_ms.map(|t| t >= seen.expiry_ms).unwrap_or(false) {
                        self.defer(Fail::new("expired-path-in-slot:survived-a-fetch-tick", format!(
                            "at {now_ms} ms the active slot holds route {:?} expired at {} ms although a fetch tick ran at {:?} ms", seen.route, seen.expiry_ms, self.last_fetch_ms)));
                    }
                } else {
                    ensure!(cp.as_ref() == Some(p), "live-active-path-not-handed-out", "the active slot holds the live route {:?} but cached_path returned {:?}", seen.route, cp.as_ref().map(|c| self.w.see(c)));
                }
            }
            None => ensure!(cp.is_none(), "path-handed-out-with-empty-slot", "active slot empty but cached_path returned a path"),
        }
        match &cp {
            Some(p) => {
                self.sends_with_path += 1;
                if self.focus == Focus::C05 {
                    let seen: Seen = self.w.see(p).map_err(|e| Fail::new("returned-path-undecodable", e))?;
                    self.check_policy_and_provenance(p, &seen, now_ms)?;
                }
            }
            None => {
                if self.focus == Focus::C06 {
                    self.check_starvation(now_ms);
                }
                if self.focus == Focus::C05 && self.drv.initialized() {
                    // no path => the caller gets an error; after a fetch without any
                    // policy-conform path it is also recorded
                    ensure!(matches!(pw, Some(Err(_))), "no-path-but-no-error-returned", "path_wait did not return an error");
                    if slot.is_none() && self.model.last_outcome == Some(FetchOutcome::Failure) {
                        ensure!(self.drv.current_error().is_some(), "no-path-but-no-error-recorded",
                            "send at {now_ms} ms: no path, the last fetch delivered nothing policy-conform, but current_error is unset");
                    }
                }
            }
        }
        Ok(())
    }

    /// C06 "while at least one valid path is known for the pair a sender is never left without
    /// one", at EVERY send: nothing was handed out, so no path the manager itself still holds
    /// in its cache (truncation / eviction cannot matter) may be unexpired (whole-second rule).
    fn check_starvation(&mut self, now_ms: i64) {
        self.evals += 1;
        let live: Vec<(i64, f32)> = self
            .drv
            .cached_paths(self.now)
            .iter()
            .filter_map(|c| c.expiration.map(|e| ((e as i64 - world::BASE as i64) * 1000, c.score)))
            .filter(|(e, _)| *e > now_ms)
            .collect();
        if live.is_empty() {
            return;
        }
        // why is the worker behind? (signature = shape of the situation, not of the numbers)
        let slot_expired = self.drv.active_fingerprint().is_some();
        let next_ns = self.drv.next_refetch().duration_since(world::at(0)).map(|d| d.as_nanos() as i128).unwrap_or(0);
        let last_ns = self.last_fetch_ms.unwrap_or(0) as i128 * 1_000_000;
        // (last_fetch_ms is truncated to the millisecond)
        let clamped = next_ns - last_ns <= (self.cfg.min_delay_ms as i128 + 1) * 1_000_000;
        let sig = if !slot_expired {
            "sender-starved-though-unexpired-path-cached:slot-empty"
        } else {
            match self.model.last_outcome {
                Some(FetchOutcome::Failure) => "sender-starved-though-unexpired-path-cached:active-expired-while-backing-off",
                _ if clamped => "sender-starved-though-unexpired-path-cached:active-expired-before-min-refetch-delay",
                _ => "sender-starved-though-unexpired-path-cached:active-expired-before-scheduled-refetch",
            }
        };
        self.defer(Fail::new(sig, format!(
            "send at {now_ms} ms gets no path although the manager caches {} unexpired path(s) (expiries ms/score {:?}); active slot {}, last fetch at {:?} ms ({:?}), next refetch at {} ms, failed_attempts {}",
            live.len(), live, if slot_expired { "holds an expired path" } else { "is empty" }, self.last_fetch_ms, self.model.last_outcome, next_ns / 1_000_000, self.drv.failed_attempts())));
    }

    /// C05: policy, endpoints, provenance of a handed-out path.
    fn check_policy_and_provenance(&mut self, p: &ScionPath, seen: &Seen, now_ms: i64) -> CheckResult {
        ensure!(p.src_ia() == src_ia() && p.dst_ia() == dst_ia(), "wrong-endpoints", "returned path connects {} -> {}", p.src_ia(), p.dst_ia());
        let Some(route) = seen.route else {
            return Err(Fail::new("provenance:unknown-route", "returned path is not a route of the pool (hop fields altered?)"));
        };
        let r = &self.w.routes[route];
        // endpoints by the bytes' own metadata-independent route
        ensure!(r.hops[0].asn == world::SRC.1 && r.hops[r.hops.len() - 1].asn == world::DST.1, "wrong-endpoints", "route {route} does not connect the pair");
        let ok = policy::allows(&self.pol, r, seen.meta, &raw_bytes(p));
        if !ok {
            let needs_meta = self.pol.iter().any(|s| s.needs_metadata());
            let sig = if seen.meta != Meta::Full && needs_meta { "policy-violated:path-without-metadata-returned" } else { "policy-violated" };
            return Err(Fail::new(sig, format!("send at {now_ms} ms returned route {route} (meta {:?}) which the policy {:?} rejects", seen.meta, self.pol)));
        }
        // provenance: delivered by some fetch (same route, same lifetime, same metadata kind),
        // and admissible when delivered
        let found = self.model.delivered.iter().any(|d| d.inst.route as usize == route && inst_expiry_ms(&d.inst) == seen.expiry_ms && d.inst.meta == seen.meta && d.admissible);
        ensure!(found, "provenance:never-fetched-instance",
            "send at {now_ms} ms returned route {route} expiring at {} ms with meta {:?}; no successful lookup delivered such a path", seen.expiry_ms, seen.meta);
        Ok(())
    }

    pub fn apply(&mut self, op: &Op) -> CheckResult {
        if self.ended {
            return Ok(());
        }
        match op {
            Op::Fetch(f) => {
                self.fetch = f.clone();
                Ok(())
            }
            Op::Advance(a) => {
                let t = self.target_of(*a);
                self.advance_to(t)
            }
            Op::Issue(s) => self.report(s),
            Op::IssueRepeat { issue, n, spacing_ms } => {
                for _ in 0..*n {
                    if self.ended {
                        break;
                    }
                    self.report(issue)?;
                    let t = self.now + Duration::from_millis(*spacing_ms as u64);
                    self.advance_to(t)?;
                }
                Ok(())
            }
            Op::Send => self.send(),
        }
    }
}

/// Runs a whole history; the first maintenance tick happens at time 0 like the `manage()` task's
/// initial `fetch_and_update` (next_refetch = creation time).
pub fn run(w: &World, case: &Case, focus: Focus, obs: &mut Obs) -> Result<(SimSummary, Option<Fail>), Fail> {
    if !case.cfg.valid() {
        obs.label("config-invalid");
        // validate must reject exactly these
        let strategy = policy::install(&case.policies).map_err(|e| Fail::new("harness:policy-not-installable", e))?;
        let r = no_panic("PathSetDriver::new", || PathSetDriver::new(case.cfg.to_verif(), strategy, src_ia(), dst_ia(), world::at(0)))?;
        ensure!(r.is_err(), "invalid-config-accepted", "config {:?} violates the documented inequalities but was accepted", case.cfg);
        return Ok((SimSummary::default(), None));
    }
    let mut sim = Sim::new(w, case, focus)?;
    for op in &case.ops {
        sim.apply(op)?;
        if sim.ended {
            break;
        }
    }
    obs.evals(sim.evals.max(1));
    let deferred = sim.take_deferred();
    Ok((SimSummary {
        sends: sim.sends,
        sends_with_path: sim.sends_with_path,
        sends_after_rejected: sim.sends_after_rejected,
        fetches: sim.model.fetches,
        maintains: sim.maintains,
        max_fail_run: sim.max_fail_run,
        issue_reports: sim.issue_reports,
        crossed_active_expiry: sim.crossed_active_expiry,
        saw_rejected: sim.model.saw_rejected,
        ended_idle: sim.ended && !sim.budget_exhausted,
        hot_loop: sim.hot_loop,
        budget_exhausted: sim.budget_exhausted,
        slot_expired_sends: sim.slot_expired_sends,
    }, deferred))
}

#[derive(Default, Debug, Clone)]
pub struct SimSummary {
    pub sends: u64,
    pub sends_with_path: u64,
    pub sends_after_rejected: u64,
    pub fetches: u64,
    pub maintains: u64,
    pub max_fail_run: u32,
    pub issue_reports: u64,
    pub crossed_active_expiry: bool,
    pub saw_rejected: bool,
    pub ended_idle: bool,
    pub hot_loop: bool,
    pub budget_exhausted: bool,
    /// sends that met an expired path in the worker's slot (and must not have received it)
    pub slot_expired_sends: u64,
}
