//! Policies attached to the manager and their independent evaluation by the harness.
//!
//! SUT side: sciparse `AclPolicy` / `HopPatternPolicy` / `Policy` objects and a custom
//! `PathPolicy` implementation (arbitrary predicate = keyed hash of the hop-field interface
//! sequence). Harness side: `refmodel::policy` semantics over the pool's hops.

use std::borrow::Cow;

use refmodel::policy::{self as rp, Hop, Ifs, Pat, Pred};
use scion_stack::path::PathStrategy;
use sciparse::{
    identifier::{asn::Asn, isd::Isd},
    path::{
        ScionPath,
        policy::{
            PathPolicy, Policy,
            acl::{AclEntry, AclEntryOperator, AclPolicy},
            hop_pattern::HopPatternPolicy,
            types::{HopPredicate, InterfacesPredicate},
        },
    },
};
use serde::{Deserialize, Serialize};

use crate::world::{Meta, Route, raw_bytes};

#[derive(Clone, Debug, PartialEq, Eq, Hash, Serialize, Deserialize)]
pub enum PolicySpec {
    /// ACL: first matching entry per hop decides, default otherwise
    Acl { entries: Vec<(bool, Pred)>, default_allow: bool },
    /// hop pattern (sequence of pattern items)
    Pattern { seq: Vec<Pat> },
    /// sciparse `Policy { acl, hop_pattern }` (both must hold)
    Combined { entries: Vec<(bool, Pred)>, default_allow: bool, seq: Vec<Pat> },
    /// arbitrary predicate: keyed hash of the dataplane interface sequence; `one_in` of the
    /// hash space is rejected; `needs_meta`: evaluation fails (Err) on paths without metadata
    Hash { key: u64, reject_one_in: u8, needs_meta: bool },
}

impl PolicySpec {
    pub fn needs_metadata(&self) -> bool {
        match self {
            PolicySpec::Hash { needs_meta, .. } => *needs_meta,
            _ => true,
        }
    }
}

fn sut_pred(p: &Pred) -> HopPredicate {
    let ifs = match p.ifs {
        Ifs::Any => InterfacesPredicate::Any,
        Ifs::Either(x) => InterfacesPredicate::either(x),
        Ifs::Both(i, e) => InterfacesPredicate::both(i, e),
    };
    HopPredicate::new(Isd(p.isd), p.asn.map(Asn), ifs)
}
fn op(allow: bool) -> AclEntryOperator {
    if allow { AclEntryOperator::Allow } else { AclEntryOperator::Deny }
}
fn sut_acl(entries: &[(bool, Pred)], default_allow: bool) -> AclPolicy {
    AclPolicy::new_from_entries(op(default_allow), entries.iter().map(|(a, p)| AclEntry::new(op(*a), sut_pred(p))))
}
fn sut_pattern(seq: &[Pat]) -> Result<HopPatternPolicy, String> {
    let text = rp::show_seq(seq, &mut 0);
    HopPatternPolicy::parse(&text).map_err(|e| format!("pattern {text:?} rejected: {e:?}"))
}

/// FNV-style keyed hash of the raw interface sequence (hop fields' ConsIngress/ConsEgress).
pub fn keyed_hash(key: u64, bytes: &[u8]) -> u64 {
    // interface ids live at offsets 2..6 of each 12-byte hop field; hashing the positions of the
    // whole path minus timestamps/ExpTime/MACs keeps the predicate a function of the ROUTE
    let mut hsh = 0xcbf29ce484222325u64 ^ key;
    if bytes.len() < 4 {
        return hsh;
    }
    let w = u32::from_be_bytes([bytes[0], bytes[1], bytes[2], bytes[3]]);
    let segs = [((w >> 12) & 0x3f) as usize, ((w >> 6) & 0x3f) as usize, (w & 0x3f) as usize];
    let ninfo = segs.iter().filter(|l| **l > 0).count();
    let nhop: usize = segs.iter().sum();
    for i in 0..nhop {
        let o = 4 + 8 * ninfo + 12 * i;
        if o + 6 > bytes.len() {
            break;
        }
        for b in &bytes[o + 2..o + 6] {
            hsh ^= *b as u64;
            hsh = hsh.wrapping_mul(0x100000001b3);
        }
    }
    hsh ^= hsh >> 29;
    hsh.wrapping_mul(0x9E3779B97F4A7C15) >> 8
}

struct HashPolicy {
    key: u64,
    reject_one_in: u8,
    needs_meta: bool,
}
impl PathPolicy for HashPolicy {
    fn path_allowed(&self, path: &ScionPath) -> Result<bool, Cow<'static, str>> {
        if self.needs_meta && path.metadata().is_none() {
            return Err("no metadata".into());
        }
        Ok(hash_allows(self.key, self.reject_one_in, &raw_bytes(path)))
    }
}
fn hash_allows(key: u64, reject_one_in: u8, bytes: &[u8]) -> bool {
    keyed_hash(key, bytes) % (reject_one_in.max(2) as u64) != 0
}

/// Installs the policies into a `PathStrategy` (conjunction = several policies).
pub fn install(specs: &[PolicySpec]) -> Result<PathStrategy, String> {
    let mut st = PathStrategy::default();
    for s in specs {
        match s {
            PolicySpec::Acl { entries, default_allow } => st.add_policy(sut_acl(entries, *default_allow)),
            PolicySpec::Pattern { seq } => st.add_policy(sut_pattern(seq)?),
            PolicySpec::Combined { entries, default_allow, seq } => {
                st.add_policy(Policy::new(Some(sut_acl(entries, *default_allow)), Some(sut_pattern(seq)?)))
            }
            PolicySpec::Hash { key, reject_one_in, needs_meta } => {
                st.add_policy(HashPolicy { key: *key, reject_one_in: *reject_one_in, needs_meta: *needs_meta })
            }
        }
    }
    Ok(st)
}

/// Harness verdict for a path of route `route` carrying metadata `meta` and dataplane `bytes`.
pub fn allows(specs: &[PolicySpec], route: &Route, meta: Meta, bytes: &[u8]) -> bool {
    let hops: &[Hop] = &route.hops;
    specs.iter().all(|s| match s {
        PolicySpec::Acl { entries, default_allow } => meta == Meta::Full && rp::acl_allows(entries, *default_allow, hops),
        PolicySpec::Pattern { seq } => meta == Meta::Full && rp::pattern_matches(seq, hops),
        PolicySpec::Combined { entries, default_allow, seq } => {
            meta == Meta::Full && rp::acl_allows(entries, *default_allow, hops) && rp::pattern_matches(seq, hops)
        }
        PolicySpec::Hash { key, reject_one_in, needs_meta } => {
            (!*needs_meta || meta != Meta::Absent) && hash_allows(*key, *reject_one_in, bytes)
        }
    })
}
