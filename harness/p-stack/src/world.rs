//! The synthetic world shared by C05/C06/C07: one (src,dst) pair, a pool of 12 routes with
//! controlled interface sharing, and the construction of `ScionPath`s with REAL dataplane bytes
//! (encoded by the independent `refmodel::wire` encoder, so that the expiry the manager sees is
//! computed from info/hop fields), with or without metadata / interface lists.
//!
//! Everything the oracles need to know about a path (hops, expiry, identity) is derived here from
//! the harness' own data or from the raw bytes through `refmodel::wire::decode_std_path`; nothing
//! is taken from sciparse accessors.

use std::time::{Duration, SystemTime};

use refmodel::{
    policy::Hop,
    wire::{RHop, RInfo, RStd, decode_std_path, encode_std_path},
};
use sciparse::{
    core::view::View,
    dataplane_path::standard::view::StandardPathView,
    identifier::{asn::Asn, isd::Isd, isd_asn::IsdAsn},
    path::{
        ScionPath,
        metadata::{PathMetadata, path_interface::PathInterface},
    },
};
use serde::{Deserialize, Serialize};

/// Absolute second of "time 0" of every history (fits the u32 timestamps of info fields).
pub const BASE: u64 = 1_700_000_000;

pub fn at(ms: u64) -> SystemTime {
    SystemTime::UNIX_EPOCH + Duration::from_secs(BASE) + Duration::from_millis(ms)
}
/// milliseconds since BASE (rounded down to the nanosecond->ms; only used for reporting)
pub fn ms_of(t: SystemTime) -> u64 {
    t.duration_since(SystemTime::UNIX_EPOCH + Duration::from_secs(BASE)).map(|d| d.as_millis() as u64).unwrap_or(0)
}
/// nanoseconds since BASE
pub fn ns_of(t: SystemTime) -> u128 {
    t.duration_since(SystemTime::UNIX_EPOCH + Duration::from_secs(BASE)).map(|d| d.as_nanos()).unwrap_or(0)
}
pub fn at_ns(ns: u128) -> SystemTime {
    SystemTime::UNIX_EPOCH + Duration::from_secs(BASE) + Duration::new((ns / 1_000_000_000) as u64, (ns % 1_000_000_000) as u32)
}

pub const SRC: (u16, u64) = (1, 0xff00_0000_0110);
pub const DST: (u16, u64) = (2, 0xff00_0000_0220);
const A: (u16, u64) = (1, 0xff00_0000_0001);
const B: (u16, u64) = (1, 0xff00_0000_0002);
const C: (u16, u64) = (2, 0xff00_0000_0001);
const E: (u16, u64) = (2, 0xff00_0000_0002);
const F: (u16, u64) = (1, 0xff00_0000_0003);

pub fn ia(x: (u16, u64)) -> IsdAsn {
    IsdAsn::new(Isd(x.0), Asn(x.1))
}
pub fn src_ia() -> IsdAsn {
    ia(SRC)
}
pub fn dst_ia() -> IsdAsn {
    ia(DST)
}

/// One route of the pool: AS-level hops in travel direction and the dataplane layout.
#[derive(Clone, Debug)]
pub struct Route {
    pub hops: Vec<Hop>,
    /// indices (into `hops`) of the crossover ASes (segment changes); at most 2
    pub xover: Vec<usize>,
    /// whether the first segment is traversed against construction direction (an up segment)
    pub first_seg_up: bool,
}

fn h(a: (u16, u64), ing: u16, eg: u16) -> Hop {
    Hop { isd: a.0, asn: a.1, ing, eg }
}

pub const POOL: usize = 12;

/// The pool. Sharing on purpose (interface ids collide across ASes on purpose, too):
///  * first hop S#1: R0 R1 R8;  S#2: R2 R3;  S#3: R4 R5;  S#6: R9 R10
///  * transit A with the same pair (1,2): only R0; A egress 2 with other ingress: R4 (4,2), R9 (6,2)
///    A pair (1,3): R1 R8
///  * transit C: R1 (1,2), R3 (2,2), R11 (7,2): same egress, different ingress; R8 (1,4) R7 (3,4)
///  * last hop A#2->D#1: R0 R4 R9;  B#2->D#3: R2 R5 R10;  C#2->D#2: R1 R3 R11;  E#2->D#5: R7 R8
///  * lengths: R6 has 2 ASes; R0 R2 R9 R11 3 (ties); R1 R3 R4 R5 R10 4; R7 R8 5
pub fn routes() -> Vec<Route> {
    let r = |hops: Vec<Hop>, xover: Vec<usize>, up: bool| Route { hops, xover, first_seg_up: up };
    vec![
        /* R0 */ r(vec![h(SRC, 0, 1), h(A, 1, 2), h(DST, 1, 0)], vec![], false),
        /* R1 */ r(vec![h(SRC, 0, 1), h(A, 1, 3), h(C, 1, 2), h(DST, 2, 0)], vec![1], true),
        /* R2 */ r(vec![h(SRC, 0, 2), h(B, 1, 2), h(DST, 3, 0)], vec![], true),
        /* R3 */ r(vec![h(SRC, 0, 2), h(B, 1, 3), h(C, 2, 2), h(DST, 2, 0)], vec![1, 2], true),
        /* R4 */ r(vec![h(SRC, 0, 3), h(F, 1, 2), h(A, 4, 2), h(DST, 1, 0)], vec![2], true),
        /* R5 */ r(vec![h(SRC, 0, 3), h(F, 1, 3), h(B, 4, 2), h(DST, 3, 0)], vec![], false),
        /* R6 */ r(vec![h(SRC, 0, 4), h(DST, 4, 0)], vec![], false),
        /* R7 */ r(vec![h(SRC, 0, 5), h(F, 5, 6), h(C, 3, 4), h(E, 1, 2), h(DST, 5, 0)], vec![1, 3], true),
        /* R8 */ r(vec![h(SRC, 0, 1), h(A, 1, 3), h(C, 1, 4), h(E, 1, 2), h(DST, 5, 0)], vec![2], true),
        /* R9 */ r(vec![h(SRC, 0, 6), h(A, 6, 2), h(DST, 1, 0)], vec![1], true),
        /* R10 */ r(vec![h(SRC, 0, 6), h(A, 6, 7), h(B, 7, 2), h(DST, 3, 0)], vec![], false),
        /* R11 */ r(vec![h(SRC, 0, 7), h(C, 7, 2), h(DST, 2, 0)], vec![], false),
    ]
}

impl Route {
    /// Number of hop fields of the dataplane encoding (crossover ASes have two).
    pub fn hop_fields(&self) -> usize {
        self.hops.len() + self.xover.len()
    }
    /// segments as (first AS index, last AS index), inclusive
    pub fn segments(&self) -> Vec<(usize, usize)> {
        let mut v = vec![];
        let mut start = 0;
        for &x in &self.xover {
            v.push((start, x));
            start = x;
        }
        v.push((start, self.hops.len() - 1));
        v
    }
}

/// How much metadata the fetcher attaches.
#[derive(Clone, Copy, Debug, PartialEq, Eq, Hash, Serialize, Deserialize)]
pub enum Meta {
    /// metadata with the interface list
    Full,
    /// metadata present, interface list absent
    NoIfaces,
    /// no metadata at all
    Absent,
}

/// One concrete path instance as a fetch result delivers it.
#[derive(Clone, Copy, Debug, PartialEq, Eq, Hash, Serialize, Deserialize)]
pub struct PathInst {
    /// index into the pool
    pub route: u8,
    /// lifetime end in whole seconds after BASE as the dataplane encodes it (see `expiry_ms`)
    pub exp_s: u32,
    /// ExpTime unit of the defining hop field (odd => lifetime is a whole number of seconds,
    /// even => the real lifetime ends half a second after `exp_s`)
    pub exp_unit: u8,
    /// which segment carries the defining (minimal) expiry; the others expire 1000 s later
    pub min_seg: u8,
    pub meta: Meta,
    /// metadata.expiration = real expiry + this (stale/wrong control-plane value when != 0)
    pub meta_exp_skew: u16,
}

/// floor((e+1) * 337.5)
fn life_s(e: u8) -> u32 {
    ((e as u32 + 1) * 3375) / 10
}

/// Encodes the dataplane path of `inst` and wraps it into a `ScionPath`.
pub fn build_path(rt: &[Route], inst: &PathInst) -> ScionPath {
    let route = &rt[inst.route as usize];
    let segs = route.segments();
    let min_seg = (inst.min_seg as usize).min(segs.len() - 1);
    let mut infos = vec![];
    let mut hops = vec![];
    let mut seg_len = [0u8; 3];
    for (si, (lo, hi)) in segs.iter().enumerate() {
        let cons_dir = !(si == 0 && route.first_seg_up);
        let extra = if si == min_seg { 0 } else { 1000 };
        let ts = (BASE as u32) + inst.exp_s + extra - life_s(inst.exp_unit);
        infos.push(RInfo { flags: cons_dir as u8, rsv: 0, seg_id: 0x1000 + si as u16, ts });
        seg_len[si] = (hi - lo + 1) as u8;
        for i in *lo..=*hi {
            let hop = route.hops[i];
            // at a crossover the two hop fields of the AS carry (ing,0) and (0,eg)
            let ing = if i == *lo && si > 0 { 0 } else { hop.ing };
            let eg = if i == *hi && si + 1 < segs.len() { 0 } else { hop.eg };
            let (ci, ce) = if cons_dir { (ing, eg) } else { (eg, ing) };
            // only the first hop field of the segment carries the defining ExpTime
            let exp = if i == *lo { inst.exp_unit } else { inst.exp_unit.saturating_add(2) };
            hops.push(RHop { flags: 0, exp, ing: ci, eg: ce, mac: [si as u8, i as u8, 0xaa, 0xbb, 0xcc, 0xdd] });
        }
    }
    let std = RStd { curr_inf: 0, curr_hf: 0, rsv: 0, seg_len, infos, hops };
    let bytes = encode_std_path(&std);
    let (view, rest) = StandardPathView::try_from_slice(&bytes).expect("reference encoder produced a path sciparse rejects");
    assert!(rest.is_empty());
    let meta = match inst.meta {
        Meta::Absent => None,
        m => {
            let mut ifs = vec![];
            for (i, hop) in route.hops.iter().enumerate() {
                let a = ia((hop.isd, hop.asn));
                if i > 0 {
                    ifs.push(PathInterface::new(a, hop.ing));
                }
                if i + 1 < route.hops.len() {
                    ifs.push(PathInterface::new(a, hop.eg));
                }
            }
            let mut md = PathMetadata::new_minimal(BASE + inst.exp_s as u64 + inst.meta_exp_skew as u64, 1400, ifs);
            if m == Meta::NoIfaces {
                md.interfaces = None;
            }
            Some(md)
        }
    };
    ScionPath::new(src_ia(), dst_ia(), view.to_boxed().into(), meta, None)
}

/// What the harness reads back from a `ScionPath` handed out by the manager, from RAW BYTES.
#[derive(Clone, Debug, PartialEq, Eq)]
pub struct Seen {
    /// pool index identified by the hop-field interface sequence (None: not a pool route)
    pub route: Option<usize>,
    /// real end of life in ms after BASE: min over segments of ts + (min ExpTime + 1) * 337.5 s
    pub expiry_ms: i64,
    pub meta: Meta,
}

fn iface_seq(std: &RStd) -> Vec<(u8, u16, u16)> {
    // (segment index, cons ingress, cons egress) per hop field
    let mut v = vec![];
    let mut k = 0;
    for (si, n) in std.seg_len.iter().enumerate() {
        for _ in 0..*n {
            v.push((si as u8, std.hops[k].ing, std.hops[k].eg));
            k += 1;
        }
    }
    v
}

pub struct World {
    pub routes: Vec<Route>,
    seqs: Vec<Vec<(u8, u16, u16)>>,
}

impl World {
    pub fn new() -> World {
        let routes = routes();
        let mut seqs = vec![];
        for i in 0..routes.len() {
            let p = build_path(&routes, &PathInst { route: i as u8, exp_s: 10_000, exp_unit: 1, min_seg: 0, meta: Meta::Full, meta_exp_skew: 0 });
            let bytes = raw_bytes(&p);
            let (std, _) = decode_std_path(&bytes).expect("decode own path");
            seqs.push(iface_seq(&std));
        }
        // the pool must consist of pairwise different interface sequences (ignoring segmenting,
        // which the manager's fingerprint ignores as well)
        for i in 0..seqs.len() {
            for j in 0..i {
                let a: Vec<_> = seqs[i].iter().map(|x| (x.1, x.2)).collect();
                let b: Vec<_> = seqs[j].iter().map(|x| (x.1, x.2)).collect();
                assert_ne!(a, b, "pool routes {i} and {j} collide");
            }
        }
        World { routes, seqs }
    }

    pub fn build(&self, inst: &PathInst) -> ScionPath {
        build_path(&self.routes, inst)
    }

    /// Decode a handed-out path independently of sciparse.
    pub fn see(&self, p: &ScionPath) -> Result<Seen, String> {
        let bytes = raw_bytes(p);
        let (std, used) = decode_std_path(&bytes).map_err(|e| format!("reference decoder rejects the returned dataplane path: {e:?}"))?;
        if used != bytes.len() {
            return Err("returned dataplane path has trailing bytes".into());
        }
        let seq = iface_seq(&std);
        let route = self.seqs.iter().position(|s| *s == seq);
        let mut expiry_ms = i64::MAX;
        let mut k = 0;
        for (si, n) in std.seg_len.iter().enumerate().filter(|(_, n)| **n > 0) {
            let info_idx = std.seg_len[..si].iter().filter(|l| **l > 0).count();
            let min_exp = std.hops[k..k + *n as usize].iter().map(|h| h.exp).min().unwrap();
            k += *n as usize;
            let ts_ms = (std.infos[info_idx].ts as i64 - BASE as i64) * 1000;
            expiry_ms = expiry_ms.min(ts_ms + (min_exp as i64 + 1) * 337_500);
        }
        let meta = match p.metadata() {
            None => Meta::Absent,
            Some(m) if m.interfaces.is_none() => Meta::NoIfaces,
            Some(_) => Meta::Full,
        };
        Ok(Seen { route, expiry_ms, meta })
    }
}

pub fn raw_bytes(p: &ScionPath) -> Vec<u8> {
    use sciparse::dataplane_path::view::ScionDpPathView;
    match p.dp_path() {
        ScionDpPathView::Standard(v) => v.as_slice().to_vec(),
        _ => vec![],
    }
}

/// End of life of an instance in ms after BASE, as the harness defines it (spec: timestamp +
/// (1+ExpTime) * 24h/256).
pub fn inst_expiry_ms(inst: &PathInst) -> i64 {
    let l = life_s(inst.exp_unit) as i64;
    (inst.exp_s as i64 - l) * 1000 + (inst.exp_unit as i64 + 1) * 337_500
}
