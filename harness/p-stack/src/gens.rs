//! proptest strategies shared by the three checks. All indices are mapped monotonically
//! (`vcore::idx`), rare shapes are built on purpose.

use proptest::prelude::*;
use refmodel::policy::{Ifs, Pat, Pred};

use crate::{
    policy::PolicySpec,
    sim::{Adv, Cfg, FetchSpec, IssueKindSpec, IssueSpec, Life, Op, PathSpec},
    world::{self, Meta},
};

pub fn pick<T: Clone + std::fmt::Debug + 'static>(v: Vec<T>) -> impl Strategy<Value = T> {
    let n = v.len();
    any::<u16>().prop_map(move |i| v[vcore::idx(i, n)].clone())
}

// ------------------------------------------------------------------------------ policies

/// hop predicates over the pool's hops (exact, per interface, wildcards)
pub fn pool_preds() -> Vec<Pred> {
    let mut v = vec![
        Pred { isd: 0, asn: None, ifs: Ifs::Any },
        Pred { isd: 1, asn: None, ifs: Ifs::Any },
        Pred { isd: 2, asn: None, ifs: Ifs::Any },
        Pred { isd: 1, asn: Some(0), ifs: Ifs::Any },
    ];
    for r in world::routes() {
        for h in &r.hops {
            for p in [
                Pred { isd: h.isd, asn: Some(h.asn), ifs: Ifs::Any },
                Pred { isd: h.isd, asn: Some(h.asn), ifs: Ifs::Either(h.eg) },
                Pred { isd: h.isd, asn: Some(h.asn), ifs: Ifs::Either(h.ing) },
                Pred { isd: h.isd, asn: Some(h.asn), ifs: Ifs::Both(h.ing, h.eg) },
                Pred { isd: 0, asn: Some(h.asn), ifs: Ifs::Both(0, h.eg) },
            ] {
                if !v.contains(&p) {
                    v.push(p);
                }
            }
        }
    }
    v
}

fn any_hop() -> Pat {
    Pat::P(Pred { isd: 0, asn: None, ifs: Ifs::Any })
}

pub fn acl_strategy() -> impl Strategy<Value = (Vec<(bool, Pred)>, bool)> {
    (prop::collection::vec((any::<bool>(), pick(pool_preds())), 0..5), any::<bool>())
}

pub fn pattern_strategy() -> impl Strategy<Value = Vec<Pat>> {
    let p = || pick(pool_preds()).prop_map(Pat::P);
    let star_any = || Pat::Star(Box::new(any_hop()));
    prop_oneof![
        // contains a hop
        3 => p().prop_map(move |x| vec![star_any(), x, star_any()]),
        // first hop / last hop pinned
        2 => (p(), p()).prop_map(move |(a, b)| vec![a, star_any(), b]),
        // only through a set of transit hops
        2 => (p(), p()).prop_map(move |(a, b)| vec![any_hop(), Pat::Star(Box::new(Pat::Or(Box::new(a), Box::new(b)))), any_hop()]),
        // length bounds
        1 => (2usize..6).prop_map(|n| { let mut v = vec![any_hop(); n - 1]; v.push(Pat::Opt(Box::new(any_hop()))); v }),
        // optional / plus mixtures
        1 => (p(), p()).prop_map(move |(a, b)| vec![any_hop(), Pat::Opt(Box::new(a)), Pat::Plus(Box::new(Pat::Or(Box::new(b), Box::new(any_hop()))))]),
    ]
}

pub fn policy_strategy() -> impl Strategy<Value = PolicySpec> {
    prop_oneof![
        3 => acl_strategy().prop_map(|(entries, default_allow)| PolicySpec::Acl { entries, default_allow }),
        3 => pattern_strategy().prop_map(|seq| PolicySpec::Pattern { seq }),
        1 => (acl_strategy(), pattern_strategy()).prop_map(|((entries, default_allow), seq)| PolicySpec::Combined { entries, default_allow, seq }),
        2 => (any::<u64>(), 2u8..5, any::<bool>()).prop_map(|(key, reject_one_in, needs_meta)| PolicySpec::Hash { key, reject_one_in, needs_meta }),
    ]
}

/// 0..3 policies (conjunction)
pub fn policies_strategy() -> impl Strategy<Value = Vec<PolicySpec>> {
    prop_oneof![
        1 => Just(vec![]),
        6 => policy_strategy().prop_map(|p| vec![p]),
        3 => prop::collection::vec(policy_strategy(), 2..4),
    ]
}

// ------------------------------------------------------------------------------ fetch results

/// lifetimes (seconds, relative to the fetch) straddling now / threshold / min delay / refetch
pub fn life_strategy(cfg: &Cfg) -> impl Strategy<Value = Life> + use<> {
    let thr = (cfg.threshold_ms / 1000) as i32;
    let md = (cfg.min_delay_ms / 1000) as i32;
    let rf = (cfg.refetch_ms / 1000).min(100_000) as i32;
    let bo = cfg.backoff.1.min(100_000.0) as i32;
    let rel = vec![
        -10, 0, 1, 2, thr - 1, thr, thr + 1, thr + 2, md, md + 1, thr + md, thr + md + 1, 2 * thr + 5, bo + 1, thr + bo + 1, rf - 1, rf, rf + thr + 1, 3 * rf, 5_000, 86_000,
    ];
    prop_oneof![
        8 => pick(rel).prop_map(Life::Rel),
        2 => (1i32..4000).prop_map(Life::Rel),
        1 => pick(vec![1u32, 5, 30, 100, 400, 1000, 5000]).prop_map(Life::Abs),
    ]
}

pub fn meta_strategy() -> impl Strategy<Value = Meta> {
    prop_oneof![7 => Just(Meta::Full), 2 => Just(Meta::NoIfaces), 2 => Just(Meta::Absent)]
}

pub fn path_spec_strategy(cfg: &Cfg, routes: Vec<u8>) -> impl Strategy<Value = PathSpec> + use<> {
    (pick(routes), life_strategy(cfg), pick(vec![1u8, 1, 1, 1, 3, 0, 2, 255]), 0u8..3, meta_strategy(), pick(vec![0u16, 0, 0, 0, 5000]))
        .prop_map(|(route, life, exp_unit, min_seg, meta, meta_exp_skew)| PathSpec { route, life, exp_unit, min_seg, meta, meta_exp_skew })
}

pub fn fetch_strategy(cfg: &Cfg, max_paths: usize) -> impl Strategy<Value = FetchSpec> + use<> {
    let all: Vec<u8> = (0..world::POOL as u8).collect();
    let few: Vec<u8> = vec![0, 2, 6];
    prop_oneof![
        6 => prop::collection::vec(path_spec_strategy(cfg, all), 1..=max_paths).prop_map(FetchSpec::Paths),
        2 => prop::collection::vec(path_spec_strategy(cfg, few), 1..=3).prop_map(FetchSpec::Paths),
        1 => Just(FetchSpec::Paths(vec![])),
        1 => Just(FetchSpec::NotFound),
        2 => Just(FetchSpec::Error),
    ]
}

// ------------------------------------------------------------------------------ time

pub fn adv_strategy(cfg: &Cfg) -> impl Strategy<Value = Adv> + use<> {
    let thr = cfg.threshold_ms as u32;
    let md = cfg.min_delay_ms as u32;
    let rf = cfg.refetch_ms.min(4_000_000) as u32;
    let bo = (cfg.backoff.1.min(4_000.0) * 1000.0) as u32;
    let ms = vec![0u32, 1, 500, 1000, md.saturating_sub(1), md, md + 1, thr.saturating_sub(1000), thr, thr + 1000, bo, bo + 1000, rf.saturating_sub(1000), rf, rf + 1000, 340_000, 700_000];
    prop_oneof![
        5 => pick(ms).prop_map(Adv::Ms),
        2 => (0u32..20_000).prop_map(Adv::Ms),
        4 => pick(vec![-1i32, 0, 0, 1, 1000]).prop_map(Adv::NextMaintain),
        5 => pick(vec![-1000i32, -1, 0, 1, 500, 1000]).prop_map(Adv::ActiveExpiry),
        2 => pick(vec![-1000i32, 0, 1000]).prop_map(Adv::ActiveNear),
    ]
}

// ------------------------------------------------------------------------------ issues

pub fn issue_strategy() -> impl Strategy<Value = IssueSpec> {
    (
        prop_oneof![Just(IssueKindSpec::ExtDown), Just(IssueKindSpec::IntDown), Just(IssueKindSpec::FirstHop)],
        0u8..world::POOL as u8,
        0u8..5,
        prop_oneof![6 => Just(0u8), 1 => Just(1u8), 1 => Just(2u8)],
        0u8..3,
    )
        .prop_map(|(kind, route, pos, twist, pkt)| IssueSpec { kind, route, pos, twist, pkt })
}

pub fn ops_strategy(cfg: Cfg, max_ops: usize, max_paths: usize, w: [u32; 5], repeat_max: u16) -> impl Strategy<Value = Vec<Op>> {
    let dedup = cfg.dedup_ms as u32;
    let spacing = vec![0u32, 1, dedup.saturating_sub(1), dedup, dedup + 1, 2 * dedup + 7, 60_000];
    let op = prop_oneof![
        w[0] => fetch_strategy(&cfg, max_paths).prop_map(Op::Fetch),
        w[1] => adv_strategy(&cfg).prop_map(Op::Advance),
        w[2] => issue_strategy().prop_map(Op::Issue),
        w[3] => Just(Op::Send),
        w[4] => (issue_strategy(), prop_oneof![6 => 2u16..40, 2 => 100u16..1000, 1 => Just(repeat_max)], pick(spacing))
            .prop_map(|(issue, n, spacing_ms)| Op::IssueRepeat { issue, n, spacing_ms }),
    ];
    prop::collection::vec(op, 1..=max_ops)
}
