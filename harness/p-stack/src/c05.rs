//! C05 — a socket's path policy is honoured by every path handed to a sender.

use std::sync::OnceLock;

use p_stack::{
    gens,
    policy::PolicySpec,
    sim::{self, Adv, Case, Cfg, FetchSpec, Focus, IssueKindSpec, IssueSpec, Life, Op, PathSpec},
    world::{self, Meta, World},
};
use proptest::prelude::*;
use refmodel::policy::{Ifs, Pat, Pred};
use vcore::{CheckResult, Ctx, Obs, Sub};

fn world() -> &'static World {
    static W: OnceLock<World> = OnceLock::new();
    W.get_or_init(World::new)
}

fn cfg_fast() -> Cfg {
    // the repository's own test configuration (manager.rs tests::helpers::base_config)
    Cfg { max_cached: 5, refetch_ms: 100_000, min_delay_ms: 1_000, threshold_ms: 5_000, idle_ms: 30_000, backoff: (1.0, 10.0, 2.0), jitter: 0.0, issue_cache: 64, dedup_ms: 10_000, swap_thr: 0.1 }
}
fn cfgs() -> Vec<Cfg> {
    vec![
        cfg_fast(),
        Cfg { idle_ms: 10_000_000, ..cfg_fast() },
        Cfg { max_cached: 2, idle_ms: 10_000_000, ..cfg_fast() },
        Cfg { max_cached: 1, swap_thr: 0.5, idle_ms: 10_000_000, ..cfg_fast() },
        Cfg::defaults(),
        Cfg { idle_ms: 100_000_000, ..Cfg::defaults() },
    ]
}

fn check(case: &Case, obs: &mut Obs) -> CheckResult {
    p_stack::dev_filter(check_inner(case, obs))
}

fn check_inner(case: &Case, obs: &mut Obs) -> CheckResult {
    let w = world();
    let (s, deferred) = sim::run(w, case, Focus::C05, obs)?;
    // ---- classification
    let n_routes_allowed = (0..world::POOL)
        .filter(|r| {
            let p = w.build(&world::PathInst { route: *r as u8, exp_s: 9_000, exp_unit: 1, min_seg: 0, meta: Meta::Full, meta_exp_skew: 0 });
            p_stack::policy::allows(&case.policies, &w.routes[*r], Meta::Full, &world::raw_bytes(&p))
        })
        .count();
    obs.label(match n_routes_allowed {
        0 => "policy-rejects-whole-pool",
        12 => "policy-allows-whole-pool",
        _ => "policy-splits-pool",
    });
    if case.policies.len() > 1 {
        obs.label("policy-conjunction");
    }
    for p in &case.policies {
        obs.label(match p {
            PolicySpec::Acl { .. } => "policy-acl",
            PolicySpec::Pattern { .. } => "policy-hop-pattern",
            PolicySpec::Combined { .. } => "policy-acl+pattern",
            PolicySpec::Hash { .. } => "policy-arbitrary-predicate",
        });
    }
    if case.policies.is_empty() {
        obs.label("policy-none");
    }
    if s.saw_rejected {
        obs.label("fetch-contained-violating-path");
    }
    if s.sends_with_path > 0 {
        obs.label("send-got-path");
    }
    if s.sends > s.sends_with_path {
        obs.label("send-got-none");
    }
    if s.crossed_active_expiry {
        obs.label("time-crossed-active-expiry");
    }
    if s.max_fail_run >= 1 {
        obs.label("fetch-failure");
    }
    if s.issue_reports > 0 {
        obs.label("issue-reported");
    }
    if s.ended_idle {
        obs.label("worker-exited-idle");
    }
    if s.slot_expired_sends > 0 {
        obs.label("send-while-slot-holds-expired-path");
    }
    if s.hot_loop {
        obs.label("refetch-hot-loop(min_delay=0)");
    }
    if s.budget_exhausted {
        obs.label("tick-budget-exhausted");
    }
    let has_nometa = case.ops.iter().any(|o| matches!(o, Op::Fetch(FetchSpec::Paths(v)) if v.iter().any(|p| p.meta != Meta::Full)));
    if has_nometa && case.policies.iter().any(|p| p.needs_metadata()) {
        obs.label("metadata-less-path-under-metadata-policy");
    }
    // non-trivial: a fetch delivered a policy-violating path and a Send came later
    if s.saw_rejected && s.sends_after_rejected > 0 {
        obs.label("nontrivial");
        obs.nontrivial(&serde_json::to_string(case).unwrap_or_default());
    }
    match deferred {
        Some(f) => Err(f),
        None => Ok(()),
    }
}

fn case_strategy(max_ops: usize) -> impl Strategy<Value = Case> {
    (gens::pick(cfgs()), gens::policies_strategy()).prop_flat_map(move |(cfg, policies)| {
        gens::ops_strategy(cfg, max_ops, 8, [25, 30, 10, 35, 1], 20).prop_map(move |ops| Case { cfg, policies: policies.clone(), ops })
    })
}

fn run_random(ctx: &Ctx) {
    let n = ctx.tier.pick(80_000, 2_000_000);
    let max_ops = ctx.tier.pick(30, 80);
    ctx.run_prop("histories-random", n, || case_strategy(max_ops), check);
}

// ------------------------------------------------------------------------------ exhaustive

/// Small op alphabet for exhaustive short histories (boundary times, mixed fetch results).
fn alphabet() -> Vec<Op> {
    let ps = |route: u8, life: i32, meta: Meta| PathSpec { route, life: Life::Rel(life), exp_unit: 1, min_seg: 0, meta, meta_exp_skew: 0 };
    vec![
        // mixed: conforming + violating + metadata-less, one short-lived
        Op::Fetch(FetchSpec::Paths(vec![ps(0, 400, Meta::Full), ps(2, 7, Meta::Full), ps(6, 400, Meta::Absent), ps(1, 400, Meta::Full)])),
        // only routes through A / only metadata-less
        Op::Fetch(FetchSpec::Paths(vec![ps(9, 400, Meta::Full), ps(0, 400, Meta::NoIfaces)])),
        Op::Fetch(FetchSpec::Error),
        Op::Advance(Adv::NextMaintain(0)),
        Op::Advance(Adv::ActiveExpiry(0)),
        Op::Issue(IssueSpec { kind: IssueKindSpec::ExtDown, route: 0, pos: 1, twist: 0, pkt: 0 }),
        Op::Send,
    ]
}
fn exh_policies() -> Vec<Vec<PolicySpec>> {
    let a = |asn: u64| Pred { isd: 1, asn: Some(asn), ifs: Ifs::Any };
    let any = Pat::P(Pred { isd: 0, asn: None, ifs: Ifs::Any });
    vec![
        // deny AS A (1-ff00:0:1): rejects R0 R1 R4 R8 R9 R10
        vec![PolicySpec::Acl { entries: vec![(false, a(0xff00_0000_0001))], default_allow: true }],
        // exactly three hops
        vec![PolicySpec::Pattern { seq: vec![any.clone(), any.clone(), any.clone()] }],
        // arbitrary predicate not needing metadata
        vec![PolicySpec::Hash { key: 7, reject_one_in: 2, needs_meta: false }],
    ]
}
fn exh_case(i: u64, len: usize) -> Option<Case> {
    let alpha = alphabet();
    let pols = exh_policies();
    let k = alpha.len() as u64;
    let per_policy = k.pow(len as u32);
    let pol = (i / per_policy) as usize;
    if pol >= pols.len() {
        return None;
    }
    let mut code = i % per_policy;
    let mut ops = vec![];
    for _ in 0..len {
        ops.push(alpha[(code % k) as usize].clone());
        code /= k;
    }
    // every history ends with a Send so that the last state is observed
    ops.push(Op::Send);
    Some(Case { cfg: cfg_fast(), policies: pols[pol].clone(), ops })
}
fn run_exhaustive(ctx: &Ctx) {
    let max_len = ctx.tier.pick(4, 5);
    for len in 1..=max_len {
        let n = 3 * (alphabet().len() as u64).pow(len as u32);
        let name: &'static str = match len {
            1 => "histories-exhaustive-len1",
            2 => "histories-exhaustive-len2",
            3 => "histories-exhaustive-len3",
            4 => "histories-exhaustive-len4",
            _ => "histories-exhaustive-len5",
        };
        ctx.run_enum(name, n, true, |i| exh_case(i, len), check);
    }
}

fn post(ctx: &Ctx) {
    ctx.require_label("nontrivial", ctx.tier.pick(5_000, 300_000));
    ctx.require_label("policy-splits-pool", 500);
    ctx.require_label("metadata-less-path-under-metadata-policy", 300);
    ctx.require_label("send-got-path", 800);
    ctx.require_label("send-got-none", 300);
    ctx.require_label("time-crossed-active-expiry", 50);
}

fn main() {
    let subs = [
        Sub { name: "histories-random", run: run_random, replay: |c, v| c.replay_case::<Case>("histories-random", v, |k, o| p_stack::replay_repeated(k, o, check)) },
        Sub { name: "histories-exhaustive-len1", run: run_exhaustive, replay: |c, v| c.replay_case::<Case>("histories-exhaustive", v, |k, o| p_stack::replay_repeated(k, o, check)) },
        Sub { name: "histories-exhaustive-len2", run: |_| {}, replay: |c, v| c.replay_case::<Case>("histories-exhaustive", v, |k, o| p_stack::replay_repeated(k, o, check)) },
        Sub { name: "histories-exhaustive-len3", run: |_| {}, replay: |c, v| c.replay_case::<Case>("histories-exhaustive", v, |k, o| p_stack::replay_repeated(k, o, check)) },
        Sub { name: "histories-exhaustive-len4", run: |_| {}, replay: |c, v| c.replay_case::<Case>("histories-exhaustive", v, |k, o| p_stack::replay_repeated(k, o, check)) },
        Sub { name: "histories-exhaustive-len5", run: |_| {}, replay: |c, v| c.replay_case::<Case>("histories-exhaustive", v, |k, o| p_stack::replay_repeated(k, o, check)) },
    ];
    vcore::main(
        "C05",
        "case = (manager config, 0..3 path policies, history of ops). Ops: Fetch(result the fetcher serves from now on: 0..8 paths of a 12-route pool with real dataplane bytes, each with full / interface-less / no metadata and a lifetime straddling now, the near-expiry threshold, the min refetch delay and the refetch interval; Ok(empty); NoPathsFound; error), Advance(ms | to next maintenance +-d | to active expiry +-d | to active near-expiry +-d) with maintain() run at every due instant, Issue(SCMP ext-if-down / int-conn-down / first-hop failure derived from a pool route, matching or not), Send. Policies: ACLs and hop patterns over the pool's hop predicates, sciparse Policy{acl,pattern}, arbitrary keyed-hash predicates, conjunctions. Oracle at every Send (slot read + cached_path + path_wait): returned path satisfies the policies under refmodel semantics evaluated on the harness' own hop list (metadata-less => rejected when a policy needs metadata), connects the pair, is an instance (route, hop-field lifetime, metadata kind) delivered by some fetch and admissible then, and its hop fields are unexpired; the three read APIs agree; no path => path_wait errs and, after a fetch without policy-conform result, current_error is set. Exhaustive: all histories of length <= 4 (thorough 5) over a 7-op boundary alphabet x 3 policies. Non-trivial = history in which a fetch delivered a policy-violating path and a Send happened afterwards.",
        &[
            "maintenance runs exactly at the instants next_maintain() names (the real task runs it at or after them)",
            "fetches resolve instantly (no sender observes the manager mid-fetch)",
            "the worker's exit epilogue (idle) is not modelled: a history ends when maintain() returns an exit reason",
            "ranking ties are broken nondeterministically by the manager (new paths pass through a randomly keyed HashMap before a stable sort), so one history has several executions; no assertion depends on WHICH of equally ranked paths wins: every oracle constrains whatever path is returned (policy, provenance, liveness), sizes, schedules, or - in C07 - scores up to a 1e-3 tolerance where any path within tolerance of the best is accepted; replays and regressions run a case 33 times and fail if any execution fails",
        ],
        &subs,
        post,
    );
}
